"""The obligation table for Layer V (DESIGN.md 2.1): contracts spliced onto the extracted functions.

For each extracted function:  requires (list of clause strings), ensures (list of (clause-id, serves, expr)),
optional ghost prologue (rule X-link; never anything between extracted statements), loop contracts by loop
ordinal.  Row ids are  V.<file>.<fn>.<clause-id>;  every function also gets the row V.<file>.<fn>.body
(callee preconditions, debug assertions turned into obligations, arithmetic, termination).

Contracts are written against the spec predicates of verus/10_spec.rs; nothing here reads code.
"""

ALL_SAFETY = ['C01', 'C03', 'C04', 'C05']

V = {
    # ------------------------------------------------------------------ src/context.rs
    'context.root_barrier': dict(
        requires=[],
        ensures=[('rel', ['C06', 'C08', 'C03', 'C20'], 'root_barrier_rel(old(self)@, final(self)@)')],
        body_serves=['C06'],
    ),
    'context.gray_remaining': dict(
        requires=[],
        ensures=[('result', ['C07', 'C08'], 'r == gray_remaining_spec(old(self)@)'),
                 ('frame', ['C03', 'C08'], 'same(old(self)@, final(self)@)')],
        body_serves=['C08'],
    ),
    'context.trace': dict(
        requires=['trace_pre(old(self)@, gc_ptr)'],
        ensures=[('heap', ['C01', 'C02', 'C06', 'C07'], 'trace_rel_heap(old(self)@, final(self)@, gc_ptr)'),
                 ('queues', ['C01', 'C06', 'C07', 'C11'], 'trace_rel_queues(old(self)@, final(self)@, gc_ptr)'),
                 ('metrics', ['C09', 'C10'], 'trace_rel_metrics(old(self)@, final(self)@, gc_ptr)'),
                 ('frame', ['C03', 'C06', 'C08'], 'trace_rel_frame(old(self)@, final(self)@)')],
        body_serves=['C06', 'C10'],
    ),
    'context.trace_weak': dict(
        requires=['trace_weak_pre(old(self)@, gc_ptr)'],
        ensures=[('heap', ['C05', 'C02', 'C06'], 'trace_weak_rel_heap(old(self)@, final(self)@, gc_ptr)'),
                 ('queues', ['C01', 'C06'], 'same_queues(old(self)@, final(self)@)'),
                 ('metrics', ['C09', 'C10'], 'trace_rel_metrics(old(self)@, final(self)@, gc_ptr)'),
                 ('frame', ['C03', 'C06', 'C08'], 'trace_rel_frame(old(self)@, final(self)@)')],
        body_serves=['C06', 'C10'],
    ),
    'context.make_gray_again': dict(
        requires=['make_gray_again_pre(old(self)@, gc_ptr)'],
        ensures=[('heap', ['C01', 'C06', 'C11'], 'make_gray_again_rel_heap(old(self)@, final(self)@, gc_ptr)'),
                 ('queues', ['C01', 'C06', 'C11'], 'qpush(old(self)@, final(self)@, gc_ptr)'),
                 ('metrics', ['C09', 'C10'], 'make_gray_again_rel_metrics(old(self)@, final(self)@)'),
                 ('frame', ['C03', 'C06', 'C08'], 'trace_rel_frame(old(self)@, final(self)@)'),
                 # the conjunction, as the single term the unwind variants' relation is triggered on
                 ('rel', ['C11'], 'make_gray_again_rel(old(self)@, final(self)@, gc_ptr)')],
        body_serves=['C06', 'C10', 'C11'],
    ),
    'context.backward_barrier': dict(
        requires=['backward_barrier_pre(old(self)@, parent, child)'],
        ensures=[('adopt', ['C01', 'C06', 'C14'], 'backward_barrier_post(final(self)@, parent, child)'),
                 ('rel', ['C01', 'C06', 'C03'], 'backward_barrier_rel(old(self)@, final(self)@, parent, child)'),
                 ('frame', ['C06', 'C03', 'C08', 'C10'], 'barrier_frame(old(self)@, final(self)@)')],
        body_serves=['C06', 'C10'],
    ),
    'context.backward_barrier_weak': dict(
        requires=['backward_barrier_pre(old(self)@, parent, Some(child))'],
        ensures=[('adopt', ['C05', 'C06'], 'backward_barrier_weak_post(final(self)@, parent, child)'),
                 ('rel', ['C05', 'C06', 'C03'], 'backward_barrier_rel(old(self)@, final(self)@, parent, Some(child))'),
                 ('frame', ['C06', 'C03', 'C08', 'C10'], 'barrier_frame(old(self)@, final(self)@)')],
        body_serves=['C06', 'C10'],
    ),
    'context.forward_barrier': dict(
        requires=['forward_barrier_pre(old(self)@, parent, child)'],
        ensures=[('adopt', ['C01', 'C06'], 'forward_barrier_post(final(self)@, parent, child)'),
                 ('rel', ['C01', 'C06', 'C03'], 'forward_barrier_rel(old(self)@, final(self)@, parent, child)'),
                 ('frame', ['C06', 'C03', 'C08', 'C10'], 'barrier_frame(old(self)@, final(self)@)')],
        body_serves=['C06', 'C10'],
    ),
    'context.forward_barrier_weak': dict(
        requires=['forward_barrier_pre(old(self)@, parent, child)'],
        ensures=[('adopt', ['C05', 'C06'], 'forward_barrier_weak_post(final(self)@, parent, child)'),
                 ('rel', ['C05', 'C06', 'C03'], 'forward_barrier_weak_rel(old(self)@, final(self)@, parent, child)'),
                 ('frame', ['C06', 'C03', 'C08', 'C10'], 'barrier_frame(old(self)@, final(self)@)')],
        body_serves=['C06', 'C10'],
    ),
    'context.upgrade': dict(
        requires=['upgrade_pre(old(self)@, gc_ptr)'],
        ensures=[('rel', ['C05', 'C03', 'C19'], 'upgrade_rel(old(self)@, final(self)@, gc_ptr, r)')],
        body_serves=['C05'],
    ),
    'context.resurrect': dict(
        requires=['resurrect_pre(old(self)@, gc_ptr)'],
        ensures=[('heap', ['C07'], 'resurrect_rel_heap(old(self)@, final(self)@, gc_ptr)'),
                 ('queues', ['C07', 'C08'], 'resurrect_rel_queues(old(self)@, final(self)@, gc_ptr)'),
                 ('metrics', ['C09', 'C10'], 'trace_rel_metrics(old(self)@, final(self)@, gc_ptr)'),
                 ('frame', ['C03', 'C07', 'C08'], 'trace_rel_frame(old(self)@, final(self)@)')],
        body_serves=['C07'],
    ),
    'context.link': dict(
        requires=['link_pre(old(self)@, gc_ptr)'],
        prologue='proof { self.heap.g@ = materialized(self.heap.g@, gc_ptr); }',
        ensures=[('heap', ['C01', 'C03', 'C18'], 'link_rel_heap(old(self)@, final(self)@, gc_ptr)'),
                 ('list', ['C01', 'C04', 'C05'], 'link_rel_list(old(self)@, final(self)@, gc_ptr)'),
                 ('metrics', ['C09', 'C10', 'C18'], 'link_rel_metrics(old(self)@, final(self)@)'),
                 ('frame', ['C03', 'C08'], 'same_queues(old(self)@, final(self)@) && same_ctl(old(self)@, final(self)@)')],
        body_serves=['C01', 'C10'],
    ),
    'context.mark_one': dict(
        requires=['mark_one_pre(old(self)@)'],
        ensures=[('rel', ['C01', 'C02', 'C05', 'C06', 'C07', 'C08', 'C09', 'C10'], 'mark_one_rel(old(self)@, final(self)@, r)')],
        body_serves=['C01', 'C10', 'C11'],
    ),
    'context.sweep_one': dict(
        requires=['sweep_one_pre(old(self)@)'],
        ensures=[('heap', ['C01', 'C02', 'C04', 'C05'], 'sweep_one_rel_heap(old(self)@, final(self)@, r)'),
                 ('list', ['C01', 'C04', 'C05', 'C08', 'C11'], 'sweep_one_rel_list(old(self)@, final(self)@, r)'),
                 ('metrics', ['C09', 'C10'], 'sweep_one_rel_metrics(old(self)@, final(self)@)'),
                 ('frame', ['C03', 'C08'], 'sweep_one_rel_frame(old(self)@, final(self)@)'),
                 # the conjunction of the four clauses, as the single term the driver's preservation lemma is triggered on
                 ('rel', ['C01', 'C04', 'C05'], 'sweep_one_rel(old(self)@, final(self)@, r)')],
        body_serves=['C01', 'C04', 'C10'],
    ),
}

_HOIST_MGA = dict(requires=['make_gray_again_pre(old(self)@, parent)'], ensures=['make_gray_again_rel(old(self)@, final(self)@, parent)'])
V['context.backward_barrier']['hoisted'] = {'backward_barrier__barrier': _HOIST_MGA}
V['context.backward_barrier_weak']['hoisted'] = {'backward_barrier_weak__barrier': _HOIST_MGA}
V['context.forward_barrier']['hoisted'] = {'forward_barrier__barrier': dict(
    requires=['trace_pre(old(self)@, child)'], ensures=['trace_rel(old(self)@, final(self)@, child)'])}
V['context.forward_barrier_weak']['hoisted'] = {'forward_barrier_weak__barrier': dict(
    requires=['trace_weak_pre(old(self)@, child)'], ensures=['trace_weak_rel(old(self)@, final(self)@, child)'])}

# ------------------------------------------------------------------ src/metrics.rs (counter part)
def _ctr(field, sign='+', extra=None, serves=('C09', 'C10')):
    upd = ', '.join('%s: old(self)@.%s %s count' % (f, f, s) for f, s in ([(field, sign)] + (extra or [])))
    return dict(requires=[], ensures=[('counters', list(serves), 'final(self)@ == (MV { %s, ..old(self)@ })' % upd)], body_serves=['C10'])

V['metrics.mark_gc_allocated'] = _ctr('total', '+', [('allocated', '+')])
V['metrics.mark_gc_dropped'] = _ctr('dropped')
V['metrics.mark_gc_freed'] = _ctr('total', '-', [('freed', '+')])
V['metrics.mark_gc_freed']['requires'] = ['old(self)@.total >= count']
V['metrics.mark_gc_marked'] = _ctr('marked')
V['metrics.mark_gc_traced'] = _ctr('traced')
V['metrics.mark_gc_untraced'] = _ctr('traced', '-')
V['metrics.mark_gc_untraced']['requires'] = ['old(self)@.traced >= count']
V['metrics.mark_gc_remembered'] = _ctr('remembered')
V['metrics.total_gc_count'] = dict(requires=[], ensures=[('result', ['C10', 'C04'], 'r == old(self)@.total'),
                                                         ('frame', ['C03'], 'final(self)@ == old(self)@')], body_serves=['C10'])
V['metrics.finish_cycle'] = dict(requires=[], ensures=[
    ('counters', ['C09', 'C10'], 'final(self)@ == (MV { allocated: 0, dropped: 0, freed: 0, marked: 0, traced: 0, remembered: 0, fl: final(self)@.fl, ..old(self)@ })'),
    ('floats', ['C09'], 'finish_floats(old(self)@, final(self)@.fl, reset_debt) && zero_work_factors(final(self)@.fl) == zero_work_factors(old(self)@.fl)')],
    body_serves=['C09', 'C10'])

# ------------------------------------------------------------------ the driver
# loop contracts are lists of (row-clause-id, text): a failing line is attributed to that clause's row
_DC_INV = [
    ('inv', 'inv(self@), quiescent(self@)'),
    ('asleep_no_progress', 'run_until == RunUntil::PayDebt ==> debt_pos(old(self)@.m)'),
    ('history', 'old(self)@.hist.len() <= self@.hist.len(), self@.hist.subrange(0, old(self)@.hist.len() as int) =~= old(self)@.hist'),
    ('stop_the_world', 'zero_work_factors(self@.m.fl) == zero_work_factors(old(self)@.m.fl)'),
    ('never_leaves_marked', '(stop == Stop::FullyMarked && old(self)@.phase != Phase::Sweep) ==> self@.phase != Phase::Sweep'),
    ('noop_while_sweeping', '(stop_rank(stop) <= 1 && old(self)@.phase == Phase::Sweep) ==> same(old(self)@, self@)'),
    ('cycle_stops_at_sleep', 'stop == Stop::FinishCycle ==> forall|i: int| old(self)@.hist.len() <= i < self@.hist.len() ==> self@.hist[i] != Phase::Sleep'),
    ('stop_the_world', '(run_until == RunUntil::PayDebt && zero_work_factors(old(self)@.m.fl) && debt_pos(old(self)@.m)) ==> debt_pos(self@.m) || (self@.phase == Phase::Sweep && self@.sweep is None)'),
]
_DC_LOOP_ENS = [
    ('inv', 'inv(self@), quiescent(self@)'),
    ('history', 'old(self)@.hist.len() <= self@.hist.len(), self@.hist.subrange(0, old(self)@.hist.len() as int) =~= old(self)@.hist'),
    ('cycle_stops_at_sleep', 'stop == Stop::FinishCycle ==> forall|i: int| old(self)@.hist.len() <= i < self@.hist.len() - 1 ==> self@.hist[i] != Phase::Sleep'),
    ('noop_while_sweeping', '(stop_rank(stop) <= 1 && old(self)@.phase == Phase::Sweep) ==> same(old(self)@, self@)'),
    ('never_leaves_marked', '(stop == Stop::FullyMarked && old(self)@.phase != Phase::Sweep) ==> self@.phase != Phase::Sweep'),
    ('finish_marking', '(run_until == RunUntil::Stop && stop == Stop::FullyMarked && old(self)@.phase != Phase::Sweep) ==> self@.phase == Phase::Mark && !gray_remaining_spec(self@)'),
    ('start_sweeping', '(run_until == RunUntil::Stop && stop == Stop::AtSweep && old(self)@.phase != Phase::Sweep) ==> self@.phase == Phase::Sweep'),
    ('finish_cycle', '(run_until == RunUntil::Stop && stop == Stop::FinishCycle) ==> self@.phase == Phase::Sleep'),
    ('collect_debt_pays', '(run_until == RunUntil::PayDebt && stop == Stop::Full) ==> !debt_pos(self@.m)'),
    ('cycle_debt_pays', '(run_until == RunUntil::PayDebt && stop == Stop::FinishCycle) ==> !debt_pos(self@.m) || self@.phase == Phase::Sleep'),
    ('mark_debt_pays', '(run_until == RunUntil::PayDebt && stop == Stop::FullyMarked) ==> !debt_pos(self@.m) || self@.phase == Phase::Sweep || (self@.phase == Phase::Mark && !gray_remaining_spec(self@))'),
    ('stop_the_world', '(run_until == RunUntil::PayDebt && stop_rank(stop) >= 2 && zero_work_factors(old(self)@.m.fl) && debt_pos(old(self)@.m)) ==> self@.phase == Phase::Sleep'),
]
V['context.do_collection'] = dict(
    attrs=['#[verifier::exec_allows_no_decreases_clause]'],
    requires=['inv(old(self)@)', 'quiescent(old(self)@)'],
    ensures=[
        ('inv', ['C01', 'C02', 'C04', 'C05', 'C07', 'C11', 'C20'], 'inv(final(self)@) && quiescent(final(self)@)'),
        # C08: mark_debt / finish_marking do nothing while Sweeping and never leave Marked for Sweeping
        ('noop_while_sweeping', ['C08'], '(stop_rank(stop) <= 1 && old(self)@.phase == Phase::Sweep) ==> same(old(self)@, final(self)@)'),
        ('never_leaves_marked', ['C08'], '(stop == Stop::FullyMarked && old(self)@.phase != Phase::Sweep) ==> final(self)@.phase != Phase::Sweep'),
        ('finish_marking', ['C07', 'C08'], '(run_until == RunUntil::Stop && stop == Stop::FullyMarked && old(self)@.phase != Phase::Sweep) ==> final(self)@.phase == Phase::Mark && !gray_remaining_spec(final(self)@)'),
        ('start_sweeping', ['C08'], '(run_until == RunUntil::Stop && stop == Stop::AtSweep && old(self)@.phase != Phase::Sweep) ==> final(self)@.phase == Phase::Sweep'),
        ('finish_cycle', ['C02', 'C08'], '(run_until == RunUntil::Stop && stop == Stop::FinishCycle) ==> final(self)@.phase == Phase::Sleep'),
        # C08: history is only extended; with FinishCycle, Sleep can only be the last phase entered in this call
        ('history', ['C08'], 'old(self)@.hist.len() <= final(self)@.hist.len() && final(self)@.hist.subrange(0, old(self)@.hist.len() as int) =~= old(self)@.hist'),
        ('cycle_stops_at_sleep', ['C08'], 'stop == Stop::FinishCycle ==> forall|i: int| old(self)@.hist.len() <= i < final(self)@.hist.len() - 1 ==> final(self)@.hist[i] != Phase::Sleep'),
        # C09(a): debt-driven calls
        ('collect_debt_pays', ['C09'], '(run_until == RunUntil::PayDebt && stop == Stop::Full) ==> !debt_pos(final(self)@.m)'),
        ('cycle_debt_pays', ['C09'], '(run_until == RunUntil::PayDebt && stop == Stop::FinishCycle) ==> !debt_pos(final(self)@.m) || final(self)@.phase == Phase::Sleep'),
        ('mark_debt_pays', ['C09'], '(run_until == RunUntil::PayDebt && stop == Stop::FullyMarked) ==> !debt_pos(final(self)@.m) || final(self)@.phase == Phase::Sweep || (final(self)@.phase == Phase::Mark && !gray_remaining_spec(final(self)@))'),
        ('asleep_no_progress', ['C09', 'C03'], '(run_until == RunUntil::PayDebt && !debt_pos(old(self)@.m)) ==> same(old(self)@, final(self)@)'),
        # C09 stop-the-world sentence: all work factors zero and positive debt => does not return until Sleeping again
        ('stop_the_world', ['C09'], '(run_until == RunUntil::PayDebt && stop_rank(stop) >= 2 && zero_work_factors(old(self)@.m.fl) && debt_pos(old(self)@.m)) ==> final(self)@.phase == Phase::Sleep'),
    ],
    loops={0: dict(invariant_except_break=_DC_INV, ensures=_DC_LOOP_ENS)},
    body_serves=['C08', 'C09', 'C01'],
)

# ------------------------------------------------------------------ impl Drop for Context (rule X-dropall)
V['context.drop'] = dict(
    ghost_param='Ghost(l): Ghost<Seq<GcPtr>>',      # ghost prologue: the list witness, chosen from Inv by the (ghost) caller
    requires=['drop_pre(old(self)@, l)'],
    ensures=[
        ('all_released', ['C04', 'C11'], 'final(self)@.objs.dom() =~= Set::<GcPtr>::empty()'),
        ('count_zero', ['C04', 'C10'], 'final(self)@.m.total == 0'),
        ('each_freed_and_destructed', ['C04', 'C11'], 'forall|i: int| 0 <= i < l.len() ==> final(self)@.freed.contains(#[trigger] l[i]) && final(self)@.dropped.contains(l[i])'),
        ('only_own_objects', ['C04', 'C20'], 'forall|p: GcPtr| final(self)@.freed.contains(p) ==> old(self)@.freed.contains(p) || l.contains(p)'),
    ],
    loops={0: dict(
        invariant=[
            ('all_released', 'wf_from(self@.objs, self@.dropped, l, pos(l, cursor)), 0 <= pos(l, cursor) <= l.len(), cursor == at(l, pos(l, cursor))'),
            ('count_zero', 'self@.m.total == l.len() - pos(l, cursor)'),
            ('each_freed_and_destructed', 'forall|i: int| 0 <= i < pos(l, cursor) ==> self@.freed.contains(#[trigger] l[i]) && self@.dropped.contains(l[i])'),
            ('only_own_objects', 'forall|p: GcPtr| self@.freed.contains(p) ==> old(self)@.freed.contains(p) || l.contains(p)'),
        ],
        ensures=[('all_released', 'cursor is None')],
        decreases='l.len() - pos(l, cursor)')},
    body_serves=['C04', 'C10'],
)

# ------------------------------------------------------------------ unwind variants of mark_one (rule X-unwind, C11)
V['context.mark_one#unwind'] = {
    'trace_value': dict(serves=['C11', 'C10'], requires=['mark_one_pre(old(self)@)', '!old(self)@.unwinding'],
                        ensures='final(self)@.unwinding ==> mark_one_unwind_rel(old(self)@, S { unwinding: false, ..final(self)@ })'),
    'trace_root': dict(serves=['C11'], requires=['mark_one_pre(old(self)@)', '!old(self)@.unwinding'],
                       ensures='final(self)@.unwinding ==> mark_one_unwind_rel(old(self)@, S { unwinding: false, ..final(self)@ })'),
}
