"""The obligation table for Layer V (DESIGN.md 2.1): contracts spliced onto the extracted functions.

For each extracted function:  requires (list of clause strings), ensures (list of (clause-id, serves, expr)),
optional ghost prologue (rule X-link; never anything between extracted statements), loop contracts by loop
ordinal.  Row ids are  V.<file>.<fn>.<clause-id>;  every function also gets the row V.<file>.<fn>.body
(callee preconditions, debug assertions turned into obligations, arithmetic, termination).

Contracts are written against the spec predicates of verus/10_spec.rs; nothing here reads code.
"""

ALL_SAFETY = ['C01', 'C03', 'C04', 'C05']

V = {
    # ------------------------------------------------------------------ src/context.rs
    'context.root_barrier': dict(
        requires=[],
        ensures=[('rel', ['C06', 'C08', 'C03', 'C20'], 'root_barrier_rel(old(self)@, final(self)@)')],
        body_serves=['C06'],
    ),
    'context.gray_remaining': dict(
        requires=[],
        ensures=[('result', ['C07', 'C08'], 'r == gray_remaining_spec(old(self)@)'),
                 ('frame', ['C03', 'C08'], 'same(old(self)@, final(self)@)')],
        body_serves=['C08'],
    ),
    'context.trace': dict(
        requires=['trace_pre(old(self)@, gc_ptr)'],
        ensures=[('heap', ['C01', 'C02', 'C06', 'C07'], 'trace_rel_heap(old(self)@, final(self)@, gc_ptr)'),
                 ('queues', ['C01', 'C06', 'C07', 'C11'], 'trace_rel_queues(old(self)@, final(self)@, gc_ptr)'),
                 ('metrics', ['C09', 'C10'], 'trace_rel_metrics(old(self)@, final(self)@, gc_ptr)'),
                 ('frame', ['C03', 'C06', 'C08'], 'trace_rel_frame(old(self)@, final(self)@)')],
        body_serves=['C06', 'C10'],
    ),
    'context.trace_weak': dict(
        requires=['trace_weak_pre(old(self)@, gc_ptr)'],
        ensures=[('heap', ['C05', 'C02', 'C06'], 'trace_weak_rel_heap(old(self)@, final(self)@, gc_ptr)'),
                 ('queues', ['C01', 'C06'], 'same_queues(old(self)@, final(self)@)'),
                 ('metrics', ['C09', 'C10'], 'trace_rel_metrics(old(self)@, final(self)@, gc_ptr)'),
                 ('frame', ['C03', 'C06', 'C08'], 'trace_rel_frame(old(self)@, final(self)@)')],
        body_serves=['C06', 'C10'],
    ),
    'context.make_gray_again': dict(
        requires=['make_gray_again_pre(old(self)@, gc_ptr)'],
        ensures=[('heap', ['C01', 'C06', 'C11'], 'make_gray_again_rel_heap(old(self)@, final(self)@, gc_ptr)'),
                 ('queues', ['C01', 'C06', 'C11'], 'qpush(old(self)@, final(self)@, gc_ptr)'),
                 ('metrics', ['C09', 'C10'], 'make_gray_again_rel_metrics(old(self)@, final(self)@)'),
                 ('frame', ['C03', 'C06', 'C08'], 'trace_rel_frame(old(self)@, final(self)@)')],
        body_serves=['C06', 'C10', 'C11'],
    ),
    'context.backward_barrier': dict(
        requires=['backward_barrier_pre(old(self)@, parent, child)'],
        ensures=[('adopt', ['C01', 'C06', 'C14'], 'backward_barrier_post(final(self)@, parent, child)'),
                 ('rel', ['C01', 'C06', 'C03'], 'backward_barrier_rel(old(self)@, final(self)@, parent, child)'),
                 ('frame', ['C06', 'C03', 'C08', 'C10'], 'barrier_frame(old(self)@, final(self)@)')],
        body_serves=['C06', 'C10'],
    ),
    'context.backward_barrier_weak': dict(
        requires=['backward_barrier_pre(old(self)@, parent, Some(child))'],
        ensures=[('adopt', ['C05', 'C06'], 'backward_barrier_weak_post(final(self)@, parent, child)'),
                 ('rel', ['C05', 'C06', 'C03'], 'backward_barrier_rel(old(self)@, final(self)@, parent, Some(child))'),
                 ('frame', ['C06', 'C03', 'C08', 'C10'], 'barrier_frame(old(self)@, final(self)@)')],
        body_serves=['C06', 'C10'],
    ),
    'context.forward_barrier': dict(
        requires=['forward_barrier_pre(old(self)@, parent, child)'],
        ensures=[('adopt', ['C01', 'C06'], 'forward_barrier_post(final(self)@, parent, child)'),
                 ('rel', ['C01', 'C06', 'C03'], 'forward_barrier_rel(old(self)@, final(self)@, parent, child)'),
                 ('frame', ['C06', 'C03', 'C08', 'C10'], 'barrier_frame(old(self)@, final(self)@)')],
        body_serves=['C06', 'C10'],
    ),
    'context.forward_barrier_weak': dict(
        requires=['forward_barrier_pre(old(self)@, parent, child)'],
        ensures=[('adopt', ['C05', 'C06'], 'forward_barrier_weak_post(final(self)@, parent, child)'),
                 ('rel', ['C05', 'C06', 'C03'], 'forward_barrier_weak_rel(old(self)@, final(self)@, parent, child)'),
                 ('frame', ['C06', 'C03', 'C08', 'C10'], 'barrier_frame(old(self)@, final(self)@)')],
        body_serves=['C06', 'C10'],
    ),
    'context.upgrade': dict(
        requires=['upgrade_pre(old(self)@, gc_ptr)'],
        ensures=[('rel', ['C05', 'C03', 'C19'], 'upgrade_rel(old(self)@, final(self)@, gc_ptr, r)')],
        body_serves=['C05'],
    ),
    'context.resurrect': dict(
        requires=['resurrect_pre(old(self)@, gc_ptr)'],
        ensures=[('heap', ['C07'], 'resurrect_rel_heap(old(self)@, final(self)@, gc_ptr)'),
                 ('queues', ['C07', 'C08'], 'resurrect_rel_queues(old(self)@, final(self)@, gc_ptr)'),
                 ('metrics', ['C09', 'C10'], 'trace_rel_metrics(old(self)@, final(self)@, gc_ptr)'),
                 ('frame', ['C03', 'C07', 'C08'], 'trace_rel_frame(old(self)@, final(self)@)')],
        body_serves=['C07'],
    ),
    'context.link': dict(
        requires=['link_pre(old(self)@, gc_ptr)'],
        prologue='proof { self.heap.g@ = materialized(self.heap.g@, gc_ptr); }',
        ensures=[('heap', ['C01', 'C03', 'C18'], 'link_rel_heap(old(self)@, final(self)@, gc_ptr)'),
                 ('list', ['C01', 'C04', 'C05'], 'link_rel_list(old(self)@, final(self)@, gc_ptr)'),
                 ('metrics', ['C09', 'C10', 'C18'], 'link_rel_metrics(old(self)@, final(self)@)'),
                 ('frame', ['C03', 'C08'], 'same_queues(old(self)@, final(self)@) && same_ctl(old(self)@, final(self)@)')],
        body_serves=['C01', 'C10'],
    ),
    'context.mark_one': dict(
        requires=['mark_one_pre(old(self)@)'],
        ensures=[('rel', ['C01', 'C02', 'C05', 'C06', 'C07', 'C08', 'C09', 'C10'], 'mark_one_rel(old(self)@, final(self)@, r)')],
        body_serves=['C01', 'C10', 'C11'],
    ),
    'context.sweep_one': dict(
        requires=['sweep_one_pre(old(self)@)'],
        ensures=[('heap', ['C01', 'C02', 'C04', 'C05'], 'sweep_one_rel_heap(old(self)@, final(self)@, r)'),
                 ('list', ['C01', 'C04', 'C05', 'C08', 'C11'], 'sweep_one_rel_list(old(self)@, final(self)@, r)'),
                 ('metrics', ['C09', 'C10'], 'sweep_one_rel_metrics(old(self)@, final(self)@)'),
                 ('frame', ['C03', 'C08'], 'sweep_one_rel_frame(old(self)@, final(self)@)')],
        body_serves=['C01', 'C04', 'C10'],
    ),
}

_HOIST_MGA = dict(requires=['make_gray_again_pre(old(self)@, parent)'], ensures=['make_gray_again_rel(old(self)@, final(self)@, parent)'])
V['context.backward_barrier']['hoisted'] = {'backward_barrier__barrier': _HOIST_MGA}
V['context.backward_barrier_weak']['hoisted'] = {'backward_barrier_weak__barrier': _HOIST_MGA}
V['context.forward_barrier']['hoisted'] = {'forward_barrier__barrier': dict(
    requires=['trace_pre(old(self)@, child)'], ensures=['trace_rel(old(self)@, final(self)@, child)'])}
V['context.forward_barrier_weak']['hoisted'] = {'forward_barrier_weak__barrier': dict(
    requires=['trace_weak_pre(old(self)@, child)'], ensures=['trace_weak_rel(old(self)@, final(self)@, child)'])}

# ------------------------------------------------------------------ src/metrics.rs (counter part)
def _ctr(field, sign='+', extra=None, serves=('C09', 'C10')):
    upd = ', '.join('%s: old(self)@.%s %s count' % (f, f, s) for f, s in ([(field, sign)] + (extra or [])))
    return dict(requires=[], ensures=[('counters', list(serves), 'final(self)@ == (MV { %s, ..old(self)@ })' % upd)], body_serves=['C10'])

V['metrics.mark_gc_allocated'] = _ctr('total', '+', [('allocated', '+')])
V['metrics.mark_gc_dropped'] = _ctr('dropped')
V['metrics.mark_gc_freed'] = _ctr('total', '-', [('freed', '+')])
V['metrics.mark_gc_freed']['requires'] = ['old(self)@.total >= count']
V['metrics.mark_gc_marked'] = _ctr('marked')
V['metrics.mark_gc_traced'] = _ctr('traced')
V['metrics.mark_gc_untraced'] = _ctr('traced', '-')
V['metrics.mark_gc_untraced']['requires'] = ['old(self)@.traced >= count']
V['metrics.mark_gc_remembered'] = _ctr('remembered')
V['metrics.total_gc_count'] = dict(requires=[], ensures=[('result', ['C10', 'C04'], 'r == old(self)@.total'),
                                                         ('frame', ['C03'], 'final(self)@ == old(self)@')], body_serves=['C10'])
V['metrics.finish_cycle'] = dict(requires=[], ensures=[
    ('counters', ['C09', 'C10'], 'final(self)@ == (MV { allocated: 0, dropped: 0, freed: 0, marked: 0, traced: 0, remembered: 0, fl: final(self)@.fl, ..old(self)@ })'),
    ('floats', ['C09'], 'finish_floats(old(self)@, final(self)@.fl, reset_debt) && zero_work_factors(final(self)@.fl) == zero_work_factors(old(self)@.fl)')],
    body_serves=['C09', 'C10'])
