import os
"""The obligation table for Layer V (DESIGN.md 2.1): contracts spliced onto the extracted functions.

For each extracted function:  requires (list of clause strings), ensures (list of (clause-id, serves, expr)),
optional ghost prologue (rule X-link; never anything between extracted statements), loop contracts by loop
ordinal.  Row ids are  V.<file>.<fn>.<clause-id>;  every function also gets the row V.<file>.<fn>.body
(callee preconditions, debug assertions turned into obligations, arithmetic, termination).

Contracts are written against the spec predicates of verus/10_spec.rs; nothing here reads code.
"""

ALL_SAFETY = ['C01', 'C03', 'C04', 'C05']

V = {
    # ------------------------------------------------------------------ src/context.rs
    'context.root_barrier': dict(
        requires=[],
        ensures=[('rel', ['C06', 'C08', 'C03', 'C20'], 'root_barrier_rel(old(self)@, final(self)@)')],
        body_serves=['C06'],
    ),
    'context.gray_remaining': dict(
        requires=[],
        ensures=[('result', ['C07', 'C08'], 'r == gray_remaining_spec(old(self)@)'),
                 ('frame', ['C03', 'C08'], 'same(old(self)@, final(self)@)')],
        body_serves=['C08'],
    ),
    'context.trace': dict(
        requires=['trace_pre(old(self)@, gc_ptr)'],
        ensures=[('heap', ['C01', 'C02', 'C06', 'C07'], 'trace_rel_heap(old(self)@, final(self)@, gc_ptr)'),
                 ('queues', ['C01', 'C06', 'C07', 'C11'], 'trace_rel_queues(old(self)@, final(self)@, gc_ptr)'),
                 ('metrics', ['C09', 'C10'], 'trace_rel_metrics(old(self)@, final(self)@, gc_ptr)'),
                 ('frame', ['C03', 'C06', 'C08'], 'trace_rel_frame(old(self)@, final(self)@)')],
        body_serves=['C06', 'C10'],
    ),
    'context.trace_weak': dict(
        requires=['trace_weak_pre(old(self)@, gc_ptr)'],
        ensures=[('heap', ['C05', 'C02', 'C06'], 'trace_weak_rel_heap(old(self)@, final(self)@, gc_ptr)'),
                 ('queues', ['C01', 'C06'], 'same_queues(old(self)@, final(self)@)'),
                 ('metrics', ['C09', 'C10'], 'trace_rel_metrics(old(self)@, final(self)@, gc_ptr)'),
                 ('frame', ['C03', 'C06', 'C08'], 'trace_rel_frame(old(self)@, final(self)@)')],
        body_serves=['C06', 'C10'],
    ),
    'context.make_gray_again': dict(
        requires=['make_gray_again_pre(old(self)@, gc_ptr)'],
        ensures=[('heap', ['C01', 'C06', 'C11'], 'make_gray_again_rel_heap(old(self)@, final(self)@, gc_ptr)'),
                 ('queues', ['C01', 'C06', 'C11'], 'qpush(old(self)@, final(self)@, gc_ptr)'),
                 ('metrics', ['C09', 'C10'], 'make_gray_again_rel_metrics(old(self)@, final(self)@)'),
                 ('frame', ['C03', 'C06', 'C08'], 'trace_rel_frame(old(self)@, final(self)@)'),
                 # the conjunction, as the single term the unwind variants' relation is triggered on
                 ('rel', ['C11'], 'make_gray_again_rel(old(self)@, final(self)@, gc_ptr)')],
        body_serves=['C06', 'C10', 'C11'],
    ),
    'context.backward_barrier': dict(
        requires=['backward_barrier_pre(old(self)@, parent, child)'],
        ensures=[('adopt', ['C01', 'C06', 'C14'], 'backward_barrier_post(final(self)@, parent, child)'),
                 ('rel', ['C01', 'C06', 'C03'], 'backward_barrier_rel(old(self)@, final(self)@, parent, child)'),
                 ('frame', ['C06', 'C03', 'C08', 'C10'], 'barrier_frame(old(self)@, final(self)@)')],
        body_serves=['C06', 'C10'],
    ),
    'context.backward_barrier_weak': dict(
        requires=['backward_barrier_pre(old(self)@, parent, Some(child))'],
        ensures=[('adopt', ['C05', 'C06'], 'backward_barrier_weak_post(final(self)@, parent, child)'),
                 ('rel', ['C05', 'C06', 'C03'], 'backward_barrier_rel(old(self)@, final(self)@, parent, Some(child))'),
                 ('frame', ['C06', 'C03', 'C08', 'C10'], 'barrier_frame(old(self)@, final(self)@)')],
        body_serves=['C06', 'C10'],
    ),
    'context.forward_barrier': dict(
        requires=['forward_barrier_pre(old(self)@, parent, child)'],
        ensures=[('adopt', ['C01', 'C06'], 'forward_barrier_post(final(self)@, parent, child)'),
                 ('rel', ['C01', 'C06', 'C03'], 'forward_barrier_rel(old(self)@, final(self)@, parent, child)'),
                 ('frame', ['C06', 'C03', 'C08', 'C10'], 'barrier_frame(old(self)@, final(self)@)')],
        body_serves=['C06', 'C10'],
    ),
    'context.forward_barrier_weak': dict(
        requires=['forward_barrier_pre(old(self)@, parent, child)'],
        ensures=[('adopt', ['C05', 'C06'], 'forward_barrier_weak_post(final(self)@, parent, child)'),
                 ('rel', ['C05', 'C06', 'C03'], 'forward_barrier_weak_rel(old(self)@, final(self)@, parent, child)'),
                 ('frame', ['C06', 'C03', 'C08', 'C10'], 'barrier_frame(old(self)@, final(self)@)')],
        body_serves=['C06', 'C10'],
    ),
    'context.upgrade': dict(
        requires=['upgrade_pre(old(self)@, gc_ptr)'],
        ensures=[('rel', ['C05', 'C03', 'C19'], 'upgrade_rel(old(self)@, final(self)@, gc_ptr, r)')],
        body_serves=['C05'],
    ),
    'context.resurrect': dict(
        requires=['resurrect_pre(old(self)@, gc_ptr)'],
        ensures=[('heap', ['C07'], 'resurrect_rel_heap(old(self)@, final(self)@, gc_ptr)'),
                 ('queues', ['C07', 'C08'], 'resurrect_rel_queues(old(self)@, final(self)@, gc_ptr)'),
                 ('metrics', ['C09', 'C10'], 'trace_rel_metrics(old(self)@, final(self)@, gc_ptr)'),
                 ('frame', ['C03', 'C07', 'C08'], 'trace_rel_frame(old(self)@, final(self)@)')],
        body_serves=['C07'],
    ),
    'context.link': dict(
        requires=['link_pre(old(self)@, gc_ptr)'],
        prologue='proof { self.heap.g@ = materialized(self.heap.g@, gc_ptr); }',
        ensures=[('heap', ['C01', 'C03', 'C18'], 'link_rel_heap(old(self)@, final(self)@, gc_ptr)'),
                 ('list', ['C01', 'C04', 'C05'], 'link_rel_list(old(self)@, final(self)@, gc_ptr)'),
                 ('metrics', ['C09', 'C10', 'C18'], 'link_rel_metrics(old(self)@, final(self)@)'),
                 ('frame', ['C03', 'C08'], 'same_queues(old(self)@, final(self)@) && same_ctl(old(self)@, final(self)@)')],
        body_serves=['C01', 'C10'],
    ),
    'context.mark_one': dict(
        requires=['mark_one_pre(old(self)@)'],
        ensures=[('rel', ['C01', 'C02', 'C05', 'C06', 'C07', 'C08', 'C09', 'C10'], 'mark_one_rel(old(self)@, final(self)@, r)')],
        body_serves=['C01', 'C10', 'C11'],
    ),
    'context.sweep_one': dict(
        requires=['sweep_one_pre(old(self)@)'],
        ensures=[('heap', ['C01', 'C02', 'C04', 'C05'], 'sweep_one_rel_heap(old(self)@, final(self)@, r)'),
                 ('list', ['C01', 'C04', 'C05', 'C08', 'C11'], 'sweep_one_rel_list(old(self)@, final(self)@, r)'),
                 ('metrics', ['C09', 'C10'], 'sweep_one_rel_metrics(old(self)@, final(self)@)'),
                 ('frame', ['C03', 'C08'], 'sweep_one_rel_frame(old(self)@, final(self)@)'),
                 # the conjunction of the four clauses, as the single term the driver's preservation lemma is triggered on
                 ('rel', ['C01', 'C04', 'C05'], 'sweep_one_rel(old(self)@, final(self)@, r)')],
        body_serves=['C01', 'C04', 'C10'],
    ),
}

_HOIST_MGA = dict(requires=['make_gray_again_pre(old(self)@, parent)'], ensures=['make_gray_again_rel(old(self)@, final(self)@, parent)'])
V['context.backward_barrier']['hoisted'] = {'backward_barrier__barrier': _HOIST_MGA}
V['context.backward_barrier_weak']['hoisted'] = {'backward_barrier_weak__barrier': _HOIST_MGA}
V['context.forward_barrier']['hoisted'] = {'forward_barrier__barrier': dict(
    requires=['trace_pre(old(self)@, child)'], ensures=['trace_rel(old(self)@, final(self)@, child)'])}
V['context.forward_barrier_weak']['hoisted'] = {'forward_barrier_weak__barrier': dict(
    requires=['trace_weak_pre(old(self)@, child)'], ensures=['trace_weak_rel(old(self)@, final(self)@, child)'])}

# ------------------------------------------------------------------ src/metrics.rs (counter part)
def _ctr(field, sign='+', extra=None, serves=('C09', 'C10')):
    upd = ', '.join('%s: old(self)@.%s %s count' % (f, f, s) for f, s in ([(field, sign)] + (extra or [])))
    return dict(requires=[], ensures=[('counters', list(serves), 'final(self)@ == (MV { %s, ..old(self)@ })' % upd)], body_serves=['C10'])

V['metrics.mark_gc_allocated'] = _ctr('total', '+', [('allocated', '+')])
V['metrics.mark_gc_dropped'] = _ctr('dropped')
V['metrics.mark_gc_freed'] = _ctr('total', '-', [('freed', '+')])
V['metrics.mark_gc_freed']['requires'] = ['old(self)@.total >= count']
V['metrics.mark_gc_marked'] = _ctr('marked')
V['metrics.mark_gc_traced'] = _ctr('traced')
V['metrics.mark_gc_untraced'] = _ctr('traced', '-')
V['metrics.mark_gc_untraced']['requires'] = ['old(self)@.traced >= count']
V['metrics.mark_gc_remembered'] = _ctr('remembered')
V['metrics.total_gc_count'] = dict(requires=[], ensures=[('result', ['C10', 'C04'], 'r == old(self)@.total'),
                                                         ('frame', ['C03'], 'final(self)@ == old(self)@')], body_serves=['C10'])
V['metrics.finish_cycle'] = dict(requires=[], ensures=[
    ('counters', ['C09', 'C10'], 'final(self)@ == (MV { allocated: 0, dropped: 0, freed: 0, marked: 0, traced: 0, remembered: 0, fl: final(self)@.fl, ..old(self)@ })'),
    ('floats', ['C09'], 'finish_floats(old(self)@, final(self)@.fl, reset_debt) && zero_work_factors(final(self)@.fl) == zero_work_factors(old(self)@.fl)')],
    body_serves=['C09', 'C10'])

# ------------------------------------------------------------------ the driver
# loop contracts are lists of (row-clause-id, text): a failing line is attributed to that clause's row
_DC_INV = [
    ('inv', 'inv(self@), quiescent(self@)'),
    ('terminates', 'has_slept ==> self@.phase != Phase::Sleep'),
    # T-exact (C02): an atomic cycle started asleep: until the call has slept nothing changed; afterwards the cycle-progress invariant holds
    ('exact', 'quiescent(old(self)@)'),
    ('exact', '(old(self)@.phase == Phase::Sleep && !has_slept) ==> self@ == old(self)@'),
    ('exact', '(old(self)@.phase == Phase::Sleep && has_slept) ==> exact_x(old(self)@, self@)'),
    # C07 across calls: the state predicate exact_self (marked => reachable on the current graph) is kept by every step
    ('dead_is_unreachable_xcall', 'exact_self(old(self)@) ==> exact_self(self@)'),
    ('asleep_no_progress', 'run_until == RunUntil::PayDebt ==> debt_pos(old(self)@.m)'),
    ('history', 'old(self)@.hist.len() <= self@.hist.len(), self@.hist.subrange(0, old(self)@.hist.len() as int) =~= old(self)@.hist'),
    ('stop_the_world', 'zero_work_factors(self@.m.fl) == zero_work_factors(old(self)@.m.fl)'),
    ('never_leaves_marked', '(stop == Stop::FullyMarked && old(self)@.phase != Phase::Sweep) ==> self@.phase != Phase::Sweep'),
    ('noop_while_sweeping', '(stop_rank(stop) <= 1 && old(self)@.phase == Phase::Sweep) ==> same(old(self)@, self@)'),
    ('cycle_stops_at_sleep', 'stop == Stop::FinishCycle ==> forall|i: int| old(self)@.hist.len() <= i < self@.hist.len() ==> self@.hist[i] != Phase::Sleep'),
    ('stop_the_world', '(run_until == RunUntil::PayDebt && zero_work_factors(old(self)@.m.fl) && debt_pos(old(self)@.m)) ==> debt_pos(self@.m) || (self@.phase == Phase::Sweep && self@.sweep is None)'),
]
_DC_LOOP_ENS = [
    ('inv', 'inv(self@), quiescent(self@)'),
    ('history', 'old(self)@.hist.len() <= self@.hist.len(), self@.hist.subrange(0, old(self)@.hist.len() as int) =~= old(self)@.hist'),
    ('cycle_stops_at_sleep', 'stop == Stop::FinishCycle ==> forall|i: int| old(self)@.hist.len() <= i < self@.hist.len() - 1 ==> self@.hist[i] != Phase::Sleep'),
    ('noop_while_sweeping', '(stop_rank(stop) <= 1 && old(self)@.phase == Phase::Sweep) ==> same(old(self)@, self@)'),
    ('never_leaves_marked', '(stop == Stop::FullyMarked && old(self)@.phase != Phase::Sweep) ==> self@.phase != Phase::Sweep'),
    ('finish_marking', '(run_until == RunUntil::Stop && stop == Stop::FullyMarked && old(self)@.phase != Phase::Sweep) ==> self@.phase == Phase::Mark && !gray_remaining_spec(self@)'),
    ('start_sweeping', '(run_until == RunUntil::Stop && stop == Stop::AtSweep && old(self)@.phase != Phase::Sweep) ==> self@.phase == Phase::Sweep'),
    ('finish_cycle', '(run_until == RunUntil::Stop && stop == Stop::FinishCycle) ==> self@.phase == Phase::Sleep'),
    ('exact', '(old(self)@.phase == Phase::Sleep && run_until == RunUntil::Stop && stop == Stop::FinishCycle) ==> exact_final(old(self)@, self@) && exact_final_shells(old(self)@, self@)'),
    ('dead_is_unreachable', '(old(self)@.phase == Phase::Sleep && run_until == RunUntil::Stop && stop == Stop::FullyMarked) ==> exact_marked(old(self)@, self@)'),
    ('dead_is_unreachable_xcall', 'exact_self(old(self)@) ==> exact_self(self@)'),
    ('collect_debt_pays', '(run_until == RunUntil::PayDebt && stop == Stop::Full) ==> !debt_pos(self@.m)'),
    ('cycle_debt_pays', '(run_until == RunUntil::PayDebt && stop == Stop::FinishCycle) ==> !debt_pos(self@.m) || self@.phase == Phase::Sleep'),
    ('mark_debt_pays', '(run_until == RunUntil::PayDebt && stop == Stop::FullyMarked) ==> !debt_pos(self@.m) || self@.phase == Phase::Sweep || (self@.phase == Phase::Mark && !gray_remaining_spec(self@))'),
    ('stop_the_world', '(run_until == RunUntil::PayDebt && stop_rank(stop) >= 2 && zero_work_factors(old(self)@.m.fl) && debt_pos(old(self)@.m)) ==> self@.phase == Phase::Sleep'),
]
# T-pace (C09, third sentence): I-credit is kept by every driver step; the conservation law of a cycle holds until the counters are reset
_PACE = [('pace', 'pace_x(old(self)@) ==> pace_x(self@)'),
         ('pace', '(old(self)@.phase == Phase::Sleep && self@.phase != Phase::Sleep) ==> cycle_const(old(self)@.m, self@.m)'),
         ('pace', '(old(self)@.phase != Phase::Sleep && no_sleep_since(self@.hist, old(self)@.hist.len() as int)) ==> cycle_const(old(self)@.m, self@.m)')]
_DC_INV += _PACE + [('pace', '(old(self)@.phase == Phase::Sleep && !has_slept) ==> self@ == old(self)@')]
_DC_LOOP_ENS += _PACE
V['context.do_collection'] = dict(
    requires=['inv(old(self)@)', 'quiescent(old(self)@)'],
    ensures=[
        ('inv', ['C01', 'C02', 'C04', 'C05', 'C07', 'C11', 'C20'], 'inv(final(self)@) && quiescent(final(self)@)'),
        # C08: mark_debt / finish_marking do nothing while Sweeping and never leave Marked for Sweeping
        ('noop_while_sweeping', ['C08'], '(stop_rank(stop) <= 1 && old(self)@.phase == Phase::Sweep) ==> same(old(self)@, final(self)@)'),
        ('never_leaves_marked', ['C08'], '(stop == Stop::FullyMarked && old(self)@.phase != Phase::Sweep) ==> final(self)@.phase != Phase::Sweep'),
        ('finish_marking', ['C07', 'C08'], '(run_until == RunUntil::Stop && stop == Stop::FullyMarked && old(self)@.phase != Phase::Sweep) ==> final(self)@.phase == Phase::Mark && !gray_remaining_spec(final(self)@)'),
        ('start_sweeping', ['C08'], '(run_until == RunUntil::Stop && stop == Stop::AtSweep && old(self)@.phase != Phase::Sweep) ==> final(self)@.phase == Phase::Sweep'),
        ('finish_cycle', ['C02', 'C08'], '(run_until == RunUntil::Stop && stop == Stop::FinishCycle) ==> final(self)@.phase == Phase::Sleep'),
        # C02: finish_cycle called asleep (no mutation in between: one call) leaves exactly the strongly reachable values undestructed
        ('exact', ['C02', 'C07'], '(old(self)@.phase == Phase::Sleep && run_until == RunUntil::Stop && stop == Stop::FinishCycle) ==> exact_final(old(self)@, final(self)@) && exact_final_shells(old(self)@, final(self)@)'),
        # C07: finish_marking called asleep (marking began in this call, no mutation since): is_dead is true exactly for the unreachable objects
        ('dead_is_unreachable', ['C07'], '(old(self)@.phase == Phase::Sleep && run_until == RunUntil::Stop && stop == Stop::FullyMarked) ==> exact_marked(old(self)@, final(self)@)'),
        # C07 across any number of collection calls: if marking of this cycle began asleep and only collection calls happened since
        # (exact_self is established by every wake-up and is a hypothesis here), it still holds afterwards, and whenever the call ends
        # fully marked, is_dead is true exactly for the objects unreachable from the root
        ('dead_is_unreachable_xcall', ['C07'], 'exact_self(old(self)@) ==> exact_self(final(self)@) && ((final(self)@.phase == Phase::Mark && !gray_remaining_spec(final(self)@)) ==> dead_exact(final(self)@))'),
    ] + ([
        ('pace', ['C09'], '(pace_x(old(self)@) ==> pace_x(final(self)@)) && ((old(self)@.phase == Phase::Sleep && final(self)@.phase != Phase::Sleep) ==> cycle_const(old(self)@.m, final(self)@.m)) && ((old(self)@.phase != Phase::Sleep && final(self)@.phase != Phase::Sleep && no_sleep_since(final(self)@.hist, old(self)@.hist.len() as int)) ==> cycle_const(old(self)@.m, final(self)@.m))'),
    ]) + [
        # C08: history is only extended; with FinishCycle, Sleep can only be the last phase entered in this call
        ('history', ['C08'], 'old(self)@.hist.len() <= final(self)@.hist.len() && final(self)@.hist.subrange(0, old(self)@.hist.len() as int) =~= old(self)@.hist'),
        ('cycle_stops_at_sleep', ['C08'], 'stop == Stop::FinishCycle ==> forall|i: int| old(self)@.hist.len() <= i < final(self)@.hist.len() - 1 ==> final(self)@.hist[i] != Phase::Sleep'),
        # C09(a): debt-driven calls
        ('collect_debt_pays', ['C09'], '(run_until == RunUntil::PayDebt && stop == Stop::Full) ==> !debt_pos(final(self)@.m)'),
        ('cycle_debt_pays', ['C09'], '(run_until == RunUntil::PayDebt && stop == Stop::FinishCycle) ==> !debt_pos(final(self)@.m) || final(self)@.phase == Phase::Sleep'),
        ('mark_debt_pays', ['C09'], '(run_until == RunUntil::PayDebt && stop == Stop::FullyMarked) ==> !debt_pos(final(self)@.m) || final(self)@.phase == Phase::Sweep || (final(self)@.phase == Phase::Mark && !gray_remaining_spec(final(self)@))'),
        ('asleep_no_progress', ['C09', 'C03'], '(run_until == RunUntil::PayDebt && !debt_pos(old(self)@.m)) ==> same(old(self)@, final(self)@)'),
        # C09 stop-the-world sentence: all work factors zero and positive debt => does not return until Sleeping again
        ('stop_the_world', ['C09'], '(run_until == RunUntil::PayDebt && stop_rank(stop) >= 2 && zero_work_factors(old(self)@.m.fl) && debt_pos(old(self)@.m)) ==> final(self)@.phase == Phase::Sleep'),
    ],
    # termination (C02: finish_cycle terminates from every phase; C09: a debt-driven call returns): lexicographic measure
    loops={0: dict(invariant_except_break=_DC_INV, ensures=_DC_LOOP_ENS, decreases='trank(has_slept, self@.phase), measure(self@)')},
    body_serves=['C08', 'C09', 'C01', 'C02'],
    loop_serves={'terminates': ['C02', 'C09']},
    # the one boolean local declared `= false` before the loop (set when the call passes through Sleep): the contracts call it has_slept
    local_names={'has_slept': r'let mut (\w+) = false;'},
    # the I-credit clauses are proved on a second copy of the same extracted body (smaller solver queries)
    views=({'pace': dict(clauses={'pace'}, base={'inv', 'terminates', 'history'}), 'exact': dict(clauses={'exact', 'dead_is_unreachable', 'dead_is_unreachable_xcall'}, base={'inv', 'terminates', 'history', 'finish_marking', 'never_leaves_marked', 'finish_cycle', 'cycle_stops_at_sleep'})}),
)

# ------------------------------------------------------------------ impl Drop for Context (rule X-dropall)
V['context.drop'] = dict(
    ghost_param='Ghost(l): Ghost<Seq<GcPtr>>',      # ghost prologue: the list witness, chosen from Inv by the (ghost) caller
    requires=['drop_pre(old(self)@, l)'],
    ensures=[
        ('all_released', ['C04', 'C11'], 'final(self)@.objs.dom() =~= Set::<GcPtr>::empty()'),
        ('count_zero', ['C04', 'C10'], 'final(self)@.m.total == 0'),
        ('each_freed_and_destructed', ['C04', 'C11'], 'forall|i: int| 0 <= i < l.len() ==> final(self)@.freed.contains(#[trigger] l[i]) && final(self)@.dropped.contains(l[i])'),
        ('only_own_objects', ['C04', 'C20'], 'forall|p: GcPtr| final(self)@.freed.contains(p) ==> old(self)@.freed.contains(p) || l.contains(p)'),
    ],
    loops={0: dict(
        invariant=[
            ('all_released', 'wf_from(self@.objs, self@.dropped, l, pos(l, cursor)), 0 <= pos(l, cursor) <= l.len(), cursor == at(l, pos(l, cursor))'),
            ('count_zero', 'self@.m.total == l.len() - pos(l, cursor)'),
            ('each_freed_and_destructed', 'forall|i: int| 0 <= i < pos(l, cursor) ==> self@.freed.contains(#[trigger] l[i]) && self@.dropped.contains(l[i])'),
            ('only_own_objects', 'forall|p: GcPtr| self@.freed.contains(p) ==> old(self)@.freed.contains(p) || l.contains(p)'),
        ],
        ensures=[('all_released', 'cursor is None')],
        decreases='l.len() - pos(l, cursor)')},
    body_serves=['C04', 'C10'],
)

# ------------------------------------------------------------------ unwind variants of mark_one (rule X-unwind, C11)
V['context.mark_one#unwind'] = {
    'trace_value': dict(serves=['C11', 'C10'], requires=['mark_one_pre(old(self)@)', '!old(self)@.unwinding'],
                        ensures='final(self)@.unwinding ==> mark_one_unwind_rel(old(self)@, S { unwinding: false, ..final(self)@ })'),
    'trace_root': dict(serves=['C11'], requires=['mark_one_pre(old(self)@)', '!old(self)@.unwinding'],
                       ensures='final(self)@.unwinding ==> mark_one_unwind_rel(old(self)@, S { unwinding: false, ..final(self)@ })'),
}

# unwind variant of sweep_one: the destructor of a weakly marked value panics (C04 "never a second time", C05 "is_dropped reports exactly
# whether the destructor has run", C11): the state is the one of a normal step with the work counters of the step not yet advanced
V['context.sweep_one#unwind'] = {
    'drop_weak': dict(serves=['C04', 'C05', 'C11'], requires=['sweep_one_pre(old(self)@)', '!old(self)@.unwinding'],
                      ensures='final(self)@.unwinding ==> sweep_one_unwind_rel(old(self)@, S { unwinding: false, ..final(self)@ })'),
}

# =====================================================================================================================
# Layer L rows: which properties each lemma serves (module default, per-lemma override)
L_SERVES = {
    'lemmas':    ['C01', 'C02', 'C06', 'C07', 'C11'],
    'lem_basic': ['C01', 'C04', 'C05'],
    'lem_mark':  ['C01', 'C02', 'C06', 'C07'],
    'lem_sweep': ['C01', 'C02', 'C04', 'C05'],
    'lem_mut':   ['C01', 'C05', 'C06', 'C07'],
    'lem_drop':  ['C04', 'C11'],
    'bcast':     ['C01', 'C02', 'C04', 'C05', 'C07', 'C08', 'C09'],
    'axioms':    ['C09'],
    'theorems':  [],
    'lem_traced': ['C10', 'C06'],
    'lem_term': ['C02', 'C09'],
    'sl': ['C14'],
    'lem_exact': ['C02', 'C07'],
    'bcast_x': ['C02', 'C07'],
    'witness': [],
    'lem_pace': ['C09'],
    'lem_dtor': ['C04', 'C05', 'C11'],
    'lem_more': ['C05', 'C10'],
    'bcast_p': ['C09'],
}
L_SERVES_FN = {
    'lem_mut.lemma_link_inv': ['C01', 'C03', 'C05', 'C18'],
    'lem_mut.lemma_root_barrier_inv': ['C01', 'C06'],
    'lem_mut.lemma_resurrect_inv': ['C07'],
    'lem_mut.lemma_wake_inv': ['C01', 'C08'],
    'lem_mut.lemma_enter_sweep_inv': ['C01', 'C02', 'C05', 'C08'],
    'lem_mut.lemma_finish_inv': ['C01', 'C02', 'C08'],
}


def lemma_serves(mod, fn):
    return L_SERVES_FN.get('%s.%s' % (mod, fn)) or THEOREM_SERVES.get(fn) or L_SERVES.get(mod, [])


THEOREM_SERVES = {
    'theorem_c05_is_dropped_never_reverts': ['C05'], 'lemma_marks_mono': ['C05'], 'theorem_c10_mutator_side_never_decreases_debt': ['C10'],
    'theorem_projection_of_held_pointers': ['C01', 'C05', 'C06', 'C07'], 'theorem_projection_of_cursor': ['C01', 'C04', 'C08'],
    'theorem_traced_credit_available': ['C10', 'C06'],
    'lemma_requeue_parts': ['C11'], 'theorem_c11_trace_panic_preserves_inv': ['C11', 'C10'],
    'reach_n': [], 'lemma_reach_prot': ['C01', 'C05', 'C14'],
    'theorem_c01_reachable_is_alive': ['C01', 'C14', 'C11'],
    'theorem_values_untouched_by_sweep': ['C01', 'C17'], 'theorem_values_untouched_by_marking': ['C01', 'C17'],
    'theorem_c03_mutator_side_reclaims_nothing': ['C03'],
    'theorem_c05_weak_target_allocated': ['C05'], 'theorem_c05_upgrade_succeeds_for_reachable': ['C05'],
    'theorem_c05_upgraded_pointer_is_protected': ['C05'], 'lemma_stack_change': ['C01', 'C05', 'C06'],
    'ghost_read_edge': ['C01'], 'ghost_adopt': ['C01', 'C06', 'C14'], 'ghost_write_root': ['C01', 'C06'], 'ghost_remove_edge': ['C01', 'C02'],
    'ghost_callback_end': ['C01', 'C03'],
    'theorem_c06_parent_only_barrier_is_stable': ['C06'], 'theorem_c06_parent_only_barrier_stable_under_requeue': ['C06'],
    'theorem_c06_child_only_barrier_is_stable': ['C06'], 'theorem_c06_child_only_barrier_stable_under_requeue': ['C06'],
    'lemma_marked_reach': ['C07', 'C02'], 'theorem_c07_reachable_is_not_dead': ['C07'], 'theorem_c07_resurrect_reports_marking': ['C07'],
    'theorem_c07_marked_closure_is_marked': ['C07', 'C02'],
    'witness_sleep_empty': ['C01', 'C02', 'C04', 'C05', 'C06', 'C07'], 'witness_mark_two_objects': ['C01', 'C02', 'C05', 'C06', 'C07'],
    'witness_sweep_two_objects': ['C01', 'C02', 'C04', 'C05'], 'lemma_counts_empty': [],
}

# =====================================================================================================================
# Layer K rows.  harness = fn name in kani/<file>_verif.rs;  complete = True, or a string stating the bound.
K = {}


def _k(rid, harness, serves, text, complete=True, tier='quick', features='', fn=None):
    K[rid] = dict(harness=harness, serves=serves, text=text, complete=complete, tier=tier, features=features, fn=fn or harness)


# header accessors (seam 2: shim specs vs gc_ptr.rs)
_HDR = ['C01', 'C04', 'C05', 'C17']
_k('K.hdr.tag_bits_free', 'k_hdr_tag_bits_free', _HDR, 'GcHeader::new = White, !needs_trace, !live, next None, carrying the vtable it was given')
_k('K.hdr.getters', 'k_hdr_getters', _HDR, 'colour / needs_trace / live / next each read back what was written, whatever the other fields hold; vtable pointer intact (stated over the accessors, not over the bit packing)')
_k('K.hdr.set_color', 'k_hdr_set_color', _HDR, 'set_color on a header in an arbitrary state changes the colour only (flags, link, vtable pointer intact)')
_k('K.hdr.set_live', 'k_hdr_set_live', _HDR, 'set_live changes the live flag only')
_k('K.hdr.set_needs_trace', 'k_hdr_set_needs_trace', _HDR, 'set_needs_trace changes that flag only')
_k('K.hdr.set_next', 'k_hdr_set_next', _HDR, 'set_next changes the link only')
# layout kernel
_k('K.layout.prefix_header_kernel', 'k_layout_prefix_header_kernel', ['C17', 'C04'], 'prefix_header_layout for ALL header/value layouts: value offset and header position aligned, value inside block, alignment = max')
_k('K.layout.meta_header_kernel', 'k_layout_meta_header_kernel', ['C17'], 'META_HEADER_LAYOUT arithmetic for symbolic metadata layouts: header is the tail of the meta+header block')
# debt formula
_k('K.debt.nonneg_finite_empty', 'k_debt_nonneg_finite_empty', ['C10', 'C09'], 'allocation_debt >= 0, finite, not NaN for all counters and pacing; 0 for an empty arena (axiom ax_debt_empty)')
_k('K.debt.zero_factors_work_never_pays', 'k_debt_zero_factors_work_never_pays', ['C09'], 'all work factors 0 => credit counters do not influence the debt test (axiom ax_debt_zero_factors)')
_k('K.debt.finish_cycle_state', 'k_debt_finish_cycle_state', ['C09', 'C10'], 'finish_cycle: per-cycle counters reset, Gc count untouched, wake-up = max(min_sleep, sleep_factor x survivors), unpaid debt carried over exactly (reset: none)')
_k('K.debt.finish_cycle_reset', 'k_debt_finish_cycle_reset', ['C09'], 'allocation_debt() == 0 right after finish_cycle(true) (axiom ax_debt_reset)')
_k('K.debt.sleep_honoured', 'k_debt_sleep_honoured', ['C09'], 'after a debt-free finish: debt 0 while allocations <= wake-up amount, > 0 once they exceed it')
_k('K.debt.wakeup_formula', 'k_debt_wakeup_formula', ['C09'], 'wake-up amount = max(min_sleep, sleep_factor x survivors) for every power-of-two sleep factor, every survivor count and every min_sleep in range, all other counters symbolic', complete='bounded: sleep_factor a power of two 2^-8 .. 2^8 (two float products with symbolic mantissas compared = multiplier equivalence, does not finish in CBMC: > 50 min); survivors, min_sleep < 2^52')
_k('K.debt.formula_pairing', 'k_debt_formula_pairing', ['C09', 'C10'], 'credit side of the debt formula: debt == max(0, allocated - (marked x mark_factor + traced x trace_factor + remembered x keep_factor + dropped x drop_factor + freed x free_factor)), each counter paired with its own factor', complete='bounded: counters < 2^8, factors fixed to five distinct powers of two, wake-up amount and carried debt 0 (relational float queries over symbolic factors do not terminate in CBMC)')
_k('K.debt.wakeup_uses_survivors', 'k_debt_wakeup_uses_survivors', ['C09'], 'the wake-up amount is computed from the survivors of the finished cycle (remembered), independent of every other counter: with sleep_factor 1/2 and min_sleep 0 it is exactly survivors / 2', complete='bounded: sleep_factor = 0.5, min_sleep = 0, survivors < 2^32 (stand-in in the quick tier for the thorough row K.debt.wakeup_formula)')
_k('K.debt.adjust', 'k_debt_adjust', ['C10'], 'adjust_debt(x) adds exactly x to the artificial-debt term of the formula and touches nothing else')
_k('K.metrics.counter_frames', 'k_metrics_counter_frames', ['C10', 'C20'], 'each mark_gc_* helper updates exactly its own counters; total_gc_count reads total_gcs')


def kani_rows(pid, tier):
    return {r: v for r, v in K.items() if pid in v['serves'] and (tier == 'thorough' or v['tier'] == 'quick')}


# =====================================================================================================================
VERUS_PROPS = {'C01', 'C02', 'C03', 'C04', 'C05', 'C06', 'C07', 'C08', 'C09', 'C10', 'C11', 'C14', 'C18', 'C19', 'C20'}


SLOTS_PROPS = {'C14'}


def uses_verus(pid):
    return pid in VERUS_PROPS


def inventory_rows(pid, repo, res):
    """I.* rows: structural facts recomputed from the source (DESIGN 2.6). Returns (rows, failed)."""
    import inventory
    return inventory.rows(pid, repo, res)          # (rows, failed, undecided-messages)


def known_site_matches(k, row, msgs, res):
    """a known finding is keyed by row AND by a site string that must occur in the verifier's message"""
    site = k.get('site')
    if not site:
        return True
    blob = '\n'.join(msgs)
    return all(part in blob for part in site.split('+'))


# V row -> K row (the same function in place) asked for a concrete input when the V row fails
_TWIN_FN = {
    'trace': 'K.step.trace', 'trace_weak': 'K.step.trace', 'make_gray_again': 'K.step.make_gray_again',
    'backward_barrier': 'K.step.backward_barrier', 'backward_barrier_weak': 'K.step.backward_barrier',
    'forward_barrier': 'K.step.forward_barrier', 'forward_barrier_weak': 'K.step.forward_barrier',
    'upgrade': 'K.step.upgrade', 'resurrect': 'K.step.resurrect', 'root_barrier': 'K.step.root_barrier', 'gray_remaining': 'K.step.root_barrier',
    'link': 'K.step.link', 'mark_one': 'K.step.mark_one', 'sweep_one': 'K.step.sweep_one', 'drop': 'K.drop.context',
}


def replay_row(r):
    parts = r.split('.')
    if len(parts) >= 3 and parts[0] == 'V' and parts[1] == 'context':
        return _TWIN_FN.get(parts[2])
    if len(parts) >= 3 and parts[0] == 'V' and parts[1] == 'metrics':
        return 'K.metrics.counter_frames'
    if len(parts) >= 3 and parts[0] == 'V' and parts[1] == 'slots':
        return 'K.dynroot.handle_lifecycle'
    return None


def level(pid):
    import claims
    return claims.CHECKS[pid]['category'] if pid in claims.CHECKS else 'other'


ASSUMPTIONS = {
    'A-client': 'safe clients store pointers only through the sanctioned paths and cannot hold a pointer across callbacks or arenas (C12, C13; rustc, not checked here)',
    'A-borrowck': 'collection methods need &mut Arena, callbacks and builders borrow it: no collector step runs while a callback or builder is alive (rustc)',
    'A-collect': 'every Collect::trace reports exactly the pointers its value holds; NEEDS_TRACE = false types hold none (C15/C16 rows for derive output and provided impls; user unsafe impls assumed)',
    'A-dtor': 'destructors of arena values do not touch Gc pointers and do not re-enter the arena (Collect safety rule 2)',
    'A-unwind': 'Rust unwinding runs the Drop of live locals; a catch_unwind continuation sees the state the generated unwind variant ends in',
    'A-real': 'the rounded f64 evaluation of the debt formula agrees with its exact value on the sign test (narrowed by rows K.debt.*)',
    'A-addr': 'a usize event counter is never incremented 2^64 times (counter_add is assumed not to wrap; decrements are proved); abstract pointers identify allocation events, not addresses',
    'A-order': '#[derive(PartialOrd)] on a field-less enum orders by declaration (spec generated from the extracted declaration)',
    'A-debt': 'the three axioms about the uninterpreted debt test (ax_debt_empty / ax_debt_zero_factors / ax_debt_reset) are exactly what rows K.debt.* prove bit-precisely on the real Metrics::allocation_debt / finish_cycle',
    'extraction': 'rewrite rules X-* of lib/extract.py (listed per function in coverage.verus.extraction)',
    'shim': 'specs of the heap shim (header accessors, drop_in_place, dealloc, edge list), Vec / Option / ControlFlow::is_break specs (vstd, assume_specification); header specs checked by rows K.hdr.*',
    'tools': 'Verus 0.2026.09.13 + Z3, Kani 0.68 + CBMC 6.11 + CaDiCaL, rustc',
}
PROP_ASSUMES = {
    'C01': ['A-collect', 'A-client', 'A-borrowck', 'A-dtor', 'A-addr', 'extraction', 'shim', 'tools'],
    'C02': ['A-collect', 'A-borrowck', 'A-dtor', 'A-addr', 'extraction', 'shim', 'tools'],
    'C03': ['A-borrowck', 'A-dtor', 'extraction', 'shim', 'tools'],
    'C04': ['A-dtor', 'A-addr', 'extraction', 'shim', 'tools'],
    'C05': ['A-collect', 'A-client', 'A-dtor', 'A-addr', 'extraction', 'shim', 'tools'],
    'C06': ['A-collect', 'A-client', 'A-addr', 'extraction', 'shim', 'tools'],
    'C07': ['A-collect', 'A-client', 'extraction', 'shim', 'tools'],
    'C08': ['A-order', 'A-debt', 'extraction', 'shim', 'tools'],
    'C09': ['A-real', 'A-debt', 'A-order', 'A-addr', 'extraction', 'shim', 'tools'],
    'C10': ['A-real', 'A-addr', 'extraction', 'shim', 'tools'],
    'C11': ['A-unwind', 'A-collect', 'A-dtor', 'extraction', 'shim', 'tools'],
    'C17': ['tools'],
}


def assumptions(pid):
    return ['%s: %s' % (a, ASSUMPTIONS[a]) for a in PROP_ASSUMES.get(pid, ['tools'])]


def trusted_base(pid, res):
    tb = ['%s: %s' % (a, ASSUMPTIONS[a]) for a in PROP_ASSUMES.get(pid, ['tools'])]
    return tb

# ---- collector functions in place (twins of the V rows; source of concrete counterexamples)
_S = ['C01', 'C20']
_k('K.step.trace', 'k_step_trace', ['C01', 'C02', 'C06', 'C07', 'C10', 'C20'], 'real Context::trace / trace_weak against trace_rel / trace_weak_rel, all colours x flags x phases x counters')
_k('K.step.make_gray_again', 'k_step_make_gray_again', ['C01', 'C06', 'C10', 'C11'], 'real make_gray_again: Black -> Gray, queued once, trace credit taken back')
_k('K.step.resurrect', 'k_step_resurrect', ['C07', 'C10'], 'real resurrect: dead object -> Gray and queued whatever its type; arena reports Marking')
_k('K.step.upgrade', 'k_step_upgrade', ['C05', 'C03', 'C19'], 'real upgrade against upgrade_rel; changes nothing, destructs nothing')
_k('K.step.backward_barrier', 'k_step_backward_barrier', ['C01', 'C05', 'C06', 'C10', 'C03', 'C20'], 'real backward_barrier (child Some/None) and backward_barrier_weak: adoption post-state, rel, frame, no underflow; second arena untouched')
_k('K.step.forward_barrier', 'k_step_forward_barrier', ['C01', 'C05', 'C06', 'C10', 'C03', 'C20', 'C02'], 'real forward_barrier / forward_barrier_weak (parent Some/None): adoption post-state, acts only while marking, frame; second arena untouched')
_k('K.step.root_barrier', 'k_step_root_barrier', ['C06', 'C08'], 'real root_barrier / gray_remaining')
_k('K.step.link', 'k_step_link', ['C01', 'C03', 'C05', 'C10', 'C18', 'C20'], 'real allocation + link in every phase, incl. every cursor position of a running sweep: new head, in front of the cursor, counts one Gc, no collection work')
_k('K.step.sweep_one', 'k_step_sweep_one', ['C01', 'C02', 'C04', 'C05', 'C10', 'C20', 'C11'], 'real sweep_one on 3 real objects: relinking, destructor runs (drop counter) exactly for live unmarked / weakly marked values, shell kept, counters; Kani checks dealloc validity')
_k('K.step.sweep_one_end', 'k_step_sweep_one_end', ['C04', 'C08'], 'real sweep_one with an exhausted cursor: Break, nothing changes')
_k('K.step.mark_one', 'k_step_mark_one', ['C01', 'C02', 'C06', 'C10', 'C15'], 'real mark_one through the real vtable and the derive-generated trace of a node with a strong and a weak pointer')
_k('K.step.mark_one_root', 'k_step_mark_one_root', ['C01', 'C07', 'C08', 'C15'], 'real mark_one: root traced last and unflagged; Break changes nothing')
_k('K.drop.context', 'k_drop_context_any_phase', ['C04', 'C10', 'C11', 'C20'], 'real Drop for Context in any phase incl. mid-sweep: live values destructed once, shells not again, count 0, other arena untouched', complete='bounded: 3 objects on the list')
# ---- sanctioned store paths (C06) through the real public API
_P = ['C01', 'C06', 'C13', 'C20']
_k('K.path.gc_write', 'k_path_gc_write_field_unlock_set', ['C01', 'C06', 'C20'], 'Gc::write + field!/unlock! + Cell::set establishes can_adopt for every phase x colours; frame; second arena untouched')
_k('K.path.gc_unlock', 'k_path_gc_unlock', ['C01', 'C06'], 'Gc::unlock')
_k('K.path.lock_set', 'k_path_lock_set', ['C01', 'C06'], 'Gc<Lock<T>>::set')
_k('K.path.lock_set_weak', 'k_path_lock_set_weak', ['C06', 'C05'], 'Gc<Lock<T>>::set adopting a GcWeak: the same barrier, whatever kind of pointer the new value holds')
_k('K.path.write_field_unlock_set_weak', 'k_path_gc_write_field_unlock_set_weak', ['C06', 'C05'], 'Gc::write + field projection + unlock + set adopting a GcWeak')
_k('K.path.reflock_borrow_mut', 'k_path_reflock_borrow_mut', ['C01', 'C06'], 'Gc<RefLock<T>>::borrow_mut')
_k('K.path.reflock_try_borrow_mut', 'k_path_reflock_try_borrow_mut', ['C01', 'C06'], 'Gc<RefLock<T>>::try_borrow_mut')
_k('K.path.oncelock_set', 'k_path_oncelock_set', ['C01', 'C06'], 'Gc<OnceLock<T>>::set')
_k('K.path.oncelock_get_or_init', 'k_path_oncelock_get_or_init', ['C01', 'C06'], 'Gc<OnceLock<T>>::get_or_init')
_k('K.path.non_tracing_parent', 'k_path_barrier_on_non_tracing_parent', ['C06', 'C10'], 'write barrier on a marked object whose type needs no tracing: no panic, no underflow, no counter moves (F1)')
_k('K.path.root_mutation', 'k_path_root_mutation', ['C01', 'C06', 'C08', 'C11'], 'Arena::mutate_root / map_root / try_map_root flag the root for re-tracing while marking, and the flag is already set when the callback starts (so a callback that panics after storing a pointer leaves the root flagged)')
_k('K.api.failed_constructors', 'k_api_failed_constructors_release_everything', ['C11', 'C04'], 'a failed Arena::try_new / try_map_root (any collector phase) hands the error back and destructs every value allocated so far exactly once; blocks released (Kani checks the deallocations)')
_k('K.path.mutation_barriers', 'k_path_mutation_barriers', ['C06', 'C10'], 'the four public Mutation barriers with each optional argument Some/None (typed wrappers)')
_k('K.path.mutation_barriers_arena', 'k_path_mutation_backward_barriers', ['C06', 'C20'], 'the same through a real Arena with a second arena present', tier='thorough')
# ---- Arena API (C08)
_k('K.api.collection_methods', 'k_api_collection_methods', ['C08', 'C07', 'C09'], 'each Arena collection method passes the documented (RunUntil, Stop) and maps the phase test to Some/None; collection_phase mapping (driver stubbed by a recorder)')
_k('K.api.start_sweeping', 'k_api_start_sweeping', ['C08'], 'MarkedArena::start_sweeping = (Stop, AtSweep), ends Sweeping')

# ---- builders (C18), allocation layout per instantiation (C17, C04), conversions (C19)
_k('K.builder.abandon', 'k_builder_abandon', ['C18', 'C03'], 'GcBuilder dropped before / after the value was written: block released, no destructor, arena never sees it')
_k('K.builder.complete', 'k_builder_complete', ['C18', 'C01', 'C04'], 'assume_init links exactly once in every phase, sets live, contents equal what was written')
for _n, _t in (('u8', 'u8'), ('u16', 'u16'), ('u64', 'u64'), ('u128', 'u128 (align 16)'), ('a32', 'align 32, size 64'), ('a64', 'align 64'), ('zst', '()'), ('zst_a32', 'ZST align 32')):
    _k('K.layout.inst.' + _n, 'k_layout_inst_' + _n, ['C17', 'C04'], 'sized %s: value pointer aligned, header immediately in front, as_ptr/from_ptr keep the address, dealloc through the real vtable with the exact base pointer and identical layout (Kani allocator model)' % _t)
_k('K.layout.slice_kernel', 'k_layout_slice_kernel', ['C17', 'C04'], 'SliceWithHeader::layout for EVERY length (0 included) x 6 (header, element) pairs incl. zero-sized and over-aligned: aligned for header and elements, room for both; thin <-> fat reconstructs the length')
for _n in ('u16_u32', 'unit_u128', 'u8_a32', 'a32_u8'):
    _k('K.layout.inst.slice_' + _n, 'k_layout_inst_slice_' + _n, ['C17', 'C04', 'C18'], 'header+slice allocation with SYMBOLIC length: element / header pointers aligned, abandoning the builder releases the identical layout')
_k('K.conv.ptr_eq_metadata', 'k_conv_ptr_eq_ignores_metadata', ['C19'], 'Gc::ptr_eq and GcWeak::ptr_eq are identity of the allocation: two dyn pointers with the same address and different vtable pointers are ptr_eq; different objects are not')
_k('K.conv.identity_sized', 'k_conv_identity_sized', ['C19', 'C04'], 'erase, erase_kind, downgrade->upgrade, as_ptr/from_ptr, unsize! to dyn, cast: same address, same header/vtable, original value; destructed exactly once as the original type')
_k('K.conv.thin_fat_slice', 'k_conv_thin_fat_slice', ['C17', 'C19'], 'GcSlice as_thin / as_fat / from_ptr_with_kind on real allocations: address kept, length reconstructed', complete='bounded: slice length <= 3')
_k('K.conv.thin_fat_str', 'k_conv_thin_fat_str', ['C17', 'C19'], 'GcStr thin <-> fat', complete='bounded: "" and "abc"', tier='thorough')
_k('K.builder.slice_abandon', 'k_slice_builder_abandon', ['C18', 'C11'], 'slice-with-header builder abandoned before the header / after the header / after k of n elements: destructs exactly header + initialised prefix, releases the block, arena never sees it', complete='bounded: n <= 3 elements (k symbolic)')
_k('K.builder.write_slice_with', 'k_slice_builder_write_slice_with', ['C18', 'C11'], 'write_slice_with creates elements in order and completes with contents equal to what was written; one allocation registered', complete='bounded: n <= 3 elements')
_k('K.builder.write_slice_with_zst', 'k_slice_builder_write_slice_with_zst', ['C18', 'C11'], 'write_slice_with for zero-sized elements: the constructor runs once per element, in order; exactly the created elements are destructed', complete='bounded: n <= 3 elements')
_k('K.builder.slice_abandon_plain', 'k_slice_builder_abandon_plain_elements', ['C18', 'C11'], 'abandoned slice builder with plain-data elements under a header that has a destructor (and the reverse): header destructed once / exactly the initialised prefix destructed, whether or not the element type needs dropping', complete='bounded: n <= 3 elements (k symbolic)')
_k('K.builder.copy_wrong_length', 'k_slice_builder_copy_wrong_length_panics', ['C18'], 'copy_slice with a source of the wrong length panics before copying or linking (should_panic row)', complete='bounded: lengths <= 3')
_k('K.zst.only_fitting', 'k_zst_cache_only_fitting_zsts', ['C19'], 'ZstCache<1|8|16>: the shared pointer is returned only for zero-sized T with align_of::<T>() <= MAX_ALIGN; returned pointers are aligned for T; shared allocations are ptr_eq to the cached pointer')
_k('K.zst.pointer_alignment', 'k_zst_cache_pointer_alignment', ['C19', 'C17'], 'the cached pointer is aligned to MAX_ALIGN')
# ---- DynamicRootSet (C14)
_k('K.dynroot.stash_fetch', 'k_dynroot_stash_fetch', ['C14', 'C06', 'C01', 'C19'], 'stash in every phase x set colour x child colour: can_adopt(set, child) afterwards, slot holds the stashed pointer, fetch / try_fetch return the very object')
_k('K.dynroot.foreign_rejected', 'k_dynroot_foreign_handle_rejected', ['C14', 'C20', 'C12'], 'contains / try_fetch reject a handle from a second set of the same arena (which holds the very same object, or another one, at the same slot index) and from a set of another arena; the issuing set resolves it to the stashed object')
_k('K.dynroot.fetch_foreign_panics', 'k_dynroot_fetch_foreign_panics', ['C14'], 'fetch panics for a foreign handle (should_panic row)')
_k('K.dynroot.handle_lifecycle', 'k_dynroot_handle_lifecycle', ['C14', 'C20'], 'clone counted, slot kept while a handle exists and vacated with the last one, handles that outlive their set touch nothing')

# ---- provided Collect impls (C16) and derive output (C15), against a recording Trace
_k('K.collect.wrappers', 'k_collect_wrappers', ['C16'], 'Option, Result (both variants), Box, Rc, Arc, Lock, RefLock, OnceLock, PhantomData, Static, &static, Cell, RefCell: exact pointers and strengths; NEEDS_TRACE table for every impl (true whenever a parameter is, false only for static data)')
_k('K.collect.tuples', 'k_collect_tuples', ['C16'], 'tuples of arity 1, 2, 3 and 16: every position, in order, strengths kept')
_k('K.collect.slices_arrays', 'k_collect_slices_arrays', ['C16'], '[T] with symbolic length, [T; 3], [T; 0]', complete='bounded: <= 3 elements')
_k('K.collect.vec', 'k_collect_vec', ['C16'], 'Vec: every element', complete='bounded: <= 2 elements')
_k('K.collect.linked_list', 'k_collect_linked_list', ['C16'], 'LinkedList: every element', complete='bounded: 2 elements')
_k('K.collect.slice_with_header', 'k_collect_slice_with_header', ['C16'], 'SliceWithHeader: header and every element', complete='bounded: <= 2 elements')
_k('K.collect.vecdeque', 'k_collect_vecdeque_wrapped', ['C16'], 'VecDeque contiguous and WRAPPED around the ring buffer: every element position', complete='bounded: capacity 4, 3 elements')
_k('K.collect.btreemap', 'k_collect_btreemap', ['C16'], 'BTreeMap values (strong and weak)', complete='bounded: 1 entry')
_k('K.collect.smallvec', 'k_collect_smallvec', ['C16'], 'SmallVec inline and spilled', complete='bounded: <= 3 elements', features='smallvec,enum-map,slotmap')
_k('K.collect.enum_map', 'k_collect_enum_map', ['C16'], 'EnumMap<bool, _>: the value of every key', features='smallvec,enum-map,slotmap')
_k('K.collect.slotmap', 'k_collect_slotmap', ['C16'], 'SlotMap: every stored value, removed values not reported', complete='bounded: 2 entries', features='smallvec,enum-map,slotmap')
_k('K.collect.hashbrown', 'k_collect_hashbrown_map', ['C16'], 'hashbrown::HashMap values, strong and weak (trivial hasher)', complete='bounded: 1 entry', features='hashbrown', tier='thorough')
_k('K.derive.structs', 'k_derive_structs', ['C15'], 'derive output for named / tuple / unit structs, require_static at first / middle / last position, all-static: exact pointers in declaration order; NEEDS_TRACE', complete='bounded: corpus of 8 struct shapes (complete in the field values)')
_k('K.derive.recursive', 'k_derive_recursive_types', ['C15'], 'derive output for recursive types (list node with Option<Gc<Self>>, expression enum with Gc<Self> children): self-typed fields are traced, NEEDS_TRACE is true', complete='bounded: corpus of 2 recursive shapes')
_k('K.derive.enums_generics_nested', 'k_derive_enums_generics_nested', ['C15'], 'derive output for enums with mixed variants (only the active variant, require_static inside a variant), generics with and without bound, nested containers, explicit gc_lifetime', complete='bounded: corpus of 6 shapes (complete in the field values)')
_k('K.derive.enum_static_positions', 'k_derive_enum_static_positions', ['C15'], 'derive output for enums where one variant has require_static at a field position at which sibling variants hold a pointer (positions 0 and 1, named and tuple variants, all-static variant): the exemption is per field of its own variant; NEEDS_TRACE counts every non-exempt field of every variant', complete='bounded: corpus of 3 enum shapes (complete in the field values)')
_k('K.derive.same_outer_type', 'k_derive_same_outer_type', ['C15'], 'derive output for types whose fields share the outer type constructor with different generic arguments (Option<u32> next to Option<Gc>, Box<u8> / Box<Gc> across variants, either order): every pointer is traced and NEEDS_TRACE is the disjunction over the WHOLE field types; false when none needs tracing', complete='bounded: corpus of 4 shapes (complete in the field values)')
_k('K.step.backward_barriers_earn_no_credit', 'k_step_backward_barriers_earn_no_credit', ['C10'], 'C10 as stated: no backward barrier raises a credit counter or lowers a debit counter')
_k('K.step.forward_barriers_earn_no_credit', 'k_step_forward_barriers_earn_no_credit', ['C10'], 'C10 as stated, forward barriers: FAILS for a White child while marking (known finding F3)')

PROP_ASSUMES.update({
    'C14': ['A-collect', 'A-client', 'extraction', 'tools'],
    'C15': ['tools'], 'C16': ['tools'], 'C18': ['A-unwind', 'extraction', 'shim', 'tools'], 'C19': ['tools'],
    'C20': ['extraction', 'shim', 'tools'],
})
ASSUMPTIONS['A-rcptr'] = 'Weak::as_ptr of a dead Rc allocation kept alive by a Weak never equals Rc::as_ptr of a live Rc (the crate states the same assumption)'
PROP_ASSUMES['C14'].insert(0, 'A-rcptr')
_k('K.weak.api', 'k_weak_api', ['C05', 'C07', 'C19'], 'GcWeak::upgrade / is_dropped / is_dead / resurrect and Gc::is_dead map exactly to the Context functions: results per (phase, colour, live), frame, revived object Gray and queued')
_k('K.collect.btreeset_binaryheap', 'k_collect_btreeset_binaryheap', ['C16'], 'BTreeSet and BinaryHeap elements (an Ord element type that holds a pointer)', complete='bounded: <= 2 elements')
_k('K.collect.btreemap_keys', 'k_collect_btreemap_keys', ['C16'], 'BTreeMap: key AND value reported', complete='bounded: 1 entry')
_k('K.collect.slice_with_header_positions', 'k_collect_slice_with_header_positions', ['C16'], 'SliceWithHeader<Gc, u8> reports its header although the elements need no tracing; SliceWithHeader<u8, GcWeak> reports its elements although the header needs none', complete='bounded: 2 elements')
_k('K.collect.reflock_borrowed', 'k_collect_reflock_mutably_borrowed', ['C16', 'C06', 'C01'], 'tracing a RefLock whose contents are mutably borrowed (leaked RefMut) never returns normally without having reported the pointer it holds (should_panic row)')
_k('K.collect.std_hashmap', 'k_collect_std_hashmap', ['C16'], 'std::collections::HashMap (the impl is generic over the hasher: trivial hasher instead of SipHash): key AND value, strong and weak; NEEDS_TRACE', complete='bounded: 1 entry', tier='thorough')
_k('K.collect.std_hashset', 'k_collect_std_hashset', ['C16'], 'std::collections::HashSet elements (trivial hasher); NEEDS_TRACE', complete='bounded: 1 entry', tier='thorough')
_k('K.collect.indexmap', 'k_collect_indexmap', ['C16'], 'indexmap::IndexMap: key, then value, strong and weak; NEEDS_TRACE', complete='bounded: 1 entry', features='indexmap', tier='thorough')
_k('K.collect.indexset', 'k_collect_indexset', ['C16'], 'indexmap::IndexSet elements; NEEDS_TRACE', complete='bounded: 1 entry', features='indexmap', tier='thorough')
_k('K.collect.hashbrown_table', 'k_collect_hashbrown_table', ['C16'], 'hashbrown::HashTable elements, strong and weak; NEEDS_TRACE', complete='bounded: 1 entry', features='hashbrown', tier='thorough')
_k('K.collect.hashbrown_set_keys', 'k_collect_hashbrown_set_keys', ['C16'], 'hashbrown::HashMap keys and hashbrown::HashSet elements (trivial hasher)', complete='bounded: 1 entry', features='hashbrown', tier='thorough')
