"""Contracts for dynamic_roots::Slots (C14). Row ids V.slots.<fn>.<clause>.
Same architecture as the collector: Layer V proves the field-level relation (`*_post`) of each verbatim body under the representation
invariant (which makes every panic! / expect unreachable); Layer L (verus_slots/slots_shim.rs: b_add_post, b_inc_post, b_dec_post) proves that
each relation preserves the representation invariant."""
S = {
    'slots.new': dict(requires=[], ensures=[('wf', ['C14'], 'wf(r, Seq::empty())'), ('empty', ['C14'], 'r.slots@.len() == 0')], body_serves=['C14']),
    'slots.add': dict(
        param_names=['p'],
        ghost_param='Ghost(free): Ghost<Seq<int>>',
        requires=['wf(*old(self), free)', 'old(self).slots@.len() < usize::MAX - 1'],
        ensures=[('rel', ['C14'], 'add_post(*old(self), *final(self), p, r as int)'),
                 ('slot', ['C14', 'C19'], 'holds(*final(self), r as int, p) && final(self).slots@[r as int]->ref_count == 0'),
                 ('fresh', ['C14'], 'r as int == old(self).slots@.len() || (r < old(self).slots@.len() && old(self).slots@[r as int] is Vacant)'),
                 ('others', ['C14'], 'others_same(*old(self), *final(self), r as int)')],
        body_serves=['C14']),
    'slots.inc': dict(
        param_names=['idx'],
        ghost_param='Ghost(free): Ghost<Seq<int>>',
        requires=['wf(*old(self), free)', 'idx < old(self).slots@.len()', 'old(self).slots@[idx as int] is Occupied', 'old(self).slots@[idx as int]->ref_count < usize::MAX'],
        ensures=[('rel', ['C14'], 'inc_post(*old(self), *final(self), idx as int)'),
                 ('count', ['C14'], 'final(self).slots@[idx as int] == (Slot::Occupied { root: old(self).slots@[idx as int]->root, ref_count: (old(self).slots@[idx as int]->ref_count + 1) as usize })'),
                 ('others', ['C14'], 'others_same(*old(self), *final(self), idx as int) && final(self).slots@.len() == old(self).slots@.len()')],
        body_serves=['C14']),
    'slots.dec': dict(
        param_names=['idx'],
        ghost_param='Ghost(free): Ghost<Seq<int>>',
        requires=['wf(*old(self), free)', 'idx < old(self).slots@.len()', 'old(self).slots@[idx as int] is Occupied'],
        ensures=[('rel', ['C14'], 'dec_post(*old(self), *final(self), idx as int)'),
                 # a slot is vacated only when its last handle goes; otherwise it keeps holding the same pointer
                 ('count', ['C14'], 'if old(self).slots@[idx as int]->ref_count == 0 { final(self).slots@[idx as int] is Vacant } else { final(self).slots@[idx as int] == (Slot::Occupied { root: old(self).slots@[idx as int]->root, ref_count: (old(self).slots@[idx as int]->ref_count - 1) as usize }) }'),
                 ('others', ['C14'], 'others_same(*old(self), *final(self), idx as int) && final(self).slots@.len() == old(self).slots@.len()')],
        body_serves=['C14']),
}
