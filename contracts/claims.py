"""What MANIFEST.json claims per property (source for lib/mkmanifest.py and for the `level` written into the evidence)."""

TECH_V = 'contract-based deductive verification: Verus on mechanically extracted function bodies against relational contracts + lemma layer (Inv preservation)'
TECH_K = 'contract-based verification in place: Kani/CBMC loop-free harnesses over fully symbolic footprints of the real functions'
TECH_VK = TECH_V + '; ' + TECH_K

VERUS = {'C01', 'C02', 'C03', 'C04', 'C05', 'C06', 'C07', 'C08', 'C09', 'C10', 'C11'}
KANI = {'C01', 'C04', 'C05', 'C09', 'C10', 'C17'}

NOTES = ('Layer V/L: gen/collector.rs is rebuilt on every run from /repo (lib/extract.py) and verified by `verus`; Layer K: `cargo kani` on an overlaid '
         'scratch copy. Exit 2 = undecided (lost anchor, construct outside the extractor\'s subset, tool failure, vacuity guard), never a VIOLATION. '
         'Two genuine defects found by the checks were repaired in /repo (fix: commits 388b9c9, adacb23; known_findings.txt).')

NOT_APPLICABLE = [
    {'property_id': 'C12', 'reason': 'quantified over client programs and decided by rustc\'s type checker (variance, auto traits, higher-ranked callbacks); no function contract or invariant expresses it and neither Verus nor Kani reasons about type checking'},
    {'property_id': 'C13', 'reason': 'quantified over safe client programs; soundness of Write construction and of the DerefWrite/IndexWrite whitelists is an ownership/type-system argument, not a per-function contract; enters the design only as assumption A-client'},
]

CHECKS = {}


def claim(pid, category, text, note, design_ref, engine='verus-extracted', technique=TECH_V):
    CHECKS[pid] = dict(category=category, text=text, note=note, design_ref=design_ref, engine=engine, technique=technique)


_PENDING = ' The state theorem "Inv => statement of the property" is not yet machine-checked; until it is, the level is the local contracts + Inv preservation, not a proof of the property.'

claim('C01', 'other',
      'Every collector function of src/context.rs (15 functions + Drop) is proved, on its mechanically extracted body and for unbounded heaps, to satisfy a relational contract; the lemma layer proves that each contract and each phase switch of the driver preserves the global invariant Inv (list, colours/queues, liveness, tri-colour, sweep-safety), and the extracted driver loop do_collection is proved to preserve Inv for every (run_until, stop) and every pacing (debt test uninterpreted).' + _PENDING,
      'A-collect, A-client, A-borrowck, A-dtor, A-addr; extraction rules X-*; shim specs (K.hdr.* rows check the header accessors on the real code)', 'DESIGN.md 4 (C01)', technique=TECH_VK)
claim('C02', 'other',
      'Local: marking contracts record that colours change only on targets of traced edges and sweep_one destructs/releases exactly the unmarked; finish_cycle (RunUntil::Stop, Stop::FinishCycle) is proved to end Sleeping from every phase. The exactness theorem (T-mark/T-exact) and termination (decreases) are pending.' ,
      'A-collect (exactness of trace in both directions), A-borrowck, A-dtor', 'DESIGN.md 4 (C02)')
claim('C03', 'other',
      'Frame clauses (no_reclaim: dropped/freed sets and object domain unchanged) are proved for every function reachable from Mutation / Finalization (link, the four barriers, upgrade, resurrect, root_barrier, gray_remaining); the inventory pins drop_in_place/dealloc call sites to sweep_one, Drop for Context and builder drops, and do_collection callers to &mut self / self methods.',
      'A-borrowck (that collection methods cannot be entered during a callback is rustc\'s borrow check), A-dtor', 'DESIGN.md 4 (C03)')
claim('C04', 'other',
      'sweep_one and the extracted Drop-for-Context loop are proved to call drop_in_place only on not-yet-destructed values and dealloc only on allocated blocks (double drop / double free are failed shim preconditions), to release every block of the list and to leave total_gc_count == 0, for any start phase and unbounded heaps; Kani proves the layout arithmetic kernel for all layouts.' + ' Per-instantiation alloc/dealloc layout equality rows are pending.',
      'A-dtor, A-addr; destructor panics are outside the property', 'DESIGN.md 4 (C04)', technique=TECH_VK)
claim('C05', 'other',
      'upgrade_rel (true => live and not condemned by the running sweep; false => destructed or Sweeping) proved on the extracted upgrade; the sweep lemma proves that only condemned values are destructed and only weakly-condemned blocks released, and that weak targets of protected objects stay allocated.' + _PENDING,
      'A-collect, A-client, A-dtor', 'DESIGN.md 4 (C05)', technique=TECH_VK)
claim('C06', 'other',
      'The six Context barrier functions are proved (extracted bodies, unbounded heaps) to establish the single-sourced adoption predicates can_adopt / can_adopt_weak / general forms in every phase and colour combination, to change nothing but colours, queues and counters, and never to fail a precondition (no panic / underflow). Rows for the wrappers outside context.rs (Gc::write, Lock/RefLock/OnceLock setters, stash, mutate_root) are pending.',
      'A-client, A-collect', 'DESIGN.md 4 (C06)')
claim('C07', 'other',
      'resurrect_rel (white -> Gray and queued, hence gray_remaining) and the finish_marking row of the driver table (ends Mark with nothing pending whenever it did not start Sweeping) are proved; T-mark pending.',
      'A-collect, A-client', 'DESIGN.md 4 (C07)')
claim('C08', 'proof',
      'Postcondition table of the extracted real do_collection for every (start phase, run_until, stop): order of phases via the shim switch with the allowed-successor precondition (Sleep->Mark, Mark->Sweep only fully marked, Sweep->Sleep only with the cursor exhausted) and a shim-owned phase history; mark_debt/finish_marking do nothing while Sweeping and never leave Marked; finish_cycle ends Sleeping; cycle_debt/finish_cycle enter Sleep only as their last phase; start_sweeping ends Sweeping. Unbounded: the loop carries an inductive invariant, step functions are used through their proved contracts.',
      'A-order (derived PartialOrd on Stop = declaration order; spec generated from the extracted declaration), extraction rule X-guard (inventory: .phase assigned only in PhaseGuard::{enter,switch}); the Arena-level Some/None mapping rows (Kani) are pending', 'DESIGN.md 4 (C08)')
claim('C09', 'proof',
      '(a) per call: do_collection exits only with no debt, at its stop phase, or after an atomic full cycle (proved on the extracted driver, debt test uninterpreted so every pacing is covered; stop-the-world sentence included); asleep with zero debt = no progress. (b) the formula, bit-precise on the real Metrics (Kani, complete over all counters and stated float ranges): debt >= 0, finite, 0 for an empty arena, zero work factors => work never pays, finish_cycle state, sleep honoured. (c) the completion bound T-pace is NOT claimed yet.',
      'A-real, A-debt (three axioms = rows K.debt.*), A-order, A-addr', 'DESIGN.md 4 (C09)', technique=TECH_VK)
claim('C10', 'proof',
      'Counter updates of the collector (extracted Metrics helpers and every call site in context.rs): exact deltas per function, decrements proved not to underflow (total_gcs in mark_gc_freed from I-count; traced_gcs in mark_gc_untraced from the barrier precondition), total_gc_count == |list| carried by Inv and 0 after Drop; Kani: debt >= 0 / finite / 0 when empty for all inputs, adjust_debt adds exactly x, each helper touches only its own counters.',
      'A-real (monotonicity of the rounded formula in each counter is not proved bit-precisely: relational float queries did not terminate), A-addr (increments assumed not to wrap); the traced_gcs >= #(Black and tracing) part of I-count is pending; F3 (forward barriers lower debt) will be a known finding once the row exists', 'DESIGN.md 4 (C10)', technique=TECH_VK)
claim('C11', 'other',
      'Two unwind variants of mark_one are generated mechanically (rule X-unwind: the one call that runs user code replaced by an arbitrary prefix of its effects, then the Drop bodies of the guards in scope) and proved to end in mark_one_unwind_rel (object Gray and queued again with its credit taken back / root still flagged); Drop for Context from any Inv state releases everything. Inv preservation by the unwind relation and the slice-builder rows are pending.',
      'A-unwind, A-collect, A-dtor', 'DESIGN.md 4 (C11)')
claim('C17', 'proof',
      'Kani, complete (loop-free, fully symbolic Layouts): prefix_header_layout for ALL header/value layouts (value offset and header position aligned, value inside the block, alignment = max), META_HEADER_LAYOUT arithmetic for symbolic metadata layouts, and the header tag bits vs vtable alignment (each accessor reads/writes exactly its own bits). Per-instantiation rows (sized / slice / str / header+slice with symbolic length, thin/fat round trips) are pending.',
      'the set of instantiated types is a finite family (types cannot be quantified in Kani)', 'DESIGN.md 4 (C17)', engine='kani-in-place', technique=TECH_K)

for pid in ('C14', 'C15', 'C16', 'C18', 'C19', 'C20'):
    NOT_APPLICABLE.append({'property_id': pid, 'reason': 'not claimed yet: the Kani rows for this property are planned (DESIGN.md section 4) but not built; listed here until a check exists'})
