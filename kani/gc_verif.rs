//! Layer K harnesses for src/gc.rs (child module): builders (C18), pointer conversions (C19), allocation layout per instantiation (C17, C04).
extern crate std;
use super::*;
use crate::context::{Context, Phase};
use crate::context::verif_kani::{addr, cx_all, cx_metrics, cx_queue_lens, oaddr, snap, sym_counters};
use crate::metrics::verif_kani::get_counters;
use crate::gc_ptr::verif_kani::header_addr;

static mut D: [u8; 4] = [0; 4];
struct Tok(u8, u64);
impl Drop for Tok { fn drop(&mut self) { unsafe { D[self.0 as usize] += 1; } } }
unsafe impl<'gc> Collect<'gc> for Tok { const NEEDS_TRACE: bool = false; }

// ------------------------------------------------------------------------------------------- GcBuilder (C18)
/// abandoning a GcBuilder, before or after the value was written: the block is released (Kani: exact pointer, exact layout), no destructor
/// runs, and the arena never saw it: Gc count, list head, every counter unchanged
#[kani::proof]
fn k_builder_abandon() {
    unsafe {
        let cx = Context::new();
        let c0 = sym_counters(&cx);
        let written: bool = kani::any();
        {
            let mut b = GcBuilder::<Tok>::new();
            let p = b.as_ptr();
            assert!((p as usize) % core::mem::align_of::<Tok>() == 0, "[layout] builder memory is aligned for the value");
            if written { p.write(Tok(0, kani::any())); }
            let h = b.ptr.header();
            assert!(!h.is_live() && h.color() == crate::types::GcColor::White && h.next().is_none(), "[heap] a block under construction is not live");
            if written { core::ptr::drop_in_place(p); D[0] -= 1; }      // (the harness owns the value it wrote; the builder must not destruct it)
        }
        let c1 = get_counters(cx_metrics(&cx));
        assert!(D[0] == 0, "[heap] an abandoned GcBuilder runs no destructor");
        assert!(cx_all(&cx).is_none() && c1.total == c0.total && c1.allocated == c0.allocated && c1.freed == c0.freed && c1.dropped == c0.dropped
            && c1.marked == c0.marked && c1.traced == c0.traced && c1.remembered == c0.remembered, "[frame] an abandoned builder never becomes visible to the arena");
        core::mem::forget(cx);
    }
}

/// completing a builder registers exactly one allocation whose contents equal what was written
#[kani::proof]
fn k_builder_complete() {
    unsafe {
        let mut cx = Context::new();
        let ph = match kani::any::<u8>() & 3 { 0 => Phase::Mark, 1 => Phase::Sweep, _ => Phase::Sleep };
        crate::context::verif_kani::cx_set_phase(&mut cx, ph);
        let c0 = sym_counters(&cx);
        let v: u64 = kani::any();
        let g = { let mc = cx.mutation_context(); let mut b = GcBuilder::<Tok>::new(); b.as_ptr().write(Tok(1, v)); b.assume_init(mc) };
        let c1 = get_counters(cx_metrics(&cx));
        let s = snap(g.ptr.erase());
        assert!(g.1 == v && g.0 == 1, "[heap] contents equal what was written");
        assert!(s.live && s.color == crate::types::GcColor::White && !s.nt && s.next == 0, "[heap] live flag set by assume_init; needs_trace from the type");
        assert!(oaddr(cx_all(&cx)) == addr(&g.ptr.erase()) && c1.total == c0.total + 1 && c1.allocated == c0.allocated + 1, "[list][metrics] exactly one allocation registered");
        assert!(c1.freed == c0.freed && c1.dropped == c0.dropped && c1.marked == c0.marked && c1.traced == c0.traced && c1.remembered == c0.remembered && cx_queue_lens(&cx) == (0, 0), "[frame]");
        assert!(D[1] == 0);
        core::mem::forget(cx);
    }
}

// ------------------------------------------------------------------------------------------- allocation layout per instantiation (C17, C04)
#[repr(align(32))] #[derive(Clone, Copy)] struct A32([u8; 40]);
#[repr(align(64))] #[derive(Clone, Copy)] struct A64(u8);
#[repr(align(32))] #[derive(Clone, Copy)] struct Z32;
macro_rules! sized_inst {
    ($name:ident, $t:ty, $v:expr) => {
        /// alloc -> value pointer aligned, header aligned and disjoint from the value's bytes, value bytes intact; dropping the context releases the
        /// block through the real vtable: Kani's allocator model checks the exact base pointer AND the identical layout
        #[kani::proof]
        fn $name() {
            unsafe {
                let cx = Context::new();
                let g = Gc::new_static(cx.mutation_context(), $v);
                let p = Gc::as_ptr(g) as usize;
                assert!(p % core::mem::align_of::<$t>() == 0, "[layout] the pointer returned by allocation is aligned for the value");
                let h = header_addr(g.ptr.erase());
                // what C17 asks for, not how the crate lays the block out today: bookkeeping aligned and disjoint from the value's bytes
                let (hs, ha) = (core::mem::size_of::<crate::gc_ptr::GcHeader>(), core::mem::align_of::<crate::gc_ptr::GcHeader>());
                assert!(h % ha == 0 && (h + hs <= p || p + core::mem::size_of::<$t>() <= h), "[layout] the collector's header is aligned and disjoint from the value's bytes");
                let back: Gc<'_, $t> = Gc::from_ptr(Gc::as_ptr(g));
                assert!(Gc::ptr_eq(back, g), "[layout] as_ptr / from_ptr preserve the address");
                drop(cx);
            }
        }
    };
}
sized_inst!(k_layout_inst_u8, u8, 7u8);
sized_inst!(k_layout_inst_u16, u16, 7u16);
sized_inst!(k_layout_inst_u64, u64, 7u64);
sized_inst!(k_layout_inst_u128, u128, 7u128);
sized_inst!(k_layout_inst_a32, A32, A32([1; 40]));
sized_inst!(k_layout_inst_a64, A64, A64(1));
sized_inst!(k_layout_inst_zst, (), ());
sized_inst!(k_layout_inst_zst_a32, Z32, Z32);

// ------------------------------------------------------------------------------------------- conversions (C19)
/// erase, erase_kind, downgrade -> upgrade, unsize!, as_ptr / from_ptr: same address, same header (hence the same vtable: destructed once, as
/// the original type), dereference to the original value
#[kani::proof]
fn k_conv_identity_sized() {
    unsafe {
        let cx = Context::new();
        let mc = cx.mutation_context();
        let v: u64 = kani::any();
        let g = Gc::new(mc, Tok(2, v));
        let a = Gc::as_ptr(g) as usize;
        let e = Gc::erase(g);
        assert!(Gc::as_ptr(e) as usize == a && addr(&e.ptr) == addr(&g.ptr.erase()), "[conv] erase keeps the address");
        let ek = Gc::erase_kind(g);
        assert!(Gc::as_ptr(ek) as usize == a && ek.1 == v, "[conv] erase_kind keeps the address and the value");
        let w = Gc::downgrade(g);
        assert!(GcWeak::as_ptr(w) as usize == a && !w.is_dropped());
        let u = w.upgrade(mc).unwrap();
        assert!(Gc::ptr_eq(u, g) && u.1 == v, "[conv] downgrade -> upgrade yields the same object");
        let back: Gc<'_, Tok> = Gc::from_ptr(Gc::as_ptr(g));
        assert!(Gc::ptr_eq(back, g) && back.1 == v, "[conv] as_ptr -> from_ptr round trip");
        let d = crate::unsize!(g => dyn core::any::Any);
        assert!(Gc::as_ptr(d) as *const u8 as usize == a, "[conv] unsize! to a trait object keeps the address");
        assert!(d.downcast_ref::<Tok>().map(|t| t.1) == Some(v), "[conv] ... and dereferences to the original value");
        let c = Gc::cast::<Tok>(Gc::cast::<u8>(g));
        assert!(Gc::ptr_eq(c, g));
        assert!(header_addr(e.ptr) == header_addr(g.ptr.erase()) && header_addr(d.ptr.erase()) == header_addr(g.ptr.erase()), "[conv] every conversion sees the same header / vtable");
        drop(cx);
        assert!(D[2] == 1, "[conv] the value is destructed exactly once, as its original type");
    }
}

/// ptr_eq is identity of the ALLOCATION: two `Gc<dyn Trait>` to the same object are ptr_eq whatever vtable pointer their fat pointers carry
/// (the documentation of Gc::ptr_eq: "ignores the metadata of dyn pointers"; different codegen units may emit different vtables for one type)
#[kani::proof]
fn k_conv_ptr_eq_ignores_metadata() {
    trait Tr { fn id(&self) -> u8; }
    struct A(u8); struct B(u8);
    impl Tr for A { fn id(&self) -> u8 { 1 } }
    impl Tr for B { fn id(&self) -> u8 { 2 } }
    unsafe {
        let cx = Context::new();
        let mc = cx.mutation_context();
        let g = Gc::new(mc, crate::static_wrapper::Static(A(7)));
        let h = Gc::new(mc, crate::static_wrapper::Static(A(8)));
        let p1: *const dyn Tr = &g.0 as &dyn Tr;
        // the same data address with the vtable of another implementor (never dereferenced)
        let other: &dyn Tr = &B(0);
        let (_, vt_b): (usize, usize) = core::mem::transmute::<*const dyn Tr, (usize, usize)>(other as *const dyn Tr);
        let (data, vt_a): (usize, usize) = core::mem::transmute::<*const dyn Tr, (usize, usize)>(p1);
        kani::assume(vt_a != vt_b);
        let p2: *const dyn Tr = core::mem::transmute::<(usize, usize), *const dyn Tr>((data, vt_b));
        let d1: Gc<'_, dyn Tr> = Gc::from_ptr(p1);
        let d2: Gc<'_, dyn Tr> = Gc::from_ptr(p2);
        assert!(Gc::ptr_eq(d1, d2), "[conv] ptr_eq compares addresses, not fat-pointer metadata");
        let ph: *const dyn Tr = &h.0 as &dyn Tr;
        let d3: Gc<'_, dyn Tr> = Gc::from_ptr(ph);
        assert!(!Gc::ptr_eq(d1, d3), "[conv] different objects are not ptr_eq");
        // the same for weak pointers
        let (w1, w2, w3) = (Gc::downgrade(d1), Gc::downgrade(d2), Gc::downgrade(d3));
        assert!(GcWeak::ptr_eq(w1, w2) && !GcWeak::ptr_eq(w1, w3), "[conv] GcWeak::ptr_eq compares addresses, not fat-pointer metadata");
        core::mem::forget(cx);
    }
}
