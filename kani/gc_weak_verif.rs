//! Layer K harnesses for src/gc_weak.rs and the finalization wrappers in src/gc.rs (C05, C07): the public weak-pointer API maps exactly to
//! the Context functions proved elsewhere: upgrade, is_dropped, is_dead, resurrect.
extern crate std;
use super::*;
use crate::context::{Context, Phase};
use crate::context::verif_kani::*;
use crate::metrics::verif_kani::get_counters;
use crate::types::GcColor;

#[kani::proof]
fn k_weak_api() {
    unsafe {
        let mut cx = Context::new();
        let g = Gc::new(cx.mutation_context(), 5u8);
        let p = g.ptr.erase();
        let s0 = sym_header(p);
        let ph = any_phase(); cx_set_phase(&mut cx, ph);
        let c0 = sym_counters(&cx);
        let w = Gc::downgrade(g);
        // is_dropped reports exactly whether the destructor has run (= !live), in every phase and colour, and changes nothing
        assert!(w.is_dropped() == !s0.live, "[heap] is_dropped == the value has been destructed");
        let up = w.upgrade(cx.mutation_context());
        assert!(up.is_some() == (s0.live && !(ph == Phase::Sweep && s0.color == GcColor::WhiteWeak)), "[heap] GcWeak::upgrade == Context::upgrade");
        if let Some(u) = up { assert!(Gc::ptr_eq(u, g), "[conv] upgrade returns the very object"); }
        assert!(snap(p) == s0, "[frame] weak queries change nothing");
        // finalization API (only reachable with a Finalization context, i.e. while Marked)
        let fc = cx.finalization_context();
        assert!(w.is_dead(fc) == is_white(s0.color) && Gc::is_dead(fc, g) == is_white(s0.color), "[heap] is_dead reads the mark state: White or WhiteWeak");
        if ph == Phase::Mark {
            let r = w.resurrect(fc);
            assert!(r.is_some() == s0.live, "[heap] resurrect returns None exactly for destructed targets");
            let s1 = snap(p); let (gq, ga) = cx_queue_lens(&cx);
            if s0.live && is_white(s0.color) { assert!(s1.color == GcColor::Gray && gq + ga == 1 && cx.gray_remaining(), "[queues] a revived object is Gray and queued: the arena reports Marking"); }
            else { assert!(s1 == s0 && gq + ga == 0, "[frame]"); }
            if let Some(u) = r { assert!(Gc::ptr_eq(u, g)); }
        }
        let c1 = get_counters(cx_metrics(&cx));
        assert!(c1.total == c0.total && c1.traced == c0.traced && c1.freed == c0.freed && c1.dropped == c0.dropped, "[frame]");
        kani::cover!(ph == Phase::Mark && s0.live && s0.color == GcColor::WhiteWeak);
        kani::cover!(!s0.live);
        core::mem::forget(cx);
    }
}
