//! C16, feature `indexmap`: IndexMap reports keys and values in insertion order, IndexSet its elements (trivial hasher)
extern crate std;
use super::*;
use crate::context::Context;
use crate::gc::Gc;
use crate::static_wrapper::Static;
use crate::collect_impl::verif_kani::{a, same, Rec, KeyP, H1};
type BH = core::hash::BuildHasherDefault<H1>;
#[kani::proof]
#[kani::unwind(6)]
fn k_collect_indexmap() {
    unsafe {
        let cx = Context::new(); let mc = cx.mutation_context();
        let g = [Gc::new(mc, 0u8), Gc::new(mc, 1u8), Gc::new(mc, 2u8)];
        let mut m: IndexMap<KeyP, (Gc<'_, u8>, crate::GcWeak<'_, u8>), BH> = IndexMap::default();
        m.insert(KeyP(3, g[0]), (g[1], Gc::downgrade(g[2])));
        let mut r = Rec::new(); m.trace(&mut r);
        assert!(same(&r, &[a(g[0]), a(g[1])], &[a(g[2])]), "[trace] IndexMap: key and value (strong and weak)");
        assert!(<IndexMap<u8, Gc<'_, u8>, BH> as Collect>::NEEDS_TRACE && <IndexMap<KeyP, u8, BH> as Collect>::NEEDS_TRACE
            && !<IndexMap<Static<u8>, u8, BH> as Collect>::NEEDS_TRACE, "[trace] IndexMap NEEDS_TRACE");
        core::mem::forget(m); core::mem::forget(cx);
    }
}
#[kani::proof]
#[kani::unwind(6)]
fn k_collect_indexset() {
    unsafe {
        let cx = Context::new(); let mc = cx.mutation_context();
        let g = [Gc::new(mc, 0u8), Gc::new(mc, 1u8)];
        let mut s: IndexSet<KeyP, BH> = IndexSet::default();
        s.insert(KeyP(4, g[0]));
        let mut r = Rec::new(); s.trace(&mut r);
        assert!(r.ns == 1 && r.nw == 0 && r.s[0] == a(g[0]), "[trace] IndexSet elements");
        assert!(<IndexSet<KeyP, BH> as Collect>::NEEDS_TRACE && !<IndexSet<Static<u8>, BH> as Collect>::NEEDS_TRACE, "[trace] IndexSet NEEDS_TRACE");
        core::mem::forget(s); core::mem::forget(cx);
    }
}
