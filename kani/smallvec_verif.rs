//! C16, feature `smallvec`: SmallVec traces every element, inline and spilled
extern crate std;
use super::*;
use crate::context::Context;
use crate::gc::Gc;
use crate::collect_impl::verif_kani::{a, same, Rec};
#[kani::proof]
#[kani::unwind(5)]
fn k_collect_smallvec() {
    unsafe {
        let cx = Context::new(); let mc = cx.mutation_context();
        let g = [Gc::new(mc, 0u8), Gc::new(mc, 1u8), Gc::new(mc, 2u8)];
        let n: usize = kani::any(); kani::assume(n <= 3);
        let mut v: SmallVec<[Gc<'_, u8>; 2]> = SmallVec::new();
        let mut i = 0; while i < n { v.push(g[i]); i += 1; }
        let mut r = Rec::new(); v.trace(&mut r);
        assert!(r.ns == n && r.nw == 0, "[trace] SmallVec: every element, inline (n <= 2) and spilled (n == 3)");
        let exp = [a(g[0]), a(g[1]), a(g[2])];
        assert!(same(&r, &exp[..n], &[]), "[trace] SmallVec: exactly its elements");
        assert!(<SmallVec<[Gc<'_, u8>; 2]> as Collect>::NEEDS_TRACE && !<SmallVec<[u8; 2]> as Collect>::NEEDS_TRACE);
        kani::cover!(v.spilled());
        core::mem::forget(v); core::mem::forget(cx);
    }
}
