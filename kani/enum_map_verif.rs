//! C16, feature `enum-map`: EnumMap traces the value of every key
extern crate std;
use super::*;
use crate::context::Context;
use crate::gc::Gc;
use crate::collect_impl::verif_kani::{a, same, Rec};
#[kani::proof]
#[kani::unwind(5)]
fn k_collect_enum_map() {
    unsafe {
        let cx = Context::new(); let mc = cx.mutation_context();
        let g = [Gc::new(mc, 0u8), Gc::new(mc, 1u8)];
        let m: EnumMap<bool, Gc<'_, u8>> = EnumMap::from_array([g[0], g[1]]);
        let mut r = Rec::new(); m.trace(&mut r);
        assert!(same(&r, &[a(g[0]), a(g[1])], &[]), "[trace] EnumMap: the value of every key");
        assert!(<EnumMap<bool, Gc<'_, u8>> as Collect>::NEEDS_TRACE && !<EnumMap<bool, u8> as Collect>::NEEDS_TRACE);
        core::mem::forget(cx);
    }
}
