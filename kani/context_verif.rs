//! Layer K harnesses for src/context.rs (child module: sees Context's private fields and private methods).
//! Rows K.step.*: every collector function, IN PLACE on the real code (real allocation, real headers, real vtables, real metrics),
//! over a footprint-complete symbolic local state constrained only by the local projection of Inv, against the same relational
//! contract the extracted body is proved against by Verus (seam 1 of DESIGN.md 2.5).  All loop-free => complete proofs.
extern crate std;
use super::*;
use crate::metrics::verif_kani::{any_counters, get_counters, set_counters, Counters};
use crate::static_wrapper::Static;
use crate::lock::Lock;

// ------------------------------------------------------------------------------------------- accessors for other harness modules
pub(crate) fn cx_phase(cx: &Context) -> Phase { cx.phase }
pub(crate) fn cx_set_phase(cx: &mut Context, p: Phase) { cx.phase = p; }
pub(crate) fn cx_set_root_flag(cx: &mut Context, b: bool) { cx.root_needs_trace = b; }
pub(crate) fn cx_root_flag(cx: &Context) -> bool { cx.root_needs_trace }
/// the collector state as a running callback sees it (the callback's Mutation handle wraps the arena's Context)
pub(crate) fn mc_cx<'a, 'gc>(mc: &'a Mutation<'gc>) -> &'a Context { &mc.context }
pub(crate) fn cx_all(cx: &Context) -> Option<GcPtr> { cx.all.get() }
pub(crate) fn cx_sweep(cx: &Context) -> (Option<GcPtr>, Option<GcPtr>) { (cx.sweep, cx.sweep_prev.get()) }
pub(crate) fn cx_set_sweep(cx: &mut Context, sweep: Option<GcPtr>, prev: Option<GcPtr>) { cx.sweep = sweep; cx.sweep_prev.set(prev); }
pub(crate) fn cx_set_all(cx: &mut Context, all: Option<GcPtr>) { cx.all.set(all); }
pub(crate) fn cx_push_gray(cx: &Context, p: GcPtr, again: bool) { if again { cx.gray_again.push(p) } else { cx.gray.push(p) } }
pub(crate) fn cx_queue_lens(cx: &Context) -> (usize, usize) { unsafe { ((*cx.gray.vec.get()).len(), (*cx.gray_again.vec.get()).len()) } }
pub(crate) fn cx_queue_last(cx: &Context, again: bool) -> Option<usize> {
    unsafe { if again { (*cx.gray_again.vec.get()).last().map(addr) } else { (*cx.gray.vec.get()).last().map(addr) } }
}
pub(crate) fn cx_metrics(cx: &Context) -> &Metrics { &cx.metrics }
pub(crate) fn addr(p: &GcPtr) -> usize { p.as_ptr() as usize }
pub(crate) fn oaddr(p: Option<GcPtr>) -> usize { p.map(|p| p.as_ptr() as usize).unwrap_or(0) }

pub(crate) fn any_phase() -> Phase { match kani::any::<u8>() & 3 { 0 => Phase::Mark, 1 => Phase::Sweep, _ => Phase::Sleep } }
pub(crate) fn any_color() -> GcColor { match kani::any::<u8>() & 3 { 0 => GcColor::White, 1 => GcColor::WhiteWeak, 2 => GcColor::Gray, _ => GcColor::Black } }
pub(crate) fn is_white(c: GcColor) -> bool { matches!(c, GcColor::White | GcColor::WhiteWeak) }
pub(crate) fn is_marked(c: GcColor) -> bool { matches!(c, GcColor::Gray | GcColor::Black) }

#[derive(Copy, Clone, PartialEq, Eq)]
pub(crate) struct Snap { pub color: GcColor, pub live: bool, pub nt: bool, pub next: usize }
pub(crate) fn snap(p: GcPtr) -> Snap { let h = p.header(); Snap { color: h.color(), live: h.is_live(), nt: h.needs_trace(), next: oaddr(h.next()) } }
/// overwrite every header bit the collector may read with symbolic values (the `next` link is left as linked)
pub(crate) fn sym_header(p: GcPtr) -> Snap {
    let h = p.header();
    h.set_color(any_color()); h.set_live(kani::any()); h.set_needs_trace(kani::any());
    snap(p)
}

// a value with a drop counter and no pointers
pub(crate) static mut DROPS: [u8; 4] = [0; 4];
pub(crate) struct Tok(pub u8);
impl Drop for Tok { fn drop(&mut self) { unsafe { DROPS[self.0 as usize] += 1; } } }
unsafe impl<'gc> Collect<'gc> for Tok { const NEEDS_TRACE: bool = false; }

pub(crate) fn new_tok(cx: &Context, id: u8) -> GcPtr { unsafe { Gc::new(cx.mutation_context(), Tok(id)).ptr.erase() } }

/// symbolic counters under the local projection of I-count / A-addr (no counter at its maximum)
pub(crate) fn sym_counters(cx: &Context) -> Counters {
    let c = any_counters();
    const B: usize = 1 << 62;      // A-addr: counters are far from wrapping
    kani::assume(c.total < B && c.allocated < B && c.dropped < B && c.freed < B && c.marked < B && c.traced < B && c.remembered < B);
    set_counters(&cx.metrics, &c);
    c
}
fn same_counters_except(a: &Counters, b: &Counters, marked_delta: usize, traced_delta: isize) -> bool {
    b.total == a.total && b.allocated == a.allocated && b.dropped == a.dropped && b.freed == a.freed && b.remembered == a.remembered
        && b.marked == a.marked + marked_delta && (b.traced as isize) == (a.traced as isize) + traced_delta
}

// the single-sourced adoption predicates, Rust side (text parallel to verus/10_spec.rs)
pub(crate) fn can_adopt(phase: Phase, p: Snap, c: Snap) -> bool { phase != Phase::Mark || p.color != GcColor::Black || !p.nt || is_marked(c.color) }
pub(crate) fn can_adopt_weak(phase: Phase, p: Snap, c: Snap) -> bool { phase != Phase::Mark || p.color != GcColor::Black || !p.nt || c.color != GcColor::White }
pub(crate) fn can_adopt_any(phase: Phase, p: Snap) -> bool { phase != Phase::Mark || p.color != GcColor::Black || !p.nt }
pub(crate) fn adoptable_by_any(phase: Phase, c: Snap) -> bool { phase != Phase::Mark || is_marked(c.color) }
pub(crate) fn adoptable_by_any_weak(phase: Phase, c: Snap) -> bool { phase != Phase::Mark || c.color != GcColor::White }

/// a second arena living on the same thread, in an arbitrary state (C20): returns a fingerprint to compare afterwards
pub(crate) struct Other { pub cx: Context, pub p: GcPtr, pub snap: Snap, pub counters: Counters, pub phase: Phase }
pub(crate) fn other_arena() -> Other {
    unsafe {
        let mut cx = Context::new();
        let p = new_tok(&cx, 3);
        let s = sym_header(p);
        let c = sym_counters(&cx);
        let ph = any_phase(); cx.phase = ph;
        Other { cx, p, snap: s, counters: c, phase: ph }
    }
}
pub(crate) fn other_unchanged(o: &Other) -> bool {
    let c = get_counters(&o.cx.metrics);
    snap(o.p) == o.snap && o.cx.phase == o.phase && c.total == o.counters.total && c.allocated == o.counters.allocated && c.dropped == o.counters.dropped
        && c.freed == o.counters.freed && c.marked == o.counters.marked && c.traced == o.counters.traced && c.remembered == o.counters.remembered
        && oaddr(o.cx.all.get()) == addr(&o.p) && unsafe { DROPS[3] } == 0
}

// ------------------------------------------------------------------------------------------- K.step.trace / trace_weak
#[kani::proof]
fn k_step_trace() {
    unsafe {
        let mut cx = Context::new();
        let p = new_tok(&cx, 0);
        let s0 = sym_header(p);
        kani::assume(!(is_white(s0.color) && s0.nt) || s0.live);              // trace_pre
        let ph = any_phase(); cx.phase = ph;
        let c0 = sym_counters(&cx);
        let weak: bool = kani::any();
        if weak { cx.trace_weak(p) } else { cx.trace(p) }
        let s1 = snap(p); let c1 = get_counters(&cx.metrics); let (g, ga) = cx_queue_lens(&cx);
        // [heap]
        assert!(s1.live == s0.live && s1.nt == s0.nt && s1.next == s0.next, "[frame] only the colour of the traced object changes");
        if weak {
            assert!(s1.color == if s0.color == GcColor::White { GcColor::WhiteWeak } else { s0.color }, "[heap] trace_weak: White -> WhiteWeak, else unchanged");
            assert!(g == 0 && ga == 0, "[queues] trace_weak queues nothing");
        } else if !is_white(s0.color) {
            assert!(s1.color == s0.color && g == 0 && ga == 0, "[heap] trace leaves marked objects alone");
        } else {
            assert!(s1.color == GcColor::Gray || (s1.color == GcColor::Black && !s0.nt), "[heap] a white target ends Gray or (non-tracing) Black");
            if s1.color == GcColor::Gray { assert!(g + ga == 1 && (cx_queue_last(&cx, false) == Some(addr(&p)) || cx_queue_last(&cx, true) == Some(addr(&p))), "[queues] a Gray object is queued exactly once"); }
            else { assert!(g == 0 && ga == 0, "[queues]"); }
        }
        // [metrics] only the first marking counts
        assert!(same_counters_except(&c0, &c1, if s0.color == GcColor::White { 1 } else { 0 }, 0), "[metrics] marked += (was White)");
        assert!(cx.phase == ph && cx.all.get().map(|a| addr(&a)) == Some(addr(&p)) && cx.sweep.is_none() && cx.sweep_prev.get().is_none(), "[frame]");
        assert!(DROPS[0] == 0, "[heap] tracing destructs nothing");
        kani::cover!(!weak && s1.color == GcColor::Gray);
        kani::cover!(!weak && s1.color == GcColor::Black && s0.color == GcColor::WhiteWeak);
        kani::cover!(weak && s1.color == GcColor::WhiteWeak);
        core::mem::forget(cx);
    }
}

// ------------------------------------------------------------------------------------------- K.step.make_gray_again / resurrect / upgrade
#[kani::proof]
fn k_step_make_gray_again() {
    unsafe {
        let cx = Context::new();
        let p = new_tok(&cx, 0);
        let mut s0 = sym_header(p);
        p.header().set_color(GcColor::Black); s0.color = GcColor::Black;     // make_gray_again_pre
        let c0 = sym_counters(&cx);
        kani::assume(c0.traced >= 1);
        cx.make_gray_again(p);
        let s1 = snap(p); let c1 = get_counters(&cx.metrics); let (g, ga) = cx_queue_lens(&cx);
        assert!(s1.color == GcColor::Gray && s1.live == s0.live && s1.nt == s0.nt && s1.next == s0.next, "[heap] Black -> Gray");
        assert!(g + ga == 1 && (cx_queue_last(&cx, false) == Some(addr(&p)) || cx_queue_last(&cx, true) == Some(addr(&p))), "[queues] queued exactly once");
        assert!(same_counters_except(&c0, &c1, 0, -1), "[metrics] the trace credit is taken back");
        core::mem::forget(cx);
    }
}

#[kani::proof]
fn k_step_resurrect() {
    unsafe {
        let mut cx = Context::new();
        let p = new_tok(&cx, 0);
        let mut s0 = sym_header(p);
        p.header().set_live(true); s0.live = true; cx.phase = Phase::Mark;     // resurrect_pre
        let c0 = sym_counters(&cx);
        cx.resurrect(p);
        let s1 = snap(p); let c1 = get_counters(&cx.metrics); let (g, ga) = cx_queue_lens(&cx);
        if is_white(s0.color) {
            assert!(s1.color == GcColor::Gray && g + ga == 1, "[heap][queues] a dead object becomes Gray and is queued, whatever its type");
        } else { assert!(s1.color == s0.color && g + ga == 0, "[heap]"); }
        assert!(s1.live && s1.nt == s0.nt && s1.next == s0.next, "[frame]");
        assert!(same_counters_except(&c0, &c1, if s0.color == GcColor::White { 1 } else { 0 }, 0), "[metrics]");
        assert!(cx.gray_remaining() == (is_white(s0.color) || cx.root_needs_trace), "[queues] reviving a dead object makes the arena report Marking");
        kani::cover!(is_white(s0.color) && !s0.nt);
        core::mem::forget(cx);
    }
}

#[kani::proof]
fn k_step_upgrade() {
    unsafe {
        let mut cx = Context::new();
        let p = new_tok(&cx, 0);
        let s0 = sym_header(p);
        let ph = any_phase(); cx.phase = ph;
        let c0 = sym_counters(&cx);
        let r = cx.upgrade(p);
        let s1 = snap(p); let c1 = get_counters(&cx.metrics);
        assert!(s1 == s0 && same_counters_except(&c0, &c1, 0, 0) && cx.phase == ph && cx_queue_lens(&cx) == (0, 0), "[frame] upgrade changes nothing");
        if r { assert!(s0.live && !(ph == Phase::Sweep && s0.color == GcColor::WhiteWeak), "[heap] upgrade succeeds only for a live value the running sweep will not destruct"); }
        else { assert!(!s0.live || ph == Phase::Sweep, "[heap] upgrade fails only when the value is destructed or the arena is Sweeping"); }
        assert!(DROPS[0] == 0, "[heap] upgrade destructs nothing");
        kani::cover!(r && ph == Phase::Sweep);
        kani::cover!(!r && s0.live);
        core::mem::forget(cx);
    }
}

// ------------------------------------------------------------------------------------------- K.step barriers (with a second arena present)
#[kani::proof]
fn k_step_backward_barrier() {
    unsafe {
        let other = other_arena();
        let mut cx = Context::new();
        let c = new_tok(&cx, 1);
        let p = new_tok(&cx, 0);
        let sp0 = sym_header(p); let sc0 = sym_header(c);
        let ph = any_phase(); cx.phase = ph;
        let c0 = sym_counters(&cx);
        kani::assume(!(ph == Phase::Mark && sp0.color == GcColor::Black && sp0.nt) || c0.traced >= 1);     // backward_barrier_pre (from I-count)
        let form: u8 = kani::any(); kani::assume(form < 3);
        match form { 0 => cx.backward_barrier(p, None), 1 => cx.backward_barrier(p, Some(c)), _ => cx.backward_barrier_weak(p, c) }
        let sp1 = snap(p); let sc1 = snap(c); let c1 = get_counters(&cx.metrics); let (g, ga) = cx_queue_lens(&cx);
        // [adopt]
        match form {
            0 => assert!(can_adopt_any(ph, sp1), "[adopt] after a parent-only backward barrier the parent may adopt anything"),
            1 => assert!(can_adopt(ph, sp1, sc1), "[adopt] after backward_barrier(parent, child) the parent may adopt the child"),
            _ => assert!(can_adopt_weak(ph, sp1, sc1), "[adopt] after backward_barrier_weak the parent may adopt the weak child"),
        }
        // [rel] nothing happened, or the parent was re-queued
        assert!(sc1 == sc0, "[frame] the child is never touched by a backward barrier");
        if sp1 == sp0 { assert!(g + ga == 0 && same_counters_except(&c0, &c1, 0, 0), "[rel]"); }
        else {
            assert!(ph == Phase::Mark && sp0.color == GcColor::Black && sp1.color == GcColor::Gray && sp1.live == sp0.live && sp1.nt == sp0.nt && sp1.next == sp0.next, "[rel]");
            assert!(g + ga == 1 && same_counters_except(&c0, &c1, 0, -1), "[rel][metrics] re-queued once, trace credit taken back");
        }
        assert!(cx.phase == ph && cx.sweep.is_none(), "[frame]");
        assert!(DROPS[0] == 0 && DROPS[1] == 0, "[frame] a barrier destructs nothing");
        assert!(other_unchanged(&other), "[frame] another arena on the same thread is untouched (C20)");
        kani::cover!(sp1 != sp0);
        kani::cover!(ph == Phase::Mark && sp0.color == GcColor::Black && !sp0.nt);
        core::mem::forget(cx); core::mem::forget(other);
    }
}

#[kani::proof]
fn k_step_forward_barrier() {
    unsafe {
        let other = other_arena();
        let mut cx = Context::new();
        let c = new_tok(&cx, 1);
        let p = new_tok(&cx, 0);
        let sp0 = sym_header(p); let sc0 = sym_header(c);
        kani::assume(!(is_white(sc0.color) && sc0.nt) || sc0.live);            // trace_pre on the child
        let ph = any_phase(); cx.phase = ph;
        let c0 = sym_counters(&cx);
        let form: u8 = kani::any(); kani::assume(form < 4);
        match form {
            0 => cx.forward_barrier(None, c), 1 => cx.forward_barrier(Some(p), c),
            2 => cx.forward_barrier_weak(None, c), _ => cx.forward_barrier_weak(Some(p), c),
        }
        let sp1 = snap(p); let sc1 = snap(c); let c1 = get_counters(&cx.metrics); let (g, ga) = cx_queue_lens(&cx);
        match form {
            0 => assert!(adoptable_by_any(ph, sc1), "[adopt] after a child-only forward barrier any parent may adopt the child"),
            1 => assert!(can_adopt(ph, sp1, sc1), "[adopt]"),
            2 => assert!(adoptable_by_any_weak(ph, sc1), "[adopt]"),
            _ => assert!(can_adopt_weak(ph, sp1, sc1), "[adopt]"),
        }
        assert!(sp1 == sp0, "[frame] the parent is never touched by a forward barrier");
        assert!(sc1.live == sc0.live && sc1.nt == sc0.nt && sc1.next == sc0.next, "[frame]");
        if sc1.color != sc0.color {
            assert!(ph == Phase::Mark, "[rel] a forward barrier acts only while marking");
            if form < 2 { assert!(is_white(sc0.color) && (sc1.color == GcColor::Gray || (sc1.color == GcColor::Black && !sc0.nt)), "[rel]"); }
            else { assert!(sc0.color == GcColor::White && sc1.color == GcColor::WhiteWeak, "[rel]"); }
        }
        assert!(g + ga == if sc1.color == GcColor::Gray && sc0.color != GcColor::Gray { 1 } else { 0 }, "[queues]");
        assert!(same_counters_except(&c0, &c1, if sc1.color != sc0.color && sc0.color == GcColor::White { 1 } else { 0 }, 0), "[metrics]");
        assert!(cx.phase == ph && DROPS[0] == 0 && DROPS[1] == 0, "[frame]");
        assert!(other_unchanged(&other), "[frame] another arena on the same thread is untouched (C20)");
        kani::cover!(sc1.color != sc0.color && form == 3);
        core::mem::forget(cx); core::mem::forget(other);
    }
}

#[kani::proof]
fn k_step_root_barrier() {
    unsafe {
        let mut cx = Context::new();
        let ph = any_phase(); cx.phase = ph;
        let f0: bool = kani::any(); cx.root_needs_trace = f0;
        let c0 = sym_counters(&cx);
        cx.root_barrier();
        let c1 = get_counters(&cx.metrics);
        assert!(cx.root_needs_trace == (f0 || ph == Phase::Mark), "[rel] the root is flagged for re-tracing exactly while marking");
        assert!(cx.phase == ph && same_counters_except(&c0, &c1, 0, 0) && cx_queue_lens(&cx) == (0, 0), "[frame]");
        assert!(cx.gray_remaining() == cx.root_needs_trace);
        core::mem::forget(cx);
    }
}

// ------------------------------------------------------------------------------------------- K.step.link (real allocation through Gc::new)
#[kani::proof]
fn k_step_link() {
    unsafe {
        let other = other_arena();
        let mut cx = Context::new();
        let b = new_tok(&cx, 1);
        let a = new_tok(&cx, 0);          // list: a -> b
        let sa0 = sym_header(a); let sb0 = sym_header(b);
        let ph = any_phase(); cx.phase = ph;
        // local projection of I-list: outside Sweep no cursor; in Sweep the cursor is on the list and sweep_prev is its predecessor
        let pos: u8 = kani::any(); kani::assume(pos < 3);
        if ph == Phase::Sweep {
            match pos { 0 => { cx.sweep = Some(a); cx.sweep_prev.set(None); } 1 => { cx.sweep = Some(b); cx.sweep_prev.set(Some(a)); }
                        _ => { cx.sweep = None; cx.sweep_prev.set(if kani::any() { Some(b) } else { None }); } }
        }
        let (sw0, pv0) = (oaddr(cx.sweep), oaddr(cx.sweep_prev.get()));
        let c0 = sym_counters(&cx);
        let n = new_tok(&cx, 2);
        let sn = snap(n); let c1 = get_counters(&cx.metrics);
        assert!(sn.color == GcColor::White && sn.live && !sn.nt && sn.next == addr(&a), "[heap] the new object is White, live, linked in front of the old head");
        assert!(oaddr(cx.all.get()) == addr(&n), "[list] the new object is the head");
        assert!(oaddr(cx.sweep) == sw0, "[list] the sweep cursor is not moved by allocation");
        if ph == Phase::Sweep && pv0 == 0 { assert!(oaddr(cx.sweep_prev.get()) == addr(&n), "[list] allocated during a sweep: ends up in front of the cursor"); }
        else { assert!(oaddr(cx.sweep_prev.get()) == pv0, "[list]"); }
        assert!(snap(a) == sa0 && snap(b) == sb0, "[frame] no other object is touched");
        assert!(c1.total == c0.total + 1 && c1.allocated == c0.allocated + 1 && c1.dropped == c0.dropped && c1.freed == c0.freed && c1.marked == c0.marked
            && c1.traced == c0.traced && c1.remembered == c0.remembered, "[metrics] allocation counts one Gc");
        assert!(cx.phase == ph && cx_queue_lens(&cx) == (0, 0) && DROPS[0] == 0 && DROPS[1] == 0 && DROPS[2] == 0, "[frame] allocation never triggers collection work");
        assert!(other_unchanged(&other), "[frame] another arena on the same thread is untouched (C20)");
        kani::cover!(ph == Phase::Sweep && pos == 0);
        core::mem::forget(cx); core::mem::forget(other);
    }
}

// ------------------------------------------------------------------------------------------- K.step.sweep_one
#[kani::proof]
fn k_step_sweep_one() {
    unsafe {
        let other = other_arena();
        let mut cx = Context::new();
        let c = new_tok(&cx, 2); let b = new_tok(&cx, 1); let a = new_tok(&cx, 0);      // list: a -> b -> c
        let sa0 = sym_header(a); let sb0 = sym_header(b); let sc0 = sym_header(c);
        kani::assume(sb0.color != GcColor::Gray);                 // I-colour: no Gray outside Mark
        cx.phase = Phase::Sweep;
        let has_prev: bool = kani::any();
        if has_prev { cx.sweep = Some(b); cx.sweep_prev.set(Some(a)); }
        else { cx.all.set(Some(b)); cx.sweep = Some(b); cx.sweep_prev.set(None); }      // a was already swept away
        let c0 = sym_counters(&cx);
        kani::assume(c0.total >= 1);                              // I-count: total == |list|
        let r = cx.sweep_one();
        let c1 = get_counters(&cx.metrics);
        assert!(matches!(r, ControlFlow::Continue(())), "[list]");
        assert!(oaddr(cx.sweep) == addr(&c), "[list] the cursor advances to the next object");
        let d = if sb0.live && is_white(sb0.color) { 1 } else { 0 };
        match sb0.color {
            GcColor::White => {
                assert!(DROPS[1] == if sb0.live { 1 } else { 0 }, "[heap] an unmarked value is destructed exactly if it still exists");
                if has_prev { assert!(snap(a).next == addr(&c) && oaddr(cx.all.get()) == addr(&a) && oaddr(cx.sweep_prev.get()) == addr(&a), "[list] unlinked behind sweep_prev"); }
                else { assert!(oaddr(cx.all.get()) == addr(&c) && cx.sweep_prev.get().is_none(), "[list] unlinked at the head"); }
                assert!(c1.total == c0.total - 1 && c1.freed == c0.freed + 1 && c1.dropped == c0.dropped + d && c1.remembered == c0.remembered, "[metrics]");
            }
            GcColor::WhiteWeak => {
                let sb1 = snap(b);
                assert!(DROPS[1] == if sb0.live { 1 } else { 0 }, "[heap] a weakly marked value is destructed exactly if it still exists, once");
                assert!(sb1.color == GcColor::White && !sb1.live && sb1.nt == sb0.nt && sb1.next == sb0.next, "[heap] the block is kept as a shell");
                assert!(oaddr(cx.sweep_prev.get()) == addr(&b), "[list]");
                assert!(c1.total == c0.total && c1.freed == c0.freed && c1.dropped == c0.dropped + d && c1.remembered == c0.remembered + 1, "[metrics]");
            }
            GcColor::Black => {
                let sb1 = snap(b);
                assert!(DROPS[1] == 0 && sb1.color == GcColor::White && sb1.live == sb0.live && sb1.nt == sb0.nt && sb1.next == sb0.next, "[heap] a marked object survives untouched");
                assert!(oaddr(cx.sweep_prev.get()) == addr(&b), "[list]");
                assert!(c1.total == c0.total && c1.freed == c0.freed && c1.dropped == c0.dropped && c1.remembered == c0.remembered + 1, "[metrics]");
            }
            GcColor::Gray => {}
        }
        assert!(c1.allocated == c0.allocated && c1.marked == c0.marked && c1.traced == c0.traced, "[metrics]");
        if has_prev && sb0.color != GcColor::White { assert!(snap(a) == sa0, "[frame]"); }
        if has_prev && sb0.color == GcColor::White { let s = snap(a); assert!(s.color == sa0.color && s.live == sa0.live && s.nt == sa0.nt, "[frame]"); }
        assert!(snap(c) == sc0 && DROPS[0] == 0 && DROPS[2] == 0, "[frame] no other object is touched or destructed");
        assert!(cx.phase == Phase::Sweep && cx_queue_lens(&cx) == (0, 0), "[frame]");
        assert!(other_unchanged(&other), "[frame] another arena on the same thread is untouched (C20)");
        kani::cover!(sb0.color == GcColor::White && !has_prev);
        kani::cover!(sb0.color == GcColor::WhiteWeak && sb0.live);
        core::mem::forget(cx); core::mem::forget(other);
    }
}

#[kani::proof]
fn k_step_sweep_one_end() {
    unsafe {
        let mut cx = Context::new();
        let a = new_tok(&cx, 0);
        let sa0 = sym_header(a);
        cx.phase = Phase::Sweep; cx.sweep = None; cx.sweep_prev.set(if kani::any() { Some(a) } else { None });
        let c0 = sym_counters(&cx);
        let r = cx.sweep_one();
        let c1 = get_counters(&cx.metrics);
        assert!(matches!(r, ControlFlow::Break(())) && cx.sweep.is_none() && cx.sweep_prev.get().is_none(), "[list] an exhausted cursor ends the sweep");
        assert!(snap(a) == sa0 && same_counters_except(&c0, &c1, 0, 0) && DROPS[0] == 0 && oaddr(cx.all.get()) == addr(&a), "[frame]");
        core::mem::forget(cx);
    }
}

// ------------------------------------------------------------------------------------------- K.step.mark_one (real vtable, derive-generated trace)
#[derive(crate::Collect)]
#[collect(no_drop, gc_lifetime = 'gc)]
pub(crate) struct N<'gc> { pub s: Lock<Option<Gc<'gc, N<'gc>>>>, pub w: Lock<Option<GcWeak<'gc, N<'gc>>>> }

#[kani::proof]
fn k_step_mark_one() {
    unsafe {
        let mut cx = Context::new();
        let (p, c, d) = {
            let mc = cx.mutation_context();
            let d = Gc::new(mc, N { s: Lock::new(None), w: Lock::new(None) });
            let c = Gc::new(mc, N { s: Lock::new(None), w: Lock::new(None) });
            let p = Gc::new(mc, N { s: Lock::new(if kani::any() { Some(c) } else { None }), w: Lock::new(if kani::any() { Some(Gc::downgrade(d)) } else { None }) });
            (p, c, d)
        };
        let has_s = p.s.get().is_some(); let has_w = p.w.get().is_some();
        let (pp, cp, dp) = (p.ptr.erase(), c.ptr.erase(), d.ptr.erase());
        cx.phase = Phase::Mark;
        pp.header().set_color(GcColor::Gray);
        let again: bool = kani::any();
        cx_push_gray(&cx, pp, again);
        let cc0 = any_color(); kani::assume(cc0 != GcColor::Gray);     // (Gray children would need their own queue entries)
        let dc0 = any_color(); kani::assume(dc0 != GcColor::Gray);
        cp.header().set_color(cc0); dp.header().set_color(dc0);
        cx.root_needs_trace = kani::any();
        let c0 = sym_counters(&cx);
        let r = cx.mark_one(&());
        let c1 = get_counters(&cx.metrics);
        assert!(matches!(r, ControlFlow::Continue(())));
        assert!(pp.header().color() == GcColor::Black, "[heap] the object taken from a queue is blackened");
        if has_s { assert!(cp.header().color() == if is_white(cc0) { GcColor::Gray } else { cc0 }, "[heap] every strong pointer of the traced value is marked"); }
        else { assert!(cp.header().color() == cc0, "[heap] nothing but the targets of its pointers is re-coloured"); }
        if has_w { assert!(dp.header().color() == if dc0 == GcColor::White { GcColor::WhiteWeak } else { dc0 }, "[heap] every weak pointer of the traced value is weakly marked"); }
        else { assert!(dp.header().color() == dc0, "[heap]"); }
        let newgray = if has_s && is_white(cc0) { 1 } else { 0 };
        let (g, ga) = cx_queue_lens(&cx);
        assert!(g + ga == newgray, "[queues] the traced object left its queue; each newly Gray object was queued once");
        assert!(c1.traced == c0.traced + 1 && c1.marked == c0.marked + (if has_s && cc0 == GcColor::White { 1 } else { 0 }) + (if has_w && dc0 == GcColor::White { 1 } else { 0 }), "[metrics]");
        assert!(c1.total == c0.total && c1.allocated == c0.allocated && c1.dropped == c0.dropped && c1.freed == c0.freed && c1.remembered == c0.remembered, "[metrics]");
        kani::cover!(has_s && has_w && cc0 == GcColor::White && dc0 == GcColor::White);
        core::mem::forget(cx);
    }
}

/// root tracing and the Break case
#[derive(crate::Collect)]
#[collect(no_drop, gc_lifetime = 'gc)]
struct R<'gc> { a: Option<Gc<'gc, N<'gc>>>, w: Option<GcWeak<'gc, N<'gc>>> }

#[kani::proof]
fn k_step_mark_one_root() {
    unsafe {
        let mut cx = Context::new();
        let (a, b) = { let mc = cx.mutation_context(); (Gc::new(mc, N { s: Lock::new(None), w: Lock::new(None) }), Gc::new(mc, N { s: Lock::new(None), w: Lock::new(None) })) };
        let root = R { a: if kani::any() { Some(a) } else { None }, w: if kani::any() { Some(Gc::downgrade(b)) } else { None } };
        let (ap, bp) = (a.ptr.erase(), b.ptr.erase());
        cx.phase = Phase::Mark;
        let ac0 = any_color(); kani::assume(ac0 != GcColor::Gray); ap.header().set_color(ac0);
        let bc0 = any_color(); kani::assume(bc0 != GcColor::Gray); bp.header().set_color(bc0);
        let flag: bool = kani::any(); cx.root_needs_trace = flag;
        let c0 = sym_counters(&cx);
        let r = cx.mark_one(&root);
        let c1 = get_counters(&cx.metrics);
        if flag {
            assert!(matches!(r, ControlFlow::Continue(())) && !cx.root_needs_trace, "[queues] the root is traced last and then no longer flagged");
            if root.a.is_some() { assert!(ap.header().color() == if is_white(ac0) { GcColor::Gray } else { ac0 }, "[heap] every strong pointer of the root is marked"); } else { assert!(ap.header().color() == ac0); }
            if root.w.is_some() { assert!(bp.header().color() == if bc0 == GcColor::White { GcColor::WhiteWeak } else { bc0 }, "[heap]"); } else { assert!(bp.header().color() == bc0); }
            assert!(c1.traced == c0.traced, "[metrics] tracing the root earns no trace credit");
        } else {
            assert!(matches!(r, ControlFlow::Break(())) && !cx.root_needs_trace && ap.header().color() == ac0 && bp.header().color() == bc0 && same_counters_except(&c0, &c1, 0, 0), "[rel] nothing left to mark: nothing changes");
        }
        kani::cover!(flag && root.a.is_some() && ac0 == GcColor::WhiteWeak);
        core::mem::forget(cx);
    }
}

// ------------------------------------------------------------------------------------------- K.drop.context (bounded: 3 objects)
#[kani::proof]
#[kani::unwind(5)]
fn k_drop_context_any_phase() {
    unsafe {
        let other = other_arena();
        let mut cx = Context::new();
        let c = new_tok(&cx, 2); let b = new_tok(&cx, 1); let a = new_tok(&cx, 0);
        let sa = sym_header(a); let sb = sym_header(b); let sc = sym_header(c);
        let ph = any_phase(); cx.phase = ph;
        if ph == Phase::Sweep { cx.sweep = Some(b); cx.sweep_prev.set(Some(a)); }       // dropped in the middle of a sweep
        if ph == Phase::Mark && sb.color == GcColor::Gray { cx.gray.push(b); }
        let m = cx.metrics.clone();
        let mut c0 = any_counters();
        c0.total = 3;                                                                   // I-count
        kani::assume(c0.dropped < usize::MAX - 3 && c0.freed < usize::MAX - 3);
        set_counters(&m, &c0);
        drop(cx);
        assert!(DROPS[0] == sa.live as u8 && DROPS[1] == sb.live as u8 && DROPS[2] == sc.live as u8, "[heap] every value still alive is destructed exactly once, shells are not destructed again");
        assert!(m.total_gc_count() == 0, "[metrics] the Gc count reads zero after the arena is dropped");
        assert!(other_unchanged(&other), "[frame] dropping one arena does not touch another (C20)");
        kani::cover!(ph == Phase::Sweep && !sb.live);
        core::mem::forget(other);
    }
}

// ------------------------------------------------------------------------------------------- K.path.mutation_barriers: the public typed wrappers
/// `Mutation::{backward_barrier, backward_barrier_weak, forward_barrier, forward_barrier_weak}` with each optional argument given or
/// omitted hand exactly their arguments (erased) to the Context functions proved above: same adoption post-state, same frame.
#[kani::proof]
fn k_path_mutation_barriers() {
    unsafe {
        let mut cx = Context::new();
        let c = new_tok(&cx, 1);
        let p = new_tok(&cx, 0);
        let sp0 = sym_header(p); let sc0 = sym_header(c);
        kani::assume(!(is_white(sc0.color) && sc0.nt) || sc0.live);
        let ph = any_phase(); cx.phase = ph;
        let c0 = sym_counters(&cx);
        kani::assume(!(ph == Phase::Mark && sp0.color == GcColor::Black && sp0.nt) || c0.traced >= 1);
        let form: u8 = kani::any(); kani::assume(form < 7);
        {
            let mc = cx.mutation_context();
            let pg: Gc<'_, ()> = Gc::from_ptr(p.as_ptr()); let cg: Gc<'_, ()> = Gc::from_ptr(c.as_ptr());
            let wg = Gc::downgrade(cg);
            match form {
                0 => mc.backward_barrier(pg, None), 1 => mc.backward_barrier(pg, Some(cg)), 2 => mc.backward_barrier_weak(pg, wg),
                3 => mc.forward_barrier(None, cg), 4 => mc.forward_barrier(Some(pg), cg),
                5 => mc.forward_barrier_weak(None, wg), _ => mc.forward_barrier_weak(Some(pg), wg),
            }
        }
        let sp1 = snap(p); let sc1 = snap(c); let c1 = get_counters(&cx.metrics);
        match form {
            0 => assert!(can_adopt_any(ph, sp1), "[adopt]"), 1 => assert!(can_adopt(ph, sp1, sc1), "[adopt]"), 2 => assert!(can_adopt_weak(ph, sp1, sc1), "[adopt]"),
            3 => assert!(adoptable_by_any(ph, sc1), "[adopt]"), 4 => assert!(can_adopt(ph, sp1, sc1), "[adopt]"),
            5 => assert!(adoptable_by_any_weak(ph, sc1), "[adopt]"), _ => assert!(can_adopt_weak(ph, sp1, sc1), "[adopt]"),
        }
        if form < 3 { assert!(sc1 == sc0 && c1.marked == c0.marked && c1.traced <= c0.traced, "[frame][metrics] backward barriers never touch the child nor earn credit"); }
        else { assert!(sp1 == sp0 && c1.traced == c0.traced, "[frame]"); }
        assert!(c1.total == c0.total && c1.allocated == c0.allocated && c1.dropped == c0.dropped && c1.freed == c0.freed && c1.remembered == c0.remembered
            && cx.phase == ph && DROPS[0] == 0 && DROPS[1] == 0, "[frame] nothing but collector bookkeeping changes");
        kani::cover!(form == 6 && sc1.color != sc0.color);
        kani::cover!(form == 1 && sp1 != sp0);
        core::mem::forget(cx);
    }
}

// ------------------------------------------------------------------------------------------- C10 clause "write barriers never pay debt", stated as the property states it
fn barriers_credit(lo: u8, hi: u8) {
    unsafe {
        let mut cx = Context::new();
        let c = new_tok(&cx, 1);
        let p = new_tok(&cx, 0);
        let sp0 = sym_header(p); let sc0 = sym_header(c);
        kani::assume(!(is_white(sc0.color) && sc0.nt) || sc0.live);
        let ph = any_phase(); cx.phase = ph;
        let c0 = sym_counters(&cx);
        kani::assume(!(ph == Phase::Mark && sp0.color == GcColor::Black && sp0.nt) || c0.traced >= 1);
        let form: u8 = kani::any(); kani::assume(form >= lo && form < hi);
        match form {
            0 => cx.backward_barrier(p, None), 1 => cx.backward_barrier(p, Some(c)), 2 => cx.backward_barrier_weak(p, c),
            3 => cx.forward_barrier(None, c), 4 => cx.forward_barrier(Some(p), c),
            5 => cx.forward_barrier_weak(None, c), _ => cx.forward_barrier_weak(Some(p), c),
        }
        let c1 = get_counters(&cx.metrics);
        assert!(c1.marked <= c0.marked && c1.traced <= c0.traced && c1.remembered == c0.remembered && c1.dropped == c0.dropped && c1.freed == c0.freed
            && c1.allocated >= c0.allocated, "[metrics] a write barrier earns no credit");
        core::mem::forget(cx);
    }
}
/// C10 as stated: no backward barrier raises a credit counter or lowers a debit counter
#[kani::proof]
fn k_step_backward_barriers_earn_no_credit() { barriers_credit(0, 3) }
/// the same for the forward barriers.  FAILS on a White child while marking (they mark the child and earn mark_factor credit inside a
/// callback): known finding F3, listed in known_findings.txt under this row.
#[kani::proof]
fn k_step_forward_barriers_earn_no_credit() { barriers_credit(3, 7) }
