//! Layer K harnesses for src/dynamic_roots.rs (C14, C19): stash barriers before recording and returns a handle to the very object;
//! a handle is accepted only by the set that issued it; handles may outlive their set / arena harmlessly.
extern crate std;
use super::*;
use crate::Rootable;
use crate::context::{Context, Phase};
use crate::context::verif_kani::*;
use crate::metrics::verif_kani::get_counters;
use crate::types::GcColor;

pub(crate) fn inner_ptr<'gc>(s: &DynamicRootSet<'gc>) -> crate::gc_ptr::GcPtr { s.0.ptr.erase() }

/// stash in every phase x set colour x child colour: the set object may hold the new root afterwards (can_adopt), the slot holds the stashed
/// pointer, fetch returns the very object, the child is not touched
#[kani::proof]
#[kani::unwind(4)]
fn k_dynroot_stash_fetch() {
    unsafe {
        let mut cx = Context::new();
        let (set, child) = { let mc = cx.mutation_context(); (DynamicRootSet::new(mc), Gc::new(mc, 5u8)) };
        let sp = inner_ptr(&set); let cp = child.ptr.erase();
        let ph = any_phase(); cx_set_phase(&mut cx, ph);
        sp.header().set_color(any_color()); cp.header().set_color(any_color());
        let (s0, c0s) = (snap(sp), snap(cp));
        kani::assume(ph == Phase::Mark || (s0.color != GcColor::Gray && c0s.color != GcColor::Gray));
        let c0 = sym_counters(&cx);
        kani::assume(!(ph == Phase::Mark && s0.color == GcColor::Black) || c0.traced >= 1);
        let mc = cx.mutation_context();
        let h = set.stash::<Rootable![u8]>(mc, child);
        let (s1, c1s) = (snap(sp), snap(cp));
        assert!(can_adopt(ph, s1, c1s), "[adopt] after stash the set object may hold the stashed pointer");
        assert!(c1s == c0s, "[frame] stash does not touch the stashed object");
        assert!(set.contains(&h) && Gc::ptr_eq(set.fetch(&h), child) && *set.fetch(&h) == 5, "[conv] fetch returns the very object that was stashed");
        assert!(matches!(set.try_fetch(&h), Ok(g) if Gc::ptr_eq(g, child)));
        // the slot table traces the stashed pointer (what keeps it alive): exactly one occupied slot holding the child
        let slots = set.0.slots.borrow();
        assert!(slots.slots.len() == 1 && matches!(slots.slots[0], Slot::Occupied { root, ref_count: 0 } if Gc::ptr_eq(root, Gc::erase(child))), "[heap] the slot records the stashed pointer");
        drop(slots);
        let c1 = get_counters(cx_metrics(&cx));
        assert!(c1.total == c0.total && c1.marked == c0.marked && cx_phase(&cx) == ph, "[frame]");
        kani::cover!(ph == Phase::Mark && s0.color == GcColor::Black && is_white(c0s.color));
        core::mem::forget(h); core::mem::forget(cx);
    }
}

/// a handle is accepted only by the set that issued it: a second set of the same arena and a set of another arena reject it
#[kani::proof]
#[kani::unwind(4)]
fn k_dynroot_foreign_handle_rejected() {
    unsafe {
        let cx = Context::new(); let cx2 = Context::new();
        let mc = cx.mutation_context(); let mc2 = cx2.mutation_context();
        let (set_a, set_b) = (DynamicRootSet::new(mc), DynamicRootSet::new(mc));
        let set_c = DynamicRootSet::new(mc2);
        let child = Gc::new(mc, 5u8);
        let h = set_a.stash::<Rootable![u8]>(mc, child);
        // the other sets are not empty: the sibling set holds, AT THE SAME SLOT INDEX, either the very same object or another one, and the
        // set of the other arena holds an object at that index too - identity of the set decides, not what a slot happens to contain
        let same_object: bool = kani::any();
        let other = if same_object { child } else { Gc::new(mc, 6u8) };
        let hb = set_b.stash::<Rootable![u8]>(mc, other);
        let hc = set_c.stash::<Rootable![u8]>(mc2, Gc::new(mc2, 7u8));
        assert!(h.index == hb.index && h.index == hc.index);
        assert!(set_a.contains(&h) && !set_b.contains(&h) && !set_c.contains(&h), "[conv] contains is true only for the issuing set");
        assert!(set_b.contains(&hb) && !set_a.contains(&hb) && !set_c.contains(&hb) && set_c.contains(&hc) && !set_a.contains(&hc), "[conv] contains is true only for the issuing set");
        assert!(set_b.try_fetch(&h).is_err() && set_c.try_fetch(&h).is_err() && set_a.try_fetch(&hb).is_err() && set_a.try_fetch(&hc).is_err(),
                "[conv] try_fetch fails for a handle from another set / another arena");
        assert!(Gc::ptr_eq(set_a.fetch(&h), child) && Gc::ptr_eq(set_b.fetch(&hb), other), "[conv] the issuing set resolves the handle to the stashed object");
        kani::cover!(same_object);
        core::mem::forget(h); core::mem::forget(hb); core::mem::forget(hc); core::mem::forget(cx); core::mem::forget(cx2);
    }
}
#[kani::proof]
#[kani::unwind(4)]
#[kani::should_panic]
fn k_dynroot_fetch_foreign_panics() {
    unsafe {
        let cx = Context::new();
        let mc = cx.mutation_context();
        let (set_a, set_b) = (DynamicRootSet::new(mc), DynamicRootSet::new(mc));
        let h = set_a.stash::<Rootable![u8]>(mc, Gc::new(mc, 5u8));
        let _ = set_b.fetch(&h);
        assert!(false, "unreachable: fetch must have panicked");
    }
}

/// clone / drop of handles adjust the slot count; the slot is vacated only when the last handle goes; handles that outlive their set touch nothing
#[kani::proof]
#[kani::unwind(4)]
fn k_dynroot_handle_lifecycle() {
    unsafe {
        let cx = Context::new();
        let mc = cx.mutation_context();
        let set = DynamicRootSet::new(mc);
        let child = Gc::new(mc, 5u8);
        let h = set.stash::<Rootable![u8]>(mc, child);
        let h2 = h.clone();
        assert!(matches!(set.0.slots.borrow().slots[0], Slot::Occupied { ref_count: 1, .. }), "[heap] a clone is counted");
        assert!(Gc::ptr_eq(set.fetch(&h2), child), "[conv] a clone resolves to the same object");
        drop(h);
        assert!(matches!(set.0.slots.borrow().slots[0], Slot::Occupied { ref_count: 0, root } if Gc::ptr_eq(root, Gc::erase(child))), "[heap] the object stays registered while a handle exists");
        assert!(Gc::ptr_eq(set.fetch(&h2), child));
        // a handle that outlives its set: drop the Rc held by the set object (what dropping the arena does), then clone / drop the handle
        let outlive: bool = kani::any();
        if outlive {
            core::ptr::drop_in_place(&raw const set.0.slots as *mut Rc<RefCell<Slots<'_>>>);
            let h3 = h2.clone();
            drop(h3); drop(h2);                       // must touch nothing (Weak::upgrade fails)
        } else {
            drop(h2);
            assert!(matches!(set.0.slots.borrow().slots[0], Slot::Vacant { .. }), "[heap] the slot is vacated when the last handle is dropped");
        }
        core::mem::forget(cx);
    }
}
