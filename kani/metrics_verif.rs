//! Layer K harnesses for src/metrics.rs.  Rows K.debt.* are the bit-precise statements behind the three axioms that the
//! driver proof uses about the (uninterpreted) debt test, and C09(b) / C10's clauses about the formula itself.
extern crate std;
use super::*;

pub(crate) struct Counters { pub total: usize, pub allocated: usize, pub dropped: usize, pub freed: usize, pub marked: usize, pub traced: usize, pub remembered: usize }
pub(crate) fn any_counters() -> Counters {
    Counters { total: kani::any(), allocated: kani::any(), dropped: kani::any(), freed: kani::any(), marked: kani::any(), traced: kani::any(), remembered: kani::any() }
}
pub(crate) fn set_counters(m: &Metrics, c: &Counters) {
    m.0.total_gcs.set(c.total); m.0.allocated_gcs.set(c.allocated); m.0.dropped_gcs.set(c.dropped); m.0.freed_gcs.set(c.freed);
    m.0.marked_gcs.set(c.marked); m.0.traced_gcs.set(c.traced); m.0.remembered_gcs.set(c.remembered);
}
pub(crate) fn get_counters(m: &Metrics) -> Counters {
    Counters { total: m.0.total_gcs.get(), allocated: m.0.allocated_gcs.get(), dropped: m.0.dropped_gcs.get(), freed: m.0.freed_gcs.get(),
               marked: m.0.marked_gcs.get(), traced: m.0.traced_gcs.get(), remembered: m.0.remembered_gcs.get() }
}
pub(crate) fn set_floats(m: &Metrics, wakeup: f64, artificial: f64) { m.0.wakeup_amount.set(wakeup); m.0.artificial_debt.set(artificial); }
pub(crate) fn get_floats(m: &Metrics) -> (f64, f64) { (m.0.wakeup_amount.get(), m.0.artificial_debt.get()) }
pub(crate) fn same_inner(a: &Metrics, b: &Metrics) -> bool { Rc::ptr_eq(&a.0, &b.0) }

fn factor_ok(x: f64) -> bool { x.is_finite() && x >= 0.0 && x <= 1.0e6 }
pub(crate) fn any_pacing() -> Pacing {
    let p = Pacing { sleep_factor: kani::any(), min_sleep: kani::any(), mark_factor: kani::any(), trace_factor: kani::any(),
                     keep_factor: kani::any(), drop_factor: kani::any(), free_factor: kani::any() };
    kani::assume(factor_ok(p.mark_factor) && factor_ok(p.trace_factor) && factor_ok(p.keep_factor) && factor_ok(p.drop_factor) && factor_ok(p.free_factor));
    kani::assume(factor_ok(p.sleep_factor));
    p
}
fn any_float_state(m: &Metrics) {
    let w: f64 = kani::any(); let a: f64 = kani::any();
    kani::assume(w.is_finite() && w >= 0.0 && w <= 1.0e300);
    kani::assume(a.is_finite() && a.abs() <= 1.0e300);
    set_floats(m, w, a);
}
fn zero_factors(p: &Pacing) -> bool { p.mark_factor == 0.0 && p.trace_factor == 0.0 && p.keep_factor == 0.0 && p.drop_factor == 0.0 && p.free_factor == 0.0 }

/// C10: debt is never negative, never NaN, finite; zero for an arena holding no allocation (axiom ax_debt_empty)
#[kani::proof]
fn k_debt_nonneg_finite_empty() {
    let m = Metrics::new();
    m.set_pacing(any_pacing());
    let c = any_counters(); set_counters(&m, &c);
    any_float_state(&m);
    let d = m.allocation_debt();
    assert!(d >= 0.0, "[metrics] debt is non-negative (and not NaN)");
    assert!(d.is_finite(), "[metrics] debt is finite");
    if c.total == 0 { assert!(d == 0.0, "[metrics] an arena holding no allocations has zero debt"); }
    kani::cover!(d > 0.0);
    kani::cover!(c.total == 0);
}

/// axiom ax_debt_zero_factors: with all work factors zero the credit counters do not influence the debt test
#[kani::proof]
fn k_debt_zero_factors_work_never_pays() {
    let m = Metrics::new();
    let p = any_pacing();
    kani::assume(zero_factors(&p));
    m.set_pacing(p);
    any_float_state(&m);
    let c1 = any_counters(); let mut c2 = any_counters();
    kani::assume(c1.total > 0 && c2.total > 0);
    c2.allocated = c1.allocated;
    set_counters(&m, &c1);
    let d1 = m.allocation_debt();
    set_counters(&m, &c2);
    let d2 = m.allocation_debt();
    assert!((d1 > 0.0) == (d2 > 0.0), "[metrics] zero work factors: collection work never pays debt");
    kani::cover!(d1 > 0.0);
}

static mut STUB_DEBT: f64 = 0.0;
fn stub_debt(_m: &Metrics) -> f64 { unsafe { STUB_DEBT } }

/// C09: after any finish_cycle the per-cycle counters are zero, the Gc count is untouched, the wake-up amount is
/// max(min_sleep, sleep_factor x survivors); the debt carried over is exactly the unpaid debt (reset: none)
#[kani::proof]
#[kani::stub(Metrics::allocation_debt, stub_debt)]
fn k_debt_finish_cycle_state() {
    let m = Metrics::new();
    let p = any_pacing();
    m.set_pacing(p);
    any_float_state(&m);
    let c = any_counters(); set_counters(&m, &c);
    let reset: bool = kani::any();
    let unpaid: f64 = kani::any();
    kani::assume(unpaid.is_finite() && unpaid >= 0.0);
    unsafe { STUB_DEBT = unpaid; }
    m.finish_cycle(reset);
    let c2 = get_counters(&m);
    assert!(c2.total == c.total && c2.allocated == 0 && c2.dropped == 0 && c2.freed == 0 && c2.marked == 0 && c2.traced == 0 && c2.remembered == 0,
            "[metrics] finish_cycle resets exactly the per-cycle counters");
    let (w, a) = get_floats(&m);
    assert!(w >= 0.0 && w >= p.min_sleep as f64, "[metrics] wake-up amount is at least min_sleep");
    if reset { assert!(a == 0.0, "[metrics] an atomic full cycle carries no debt over"); }
    else { assert!(a == unpaid, "[metrics] unpaid debt is carried over"); }
    kani::cover!(reset);
    kani::cover!(!reset && unpaid > 0.0);
}

/// axiom ax_debt_reset: right after finish_cycle(true) there is no debt, whatever the state before
#[kani::proof]
fn k_debt_finish_cycle_reset() {
    let m = Metrics::new();
    m.set_pacing(any_pacing());
    any_float_state(&m);
    let c = any_counters(); set_counters(&m, &c);
    m.finish_cycle(true);
    assert!(m.allocation_debt() == 0.0, "[metrics] no debt after an atomic full cycle");
}

/// C09 sleep clause: after a cycle that finished with no debt carried over, debt is zero while allocations since then are
/// <= the wake-up amount and positive once they exceed it (counts below 2^53 are exact in f64)
#[kani::proof]
fn k_debt_sleep_honoured() {
    let m = Metrics::new();
    let p = any_pacing();
    m.set_pacing(p);
    let survivors: usize = kani::any();
    kani::assume(survivors < (1usize << 52) && p.min_sleep < (1usize << 52) && p.sleep_factor <= 1024.0);
    let mut c = any_counters(); c.remembered = survivors; set_counters(&m, &c);
    set_floats(&m, 0.0, 0.0);
    m.finish_cycle(true);
    let (w, _) = get_floats(&m);
    // allocations since the cycle finished
    let n: usize = kani::any();
    kani::assume(n < (1usize << 52));
    let total: usize = kani::any();
    kani::assume(total > 0);
    m.0.total_gcs.set(total);
    m.0.allocated_gcs.set(n);
    let d = m.allocation_debt();
    if (n as f64) <= w { assert!(d == 0.0, "[metrics] asleep: zero debt until allocations exceed the wake-up amount"); }
    else { assert!(d > 0.0, "[metrics] positive debt once allocations exceed the wake-up amount"); }
    kani::cover!((n as f64) > w);
    kani::cover!((n as f64) <= w && n > 0);
}

/// C10: adjust_debt(x) adds exactly x to the artificial-debt term of the formula and touches nothing else
#[kani::proof]
fn k_debt_adjust() {
    let m = Metrics::new();
    let p = any_pacing(); m.set_pacing(p);
    let c = any_counters(); set_counters(&m, &c);
    any_float_state(&m);
    let x: f64 = kani::any();
    kani::assume(x.is_finite() && x.abs() <= 1.0e300);
    let (w0, a0) = get_floats(&m);
    m.adjust_debt(x);
    let (w1, a1) = get_floats(&m);
    assert!(a1 == a0 + x, "[metrics] adjust_debt adds exactly x to the artificial debt term");
    assert!(w1 == w0);
    let d = get_counters(&m);
    assert!(d.total == c.total && d.allocated == c.allocated && d.dropped == c.dropped && d.freed == c.freed && d.marked == c.marked
        && d.traced == c.traced && d.remembered == c.remembered);
}

/// counters: each helper touches exactly its own counters (frame) and does what its name says
#[kani::proof]
fn k_metrics_counter_frames() {
    let m = Metrics::new();
    let c = any_counters(); set_counters(&m, &c);
    kani::assume(c.total >= 1 && c.traced >= 1);
    kani::assume(c.total < usize::MAX && c.allocated < usize::MAX && c.dropped < usize::MAX && c.freed < usize::MAX && c.marked < usize::MAX
        && c.traced < usize::MAX && c.remembered < usize::MAX);   // A-addr
    let which: u8 = kani::any();
    kani::assume(which < 7);
    match which {
        0 => m.mark_gc_allocated(1), 1 => m.mark_gc_dropped(1), 2 => m.mark_gc_freed(1), 3 => m.mark_gc_marked(1),
        4 => m.mark_gc_traced(1), 5 => m.mark_gc_untraced(1), _ => m.mark_gc_remembered(1),
    }
    let d = get_counters(&m);
    assert!(d.total == match which { 0 => c.total + 1, 2 => c.total - 1, _ => c.total });
    assert!(d.allocated == if which == 0 { c.allocated + 1 } else { c.allocated });
    assert!(d.dropped == if which == 1 { c.dropped + 1 } else { c.dropped });
    assert!(d.freed == if which == 2 { c.freed + 1 } else { c.freed });
    assert!(d.marked == if which == 3 { c.marked + 1 } else { c.marked });
    assert!(d.traced == match which { 4 => c.traced + 1, 5 => c.traced - 1, _ => c.traced });
    assert!(d.remembered == if which == 6 { c.remembered + 1 } else { c.remembered });
    assert!(m.total_gc_count() == d.total);
}


/// C09: the wake-up amount is max(min_sleep, sleep_factor x survivors), for every power-of-two sleep factor 2^-8 .. 2^8, every survivor count
/// below 2^52 and every min_sleep below 2^52 (two SYMBOLIC-mantissa float products compared do not finish in CBMC: multiplier equivalence;
/// with a power of two only the exponent of the factor is symbolic)
#[kani::proof]
fn k_debt_wakeup_formula() {
    let m = Metrics::new();
    let k: i8 = kani::any();
    kani::assume(-8 <= k && k <= 8);
    let factor = f64::from_bits(((1023i64 + k as i64) as u64) << 52);
    let mut p = any_pacing();
    p.sleep_factor = factor;
    m.set_pacing(p);
    let survivors: usize = kani::any();
    kani::assume(survivors < (1usize << 52) && p.min_sleep < (1usize << 52));
    let mut c = any_counters(); c.remembered = survivors; set_counters(&m, &c);
    set_floats(&m, 0.0, 0.0);
    m.finish_cycle(true);
    let (w, _) = get_floats(&m);
    let by_factor = survivors as f64 * factor;
    assert!(w >= by_factor && w >= p.min_sleep as f64 && (w == by_factor || w == p.min_sleep as f64),
            "[metrics] wake-up amount = max(min_sleep, sleep_factor x survivors)");
    kani::cover!(w == by_factor && by_factor > p.min_sleep as f64);
}

/// C09 / C10 (bounded stand-in): the credit side of the debt formula pairs each work counter with ITS OWN factor.  Relational float queries over
/// symbolic factors do not terminate in CBMC, so the factors are the concrete distinct powers of two below and the counters are < 2^8; with
/// these the reference value max(0, allocated - sum(counter x factor)) is exact.
#[kani::proof]
fn k_debt_formula_pairing() {
    let m = Metrics::new();
    m.set_pacing(Pacing { sleep_factor: 1.0, min_sleep: 0, mark_factor: 0.5, trace_factor: 0.25, keep_factor: 2.0, drop_factor: 4.0, free_factor: 0.125 });
    let (al, mk, tr, rm, dr, fr): (u8, u8, u8, u8, u8, u8) = (kani::any(), kani::any(), kani::any(), kani::any(), kani::any(), kani::any());
    let c = Counters { total: 1, allocated: al as usize, dropped: dr as usize, freed: fr as usize, marked: mk as usize, traced: tr as usize, remembered: rm as usize };
    set_counters(&m, &c);
    set_floats(&m, 0.0, 0.0);
    let d = m.allocation_debt();
    // exact integer arithmetic in eighths
    let debits8 = 8 * al as i64;
    let credits8 = 4 * mk as i64 + 2 * tr as i64 + 16 * rm as i64 + 32 * dr as i64 + fr as i64;
    let expect8 = if debits8 - credits8 > 0 { debits8 - credits8 } else { 0 };
    assert!(d * 8.0 == expect8 as f64, "[metrics] debt = max(0, allocated - (marked x mark_factor + traced x trace_factor + remembered x keep_factor + dropped x drop_factor + freed x free_factor))");
    kani::cover!(d > 0.0 && credits8 > 0);
}

/// C09 (bounded stand-in, quick tier, for the thorough row K.debt.wakeup_formula): the wake-up amount is computed from the SURVIVORS of the
/// cycle (what the sweep remembered), not from any other counter: with sleep_factor = 1/2 and min_sleep = 0 it is exactly survivors / 2,
/// whatever the other counters read.
#[kani::proof]
fn k_debt_wakeup_uses_survivors() {
    let m = Metrics::new();
    m.set_pacing(Pacing { sleep_factor: 0.5, min_sleep: 0, mark_factor: 0.25, trace_factor: 0.25, keep_factor: 0.25, drop_factor: 0.25, free_factor: 0.25 });
    let survivors: u32 = kani::any();
    let mut c = any_counters(); c.remembered = survivors as usize; set_counters(&m, &c);
    set_floats(&m, 0.0, 0.0);
    m.finish_cycle(true);
    let (w, _) = get_floats(&m);
    assert!(w * 2.0 == survivors as f64, "[metrics] wake-up amount = sleep_factor x survivors of the finished cycle (remembered), independent of the other counters");
}
