//! Layer K harnesses for src/gc_ptr.rs (child module: sees GcHeader's private fields, GcVtable, prefix_header_layout).
//! Rows K.hdr.* check the shim's header specs (verus/20_shim.rs: each accessor reads / writes exactly its own bits)
//! on the real tagged-pointer header.  Rows K.layout.* decide C17's arithmetic kernel for ALL layouts.
extern crate std;
use super::*;

unsafe fn vt_trace(_: NonNull<()>, _: &mut Context) {}
unsafe fn vt_drop(_: NonNull<()>) {}
unsafe fn vt_dealloc(_: NonNull<()>) {}
fn vt() -> &'static GcVtable {
    const V: GcVtable = GcVtable { trace_value: vt_trace, drop_value: vt_drop, dealloc: vt_dealloc, type_metadata: NonNull::dangling() };
    &V
}

pub(crate) fn any_color() -> GcColor {
    match kani::any::<u8>() & 3 { 0 => GcColor::White, 1 => GcColor::WhiteWeak, 2 => GcColor::Gray, _ => GcColor::Black }
}

// The header rows are stated over the ACCESSORS only (the shim's model: four independent fields colour / needs_trace / live / next plus an
// immutable vtable pointer), not over how the crate packs them today: a header in an arbitrary state is built with the setters themselves.
#[derive(Clone, Copy, PartialEq)]
struct Obs { color: GcColor, nt: bool, live: bool, next: Option<usize>, vt: usize }
fn obs(h: &GcHeader) -> Obs {
    Obs { color: h.color(), nt: h.needs_trace(), live: h.is_live(), next: h.next().map(|p| p.as_ptr() as usize), vt: h.vtable() as *const GcVtable as usize }
}
fn any_next(target: &mut u8) -> Option<GcPtr> {
    if kani::any() { Some(unsafe { GcPtr::from_ptr(target as *mut u8 as *mut ()) }) } else { None }
}
/// a header in an arbitrary state
fn any_header(target: &mut u8) -> (GcHeader, Obs) {
    let h = GcHeader::new(vt());
    let want = Obs { color: any_color(), nt: kani::any(), live: kani::any(), next: None, vt: vt() as *const GcVtable as usize };
    let nx = any_next(target);
    h.set_color(want.color); h.set_needs_trace(want.nt); h.set_live(want.live); h.set_next(nx);
    let o = obs(&h);
    (h, o)
}

#[kani::proof]
fn k_hdr_tag_bits_free() {
    // a fresh header: unmarked, not live, needs no tracing, unlinked, and it carries the vtable it was given
    let h = GcHeader::new(vt());
    assert!(h.color() == GcColor::White && !h.needs_trace() && !h.is_live() && h.next().is_none());
    assert!(ptr::eq(h.vtable(), vt()));
}

/// every field reads back what was written into it, whatever the other fields hold (built in one fixed order of setter calls)
#[kani::proof]
fn k_hdr_getters() {
    let mut target = 0u8;
    let h = GcHeader::new(vt());
    let (c, nt, live) = (any_color(), kani::any::<bool>(), kani::any::<bool>());
    let nx = any_next(&mut target);
    h.set_color(c); h.set_needs_trace(nt); h.set_live(live); h.set_next(nx);
    assert!(h.color() == c && h.needs_trace() == nt && h.is_live() == live, "[hdr] each flag reads back what was written");
    assert!(h.next().map(|p| p.as_ptr() as usize) == nx.map(|p| p.as_ptr() as usize) && ptr::eq(h.vtable(), vt()), "[hdr] link and vtable pointer intact");
    kani::cover!(h.color() == GcColor::Black && h.is_live());
}

#[kani::proof]
fn k_hdr_set_color() {
    let mut target = 0u8;
    let (h, o) = any_header(&mut target);
    let c = any_color();
    h.set_color(c);
    assert!(obs(&h) == Obs { color: c, ..o }, "[hdr] set_color changes the colour only");
}

#[kani::proof]
fn k_hdr_set_live() {
    let mut target = 0u8;
    let (h, o) = any_header(&mut target);
    let v: bool = kani::any();
    h.set_live(v);
    assert!(obs(&h) == Obs { live: v, ..o }, "[hdr] set_live changes the live flag only");
}

#[kani::proof]
fn k_hdr_set_needs_trace() {
    let mut target = 0u8;
    let (h, o) = any_header(&mut target);
    let v: bool = kani::any();
    h.set_needs_trace(v);
    assert!(obs(&h) == Obs { nt: v, ..o }, "[hdr] set_needs_trace changes that flag only");
}

#[kani::proof]
fn k_hdr_set_next() {
    let mut target = 0u8; let mut target2 = 0u8;
    let (h, o) = any_header(&mut target);
    let nx = any_next(&mut target2);
    h.set_next(nx);
    assert!(obs(&h) == Obs { next: nx.map(|p| p.as_ptr() as usize), ..o }, "[hdr] set_next changes the link only");
}

// ------------------------------------------------------------------------------------------- layout kernel
pub(crate) fn any_layout() -> Layout {
    let size: usize = kani::any();
    let align_log: u8 = kani::any();
    kani::assume(align_log < 40);
    let align = 1usize << align_log;
    let l = Layout::from_size_align(size, align);
    kani::assume(l.is_ok());
    l.unwrap()
}

/// C17 kernel: for EVERY header layout (size a multiple of its alignment) and EVERY value layout the block has room for
/// the header immediately in front of the value, both aligned, value inside the block, header disjoint from the value.
#[kani::proof]
fn k_layout_prefix_header_kernel() {
    let h = any_layout();
    let v = any_layout();
    kani::assume(h.size() % h.align() == 0);
    if let Ok((al, off)) = prefix_header_layout(h, v) {
        assert!(off % v.align() == 0, "[layout] value offset aligned for the value");
        assert!(off >= h.size(), "[layout] room for the header in front of the value");
        assert!((off - h.size()) % h.align() == 0, "[layout] header position aligned for the header");
        assert!(al.size() >= off && al.size() - off >= v.size(), "[layout] value bytes inside the block");
        assert!(al.align() >= h.align() && al.align() >= v.align(), "[layout] block alignment covers both");
        assert!(al.align() == if h.align() > v.align() { h.align() } else { v.align() });
        kani::cover!(v.align() > h.align() && v.size() == 0);
        kani::cover!(h.align() > v.align());
    }
}

/// META_HEADER_LAYOUT for symbolic per-value metadata layouts: the GcHeader is the LAST thing in it (so `value - size_of<GcHeader>`
/// is the header) and the metadata sits at its start.
#[kani::proof]
fn k_layout_meta_header_kernel() {
    let meta = any_layout();
    kani::assume(meta.size() % meta.align() == 0);          // every Rust type's size is a multiple of its alignment
    let hdr = Layout::new::<GcHeader>();
    if let Ok((l, off)) = meta.extend(hdr) {
        let l = l.pad_to_align();
        assert!(l.size() % l.align() == 0, "[layout] precondition of prefix_header_layout holds");
        assert!(off >= meta.size() && off % hdr.align() == 0);
        // the code finds the header at (value - size_of::<GcHeader>()) and the metadata at (value - l.size()):
        // both are exact only if the header ends the combined layout, i.e. no tail padding was added
        if meta.align() <= hdr.align() {
            assert!(off + hdr.size() == l.size(), "[layout] header is the tail of the meta+header block");
        }
        kani::cover!(meta.size() == 8);
        kani::cover!(meta.size() == 0);
    }
}

pub(crate) fn header_addr(p: GcPtr) -> usize { p.header() as *const GcHeader as usize }
