//! C16, feature `slotmap`: SlotMap traces every stored value
extern crate std;
use super::*;
use crate::context::Context;
use crate::gc::Gc;
use crate::collect_impl::verif_kani::{a, same, Rec};
#[kani::proof]
#[kani::unwind(6)]
fn k_collect_slotmap() {
    unsafe {
        let cx = Context::new(); let mc = cx.mutation_context();
        let g = [Gc::new(mc, 0u8), Gc::new(mc, 1u8)];
        let mut m: SlotMap<slotmap::DefaultKey, Gc<'_, u8>> = SlotMap::with_capacity(2);
        let k0 = m.insert(g[0]); let _k1 = m.insert(g[1]);
        let mut r = Rec::new(); m.trace(&mut r);
        assert!(same(&r, &[a(g[0]), a(g[1])], &[]), "[trace] SlotMap: every stored value");
        m.remove(k0);
        let mut r = Rec::new(); m.trace(&mut r);
        assert!(r.ns == 1 && r.s[0] == a(g[1]), "[trace] SlotMap: removed values are not reported");
        assert!(<SlotMap<slotmap::DefaultKey, Gc<'_, u8>> as Collect>::NEEDS_TRACE && !<SlotMap<slotmap::DefaultKey, u8> as Collect>::NEEDS_TRACE);
        core::mem::forget(m); core::mem::forget(cx);
    }
}
