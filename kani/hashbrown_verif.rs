//! C16, feature `hashbrown`: HashMap reports keys and values, HashSet its elements (trivial hasher: the std SipHash is intractable for CBMC)
extern crate std;
use super::*;
use crate::context::Context;
use crate::gc::Gc;
use crate::static_wrapper::Static;
use crate::collect_impl::verif_kani::{a, Rec};
use core::hash::{BuildHasherDefault, Hasher};
#[derive(Default)]
pub(crate) struct H0(u64);
impl Hasher for H0 { fn finish(&self) -> u64 { self.0 } fn write(&mut self, b: &[u8]) { if let Some(x) = b.first() { self.0 = *x as u64; } } }
#[kani::proof]
#[kani::unwind(6)]
fn k_collect_hashbrown_map() {
    unsafe {
        let cx = Context::new(); let mc = cx.mutation_context();
        let g = [Gc::new(mc, 0u8), Gc::new(mc, 1u8)];
        let mut m: hashbrown::HashMap<u8, (Gc<'_, u8>, crate::GcWeak<'_, u8>), BuildHasherDefault<H0>> = hashbrown::HashMap::default();
        m.insert(7, (g[0], Gc::downgrade(g[1])));
        let mut r = Rec::new(); m.trace(&mut r);
        assert!(r.ns == 1 && r.nw == 1 && r.s[0] == a(g[0]) && r.w[0] == a(g[1]), "[trace] hashbrown::HashMap: values, strong and weak");
        assert!(<hashbrown::HashMap<u8, Gc<'_, u8>, BuildHasherDefault<H0>> as Collect>::NEEDS_TRACE
            && <hashbrown::HashMap<Static<u8>, u8, BuildHasherDefault<H0>> as Collect>::NEEDS_TRACE == false);
        core::mem::forget(m); core::mem::forget(cx);
    }
}
#[kani::proof]
#[kani::unwind(6)]
fn k_collect_hashbrown_set_keys() {
    unsafe {
        let cx = Context::new(); let mc = cx.mutation_context();
        let g = [Gc::new(mc, 0u8), Gc::new(mc, 1u8)];
        // a key type that holds a pointer (hashed / compared by its tag)
        struct KeyP<'gc>(u8, Gc<'gc, u8>);
        impl<'gc> PartialEq for KeyP<'gc> { fn eq(&self, o: &Self) -> bool { self.0 == o.0 } }
        impl<'gc> Eq for KeyP<'gc> {}
        impl<'gc> core::hash::Hash for KeyP<'gc> { fn hash<H: Hasher>(&self, h: &mut H) { h.write(&[self.0]) } }
        unsafe impl<'gc> Collect<'gc> for KeyP<'gc> { fn trace<T: crate::collect::Trace<'gc>>(&self, cc: &mut T) { cc.trace(&self.1) } }
        let mut m: hashbrown::HashMap<KeyP, Gc<'_, u8>, BuildHasherDefault<H0>> = hashbrown::HashMap::default();
        m.insert(KeyP(3, g[0]), g[1]);
        let mut r = Rec::new(); m.trace(&mut r);
        assert!(r.ns == 2 && ((r.s[0] == a(g[0]) && r.s[1] == a(g[1])) || (r.s[0] == a(g[1]) && r.s[1] == a(g[0]))), "[trace] hashbrown::HashMap: key AND value");
        let mut s: hashbrown::HashSet<KeyP, BuildHasherDefault<H0>> = hashbrown::HashSet::default();
        s.insert(KeyP(4, g[0]));
        let mut r = Rec::new(); s.trace(&mut r);
        assert!(r.ns == 1 && r.s[0] == a(g[0]), "[trace] hashbrown::HashSet elements");
        core::mem::forget(m); core::mem::forget(s); core::mem::forget(cx);
    }
}
#[kani::proof]
#[kani::unwind(6)]
fn k_collect_hashbrown_table() {
    unsafe {
        let cx = Context::new(); let mc = cx.mutation_context();
        let g = [Gc::new(mc, 0u8), Gc::new(mc, 1u8)];
        let mut t: hashbrown::HashTable<(Gc<'_, u8>, crate::GcWeak<'_, u8>)> = hashbrown::HashTable::new();
        t.insert_unique(5, (g[0], Gc::downgrade(g[1])), |_| 5);
        let mut r = Rec::new(); t.trace(&mut r);
        assert!(r.ns == 1 && r.nw == 1 && r.s[0] == a(g[0]) && r.w[0] == a(g[1]), "[trace] hashbrown::HashTable elements, strong and weak");
        assert!(<hashbrown::HashTable<Gc<'_, u8>> as Collect>::NEEDS_TRACE && !<hashbrown::HashTable<Static<u8>> as Collect>::NEEDS_TRACE, "[trace] HashTable NEEDS_TRACE");
        core::mem::forget(t); core::mem::forget(cx);
    }
}
