//! Layer K harnesses for src/slice.rs (child module): slice / str / header+slice layouts with SYMBOLIC length (C17, C04), thin/fat
//! conversions (C17, C19), slice builders at every abandonment stage (C18, C11).
extern crate std;
use super::*;
use crate::context::Context;
use crate::context::verif_kani::{cx_all, cx_metrics, sym_counters};
use crate::metrics::verif_kani::get_counters;
use crate::gc_ptr::verif_kani::header_addr;

#[repr(align(32))] #[derive(Clone, Copy)] struct A32(u8);
#[derive(Clone, Copy)] struct Z;

/// C17 kernel for the header+slice layout: for EVERY length the layout covers header and elements and is aligned for both
fn layout_ok<H, E>(len: usize) {
    if let Some(l) = SliceWithHeader::<H, E>::layout(len) {
        let (ha, ea) = (mem::align_of::<H>(), mem::align_of::<E>());
        assert!(l.align() >= ha && l.align() >= ea, "[layout] the block is aligned for the header AND for the elements, whatever the length");
        // offset of the slice = size_of::<H>() rounded up to the element alignment
        let off = (mem::size_of::<H>() + ea - 1) / ea * ea;
        assert!(l.size() >= off + len * mem::size_of::<E>(), "[layout] room for the header and `len` elements");
        assert!(l.size() % l.align() == 0, "[layout] padded to the alignment");
        // the fat pointer reconstructed from the thin one reports exactly this length
        let thin = ptr::NonNull::<H>::dangling().as_ptr() as *const H;
        let fat = SliceWithHeader::<H, E>::ptr_from_thin(thin, len);
        assert!(unsafe { (&raw const (*fat).slice).len() } == len && SliceWithHeader::<H, E>::ptr_to_thin(fat) == thin, "[conv] thin <-> fat reconstructs exactly the length");
    }
}
#[kani::proof]
fn k_layout_slice_kernel() {
    let len: usize = kani::any();
    kani::assume(len <= (1usize << 40));
    match kani::any::<u8>() % 6 {
        0 => layout_ok::<u16, u32>(len), 1 => layout_ok::<(), u128>(len), 2 => layout_ok::<u8, A32>(len),
        3 => layout_ok::<A32, u8>(len), 4 => layout_ok::<(), Z>(len), _ => layout_ok::<u64, ()>(len),
    }
    kani::cover!(len == 0);
}

macro_rules! slice_alloc_inst {
    ($name:ident, $h:ty, $e:ty, $hv:expr) => {
        /// header+slice allocation with SYMBOLIC length (zero included): pointers aligned, metadata in front of the header reads back the
        /// length; abandoning the builder releases the identical layout (Kani checks base pointer and size)
        #[kani::proof]
        fn $name() {
            let len: usize = kani::any();
            kani::assume(len <= (1usize << 40));
            let b = GcSliceWithHeaderBuilder::<Static<$h>, Static<$e>>::new(len);
            let mut sb = b.write_header(Static($hv));
            let p = sb.slice_ptr();
            assert!(p.len() == len, "[layout] the slice pointer carries the requested length");
            assert!((p as *mut Static<$e> as usize) % mem::align_of::<$e>() == 0, "[layout] elements are aligned, also for length 0");
            let whole = sb.inner.as_ptr();
            assert!((whole as *const u8 as usize) % mem::align_of::<$h>() == 0, "[layout] the header is aligned");
            drop(sb);
            kani::cover!(len == 0);
        }
    };
}
slice_alloc_inst!(k_layout_inst_slice_u16_u32, u16, u32, 7u16);
slice_alloc_inst!(k_layout_inst_slice_unit_u128, (), u128, ());
slice_alloc_inst!(k_layout_inst_slice_u8_a32, u8, A32, 1u8);
slice_alloc_inst!(k_layout_inst_slice_a32_u8, A32, u8, A32(1));

/// fat <-> thin round trips on real allocations: address preserved, length reconstructed from the metadata stored in front of the header
#[kani::proof]
#[kani::unwind(5)]
fn k_conv_thin_fat_slice() {
    unsafe {
        let cx = Context::new();
        let mc = cx.mutation_context();
        let n: usize = kani::any();
        kani::assume(n <= 3);
        let src = [7u32, 8, 9];
        let s = GcSlice::new_slice(mc, &src[..n]);
        let thin = Gc::as_thin(s);
        let fat = Gc::as_fat(thin);
        assert!(Gc::ptr_eq(fat, s) && Gc::as_ptr(fat) as *const u8 == Gc::as_ptr(s) as *const u8, "[conv] as_thin / as_fat preserve the address");
        assert!(fat.len() == n && thin.len() == n, "[conv] the length is reconstructed exactly");
        if n > 0 { assert!(fat[n - 1] == src[n - 1] && thin[0] == src[0], "[conv] ... and the elements read back"); }
        let back: GcSlice<'_, u32> = Gc::from_ptr_with_kind(Gc::as_ptr(s));
        assert!(Gc::ptr_eq(back, s) && back.len() == n);
        assert!(header_addr(thin.ptr.erase()) == header_addr(s.ptr.erase()), "[conv] same header, hence same vtable");
        drop(cx);
    }
}

#[kani::proof]
#[kani::unwind(5)]
fn k_conv_thin_fat_str() {
    unsafe {
        let cx = Context::new();
        let mc = cx.mutation_context();
        let long: bool = kani::any();
        let st = GcStr::new_str(mc, if long { "abc" } else { "" });
        let n = if long { 3 } else { 0 };
        let tt = Gc::as_thin(st);
        assert!(tt.len() == n && Gc::as_fat(tt).len() == n && Gc::ptr_eq(Gc::as_fat(tt), st), "[conv] str: thin <-> fat keeps address and length");
        drop(cx);
    }
}

// ------------------------------------------------------------------------------------------- slice builders (C18, C11)
static mut HD: u8 = 0;
static mut ED: [u8; 4] = [0; 4];
struct Hdr; impl Drop for Hdr { fn drop(&mut self) { unsafe { HD += 1; } } }
struct El(u8); impl Drop for El { fn drop(&mut self) { unsafe { ED[self.0 as usize] += 1; } } }

/// abandonment before the header, after the header, after k of n elements (a panicking constructor at index k unwinds into exactly this
/// Drop): destructs exactly header + initialised prefix, releases the block, never visible to the arena
#[kani::proof]
#[kani::unwind(6)]
fn k_slice_builder_abandon() {
    unsafe {
        let cx = Context::new();
        let c0 = sym_counters(&cx);
        let n: usize = kani::any(); kani::assume(n <= 3);
        let stage: u8 = kani::any(); kani::assume(stage < 2);
        let k: usize = kani::any(); kani::assume(k <= n);
        let b = GcSliceWithHeaderBuilder::<Static<Hdr>, Static<El>>::new(n).unwrap_static_header();
        if stage == 0 {
            drop(b);                                   // before the header
            assert!(HD == 0, "[heap] nothing is destructed for a builder whose header was never written");
        } else {
            let mut sb = b.write_header(Hdr).unwrap_static_element();
            // what write_slice_with does for the first k elements (then the constructor panics and the builder is dropped)
            let base = sb.slice_ptr() as *mut El;
            let mut i = 0;
            while i < k { base.add(i).write(El(i as u8)); sb.init_length = i + 1; i += 1; }
            drop(sb);
            assert!(HD == 1, "[heap] the header is destructed exactly once, also when no element was initialised");
            let mut j = 0;
            while j < 3 { assert!(ED[j] == if j < k { 1 } else { 0 }, "[heap] exactly the initialised prefix is destructed"); j += 1; }
        }
        let c1 = get_counters(cx_metrics(&cx));
        assert!(cx_all(&cx).is_none() && c1.total == c0.total && c1.allocated == c0.allocated, "[frame] an abandoned slice builder never becomes visible to the arena");
        kani::cover!(stage == 1 && k == 0 && n > 0);
        kani::cover!(stage == 1 && k == n && n == 3);
        core::mem::forget(cx);
    }
}

/// write_slice_with keeps init_length == number of elements written whenever the element constructor runs
#[kani::proof]
#[kani::unwind(6)]
fn k_slice_builder_write_slice_with() {
    unsafe {
        let cx = Context::new();
        let mc = cx.mutation_context();
        let n: usize = kani::any(); kani::assume(n <= 3);
        let sb = GcSliceWithHeaderBuilder::<Static<u8>, Static<u8>>::new(n).write_header(Static(9));
        let mut calls = 0usize;
        let g = sb.write_slice_with(mc, |i| { assert!(i == calls, "[heap] elements are created in order"); calls += 1; Static(i as u8 + 1) });
        assert!(calls == n && g.slice.len() == n && g.header.0 == 9, "[heap] completing registers an allocation whose contents equal what was written");
        if n > 0 { assert!(g.slice[n - 1].0 == n as u8); }
        assert!(crate::metrics::verif_kani::get_counters(cx_metrics(&cx)).total == 1, "[metrics] exactly one allocation registered");
        drop(cx);
    }
}

/// copy_slice rejects a source of the wrong length BEFORE copying or linking anything
#[kani::proof]
#[kani::should_panic]
fn k_slice_builder_copy_wrong_length_panics() {
    unsafe {
        let cx = Context::new();
        let mc = cx.mutation_context();
        let n: usize = kani::any(); kani::assume(n <= 2);
        let src = [1u8, 2, 3];
        let m: usize = kani::any(); kani::assume(m <= 3 && m != n);
        let b = GcSliceBuilder::<Static<u8>>::new(n).unwrap_static();
        let _ = b.copy_slice(mc, &src[..m]);
        assert!(false, "[heap] unreachable: copy_slice must have panicked");
    }
}


/// write_slice_with for ZERO-SIZED elements: the constructor still runs once per element, in order, and completing registers exactly n elements
/// (pointer-cursor loops degenerate for ZSTs: `next != end` is false from the start)
#[kani::proof]
#[kani::unwind(6)]
fn k_slice_builder_write_slice_with_zst() {
    static mut MADE: u8 = 0; static mut GONE: u8 = 0;
    struct Z;
    impl Drop for Z { fn drop(&mut self) { unsafe { GONE += 1; } } }
    unsafe impl<'gc> crate::Collect<'gc> for Z { const NEEDS_TRACE: bool = false; }
    unsafe {
        MADE = 0; GONE = 0;
        let cx = Context::new();
        let mc = cx.mutation_context();
        let n: usize = kani::any(); kani::assume(n <= 3);
        let sb = GcSliceWithHeaderBuilder::<Static<u8>, Z>::new(n).write_header(Static(9));
        let mut calls = 0usize;
        let g = sb.write_slice_with(mc, |i| { assert!(i == calls, "[heap] elements are created in order"); calls += 1; MADE += 1; Z });
        assert!(calls == n && g.slice.len() == n, "[heap] the element constructor runs once per element also for zero-sized elements");
        drop(cx);
        assert!(MADE as usize == n && GONE as usize == n, "[heap] exactly the elements that were created are destructed");
    }
}


/// the same for PLAIN-DATA elements under a header that has a destructor (and the reverse): what is destructed does not depend on whether
/// the element type needs dropping
#[kani::proof]
#[kani::unwind(6)]
fn k_slice_builder_abandon_plain_elements() {
    unsafe {
        HD = 0; ED = [0; 4];
        let cx = Context::new();
        let n: usize = kani::any(); kani::assume(n <= 3);
        let k: usize = kani::any(); kani::assume(k <= n);
        if kani::any() {
            let mut sb = GcSliceWithHeaderBuilder::<Static<Hdr>, Static<u8>>::new(n).unwrap_static_header().write_header(Hdr).unwrap_static_element();
            let base = sb.slice_ptr() as *mut u8;
            let mut i = 0;
            while i < k { base.add(i).write(i as u8); sb.init_length = i + 1; i += 1; }
            drop(sb);
            assert!(HD == 1, "[heap] the header of an abandoned builder is destructed exactly once although its elements are plain data");
        } else {
            let mut sb = GcSliceWithHeaderBuilder::<Static<u8>, Static<El>>::new(n).unwrap_static_header().write_header(7u8).unwrap_static_element();
            let base = sb.slice_ptr() as *mut El;
            let mut i = 0;
            while i < k { base.add(i).write(El(i as u8)); sb.init_length = i + 1; i += 1; }
            drop(sb);
            let mut j = 0;
            while j < 3 { assert!(ED[j] == if j < k { 1 } else { 0 }, "[heap] exactly the initialised prefix is destructed although the header is plain data"); j += 1; }
        }
        assert!(cx_all(&cx).is_none());
        core::mem::forget(cx);
    }
}
