//! Layer K harnesses for src/collect_impl.rs, lock.rs, slice.rs, static_wrapper.rs (C16): every provided Collect impl, instantiated with
//! Gc / GcWeak in each type-parameter position, reports to a RECORDING implementation of the public Trace trait exactly the pointers it
//! holds, each with the right strength; NEEDS_TRACE is true whenever a parameter's is, false only for 'static data.
extern crate std;
use super::*;
use crate::context::Context;
use crate::gc::Gc;
use crate::gc_weak::GcWeak;
use crate::lock::{Lock, OnceLock, RefLock};
use crate::static_wrapper::Static;
use crate::slice::GcSliceWithHeaderBuilder;
use alloc::collections::{BTreeMap, BTreeSet, BinaryHeap, LinkedList, VecDeque};

pub(crate) const CAP: usize = 20;
pub(crate) struct Rec { pub s: [usize; CAP], pub ns: usize, pub w: [usize; CAP], pub nw: usize }
impl Rec { pub(crate) fn new() -> Rec { Rec { s: [0; CAP], ns: 0, w: [0; CAP], nw: 0 } } }
impl<'gc> Trace<'gc> for Rec {
    fn trace_gc(&mut self, gc: Gc<'gc, ()>) { self.s[self.ns] = Gc::as_ptr(gc) as usize; self.ns += 1; }
    fn trace_gc_weak(&mut self, gc: GcWeak<'gc, ()>) { self.w[self.nw] = GcWeak::as_ptr(gc) as usize; self.nw += 1; }
}
pub(crate) fn a<'gc, T: ?Sized>(g: Gc<'gc, T>) -> usize { Gc::as_ptr(g) as *const u8 as usize }
/// occurrences of x among the first n entries of xs
fn occ(xs: &[usize], n: usize, x: usize) -> usize { let mut c = 0; let mut j = 0; while j < n { if xs[j] == x { c += 1; } j += 1; } c }
/// The recorded reports are exactly the expected pointers, each with its strength and as often as it is held.  ORDER IS NOT COMPARED: C15 / C16
/// ask that every contained pointer is reported, not in which order a container is walked.
pub(crate) fn same(r: &Rec, strong: &[usize], weak: &[usize]) -> bool {
    if r.ns != strong.len() || r.nw != weak.len() { return false; }
    let mut i = 0; while i < strong.len() { if occ(&r.s, r.ns, strong[i]) != occ(strong, strong.len(), strong[i]) { return false; } i += 1; }
    let mut i = 0; while i < weak.len() { if occ(&r.w, r.nw, weak[i]) != occ(weak, weak.len(), weak[i]) { return false; } i += 1; }
    true
}
fn seq(r: &Rec, strong: &[usize], weak: &[usize]) -> bool { same(r, strong, weak) }
/// same multiset of strong pointers (order free), for containers without a defined iteration order
fn bag(r: &Rec, strong: &[usize]) -> bool {
    if r.ns != strong.len() || r.nw != 0 { return false; }
    let mut i = 0;
    while i < strong.len() {
        let mut c = 0; let mut j = 0; while j < r.ns { if r.s[j] == strong[i] { c += 1; } j += 1; }
        if c != 1 { return false; }
        i += 1;
    }
    true
}
type G<'gc> = Gc<'gc, u8>;
type W<'gc> = GcWeak<'gc, u8>;
fn nt<'gc, T: Collect<'gc> + ?Sized>() -> bool { T::NEEDS_TRACE }
fn mk<'gc>(mc: &crate::Mutation<'gc>) -> [G<'gc>; 4] { [Gc::new(mc, 0), Gc::new(mc, 1), Gc::new(mc, 2), Gc::new(mc, 3)] }

/// Option, Result (both variants, both positions), Box, Rc, Arc, Lock, RefLock, OnceLock, PhantomData, Static, &'static, Cell, RefCell
#[kani::proof]
fn k_collect_wrappers() {
    unsafe {
        let cx = Context::new(); let mc = cx.mutation_context();
        let g = mk(mc); let (p0, p1) = (a(g[0]), a(g[1]));
        let w1 = Gc::downgrade(g[1]);
        match kani::any::<u8>() % 12 {
            0 => { let v: Option<G> = if kani::any() { Some(g[0]) } else { None }; let mut r = Rec::new(); v.trace(&mut r);
                   assert!(if v.is_some() { seq(&r, &[p0], &[]) } else { seq(&r, &[], &[]) }, "[trace] Option<Gc>"); }
            1 => { let v: Option<W> = Some(w1); let mut r = Rec::new(); v.trace(&mut r); assert!(seq(&r, &[], &[p1]), "[trace] Option<GcWeak> is reported as weak"); }
            2 => { let v: Result<G, W> = if kani::any() { Ok(g[0]) } else { Err(w1) }; let mut r = Rec::new(); v.trace(&mut r);
                   assert!(if v.is_ok() { seq(&r, &[p0], &[]) } else { seq(&r, &[], &[p1]) }, "[trace] Result: Ok and Err positions"); }
            3 => { let v: Box<(G, W)> = Box::new((g[0], w1)); let mut r = Rec::new(); v.trace(&mut r); assert!(seq(&r, &[p0], &[p1]), "[trace] Box"); }
            4 => { let v = alloc::rc::Rc::new(g[0]); let mut r = Rec::new(); v.trace(&mut r); assert!(seq(&r, &[p0], &[]), "[trace] Rc"); }
            5 => { let v = alloc::sync::Arc::new(w1); let mut r = Rec::new(); v.trace(&mut r); assert!(seq(&r, &[], &[p1]), "[trace] Arc"); }
            6 => { let v = Lock::new(Some(g[0])); let mut r = Rec::new(); v.trace(&mut r); assert!(seq(&r, &[p0], &[]), "[trace] Lock"); }
            7 => { let v = RefLock::new((w1, g[0])); let mut r = Rec::new(); v.trace(&mut r); assert!(seq(&r, &[p0], &[p1]), "[trace] RefLock"); }
            8 => { let v: OnceLock<G> = OnceLock::new(); let mut r = Rec::new(); v.trace(&mut r); assert!(seq(&r, &[], &[]));
                   let set: bool = kani::any(); if set { let _ = unsafe { crate::barrier::Unlock::unlock_unchecked(&v) }.set(g[0]); } let mut r = Rec::new(); v.trace(&mut r);
                   assert!(if set { seq(&r, &[p0], &[]) } else { seq(&r, &[], &[]) }, "[trace] OnceLock"); }
            9 => { let v: (core::marker::PhantomData<G>, Static<u64>, &'static str) = (core::marker::PhantomData, Static(1), "x"); let mut r = Rec::new(); v.trace(&mut r);
                   assert!(seq(&r, &[], &[]), "[trace] PhantomData / Static / &'static hold no pointer"); }
            10 => { let v = (core::cell::Cell::new(3u8), core::cell::RefCell::new(4u8)); let mut r = Rec::new(); v.trace(&mut r); assert!(seq(&r, &[], &[])); }
            _ => {
                // NEEDS_TRACE: true whenever a parameter's is; false only for types that cannot contain arena pointers
                assert!(nt::<Option<G>>() && nt::<Option<W>>() && nt::<Result<u8, G>>() && nt::<Result<W, u8>>() && nt::<Box<G>>() && nt::<alloc::rc::Rc<G>>()
                    && nt::<alloc::sync::Arc<W>>() && nt::<Lock<Option<G>>>() && nt::<RefLock<G>>() && nt::<OnceLock<G>>() && nt::<[G]>() && nt::<[W; 2]>()
                    && nt::<Vec<G>>() && nt::<VecDeque<W>>() && nt::<LinkedList<G>>() && nt::<BinaryHeap<u8>>() == false && nt::<BTreeMap<u8, G>>() && nt::<BTreeMap<Static<u8>, W>>()
                    && nt::<BTreeSet<u8>>() == false && nt::<(u8, G)>() && nt::<(W, u8, u8)>() && nt::<crate::slice::SliceWithHeader<G, u8>>() && nt::<crate::slice::SliceWithHeader<u8, W>>(),
                    "[trace] NEEDS_TRACE is true whenever any parameter's is");
                assert!(!nt::<Option<u8>>() && !nt::<Result<u8, u16>>() && !nt::<Box<u8>>() && !nt::<Vec<u8>>() && !nt::<(u8, u16)>() && !nt::<[u8; 3]>() && !nt::<Lock<u8>>()
                    && !nt::<RefLock<u8>>() && !nt::<core::marker::PhantomData<G>>() && !nt::<Static<u8>>() && !nt::<&'static u8>() && !nt::<core::cell::Cell<u8>>()
                    && !nt::<core::cell::RefCell<u8>>() && !nt::<String>() && !nt::<()>(),
                    "[trace] impls that claim no tracing exist only for types that cannot contain arena pointers");
            }
        }
        core::mem::forget(cx);
    }
}

/// tuples: every position of arity 1, 2, 3 and 16 (the recorder checks the order, so all positions at once)
#[kani::proof]
#[kani::unwind(18)]
fn k_collect_tuples() {
    unsafe {
        let cx = Context::new(); let mc = cx.mutation_context();
        let n = |i: u8| Gc::new(mc, i);
        let g: [G; 16] = [n(0), n(1), n(2), n(3), n(4), n(5), n(6), n(7), n(8), n(9), n(10), n(11), n(12), n(13), n(14), n(15)];
        let p: [usize; 16] = [a(g[0]), a(g[1]), a(g[2]), a(g[3]), a(g[4]), a(g[5]), a(g[6]), a(g[7]), a(g[8]), a(g[9]), a(g[10]), a(g[11]), a(g[12]), a(g[13]), a(g[14]), a(g[15])];
        let w = |i: usize| Gc::downgrade(g[i]);
        match kani::any::<u8>() % 4 {
            0 => { let mut r = Rec::new(); (g[0],).trace(&mut r); assert!(seq(&r, &[p[0]], &[]), "[trace] 1-tuple"); }
            1 => { let mut r = Rec::new(); (w(0), g[1]).trace(&mut r); assert!(seq(&r, &[p[1]], &[p[0]]), "[trace] 2-tuple: both positions, strengths kept"); }
            2 => { let mut r = Rec::new(); (g[0], w(1), g[2]).trace(&mut r); assert!(seq(&r, &[p[0], p[2]], &[p[1]]), "[trace] 3-tuple"); }
            _ => {
                let mut r = Rec::new();
                (g[0], g[1], g[2], g[3], g[4], g[5], g[6], g[7], g[8], g[9], g[10], g[11], g[12], g[13], g[14], w(15)).trace(&mut r);
                assert!(seq(&r, &p[..15], &[p[15]]), "[trace] 16-tuple: every position reported once, in order, the last one weak");
                assert!(nt::<(u8, u8, u8, u8, u8, u8, u8, u8, u8, u8, u8, u8, u8, u8, u8, W)>() && !nt::<(u8, u8, u8, u8, u8, u8, u8, u8, u8, u8, u8, u8, u8, u8, u8, u8)>());
            }
        }
        core::mem::forget(cx);
    }
}

/// [T] and [T; N]: every element position, symbolic length <= 3
#[kani::proof]
#[kani::unwind(6)]
fn k_collect_slices_arrays() {
    unsafe {
        let cx = Context::new(); let mc = cx.mutation_context();
        let g = mk(mc); let p = [a(g[0]), a(g[1]), a(g[2]), a(g[3])];
        let n: usize = kani::any(); kani::assume(n <= 3);
        if kani::any() { let v = [g[0], g[1], g[2]]; let mut r = Rec::new(); v[..n].trace(&mut r); assert!(seq(&r, &p[..n], &[]), "[trace] [T]: every element"); }
        else { let v = [Gc::downgrade(g[0]), Gc::downgrade(g[1]), Gc::downgrade(g[2])]; let mut r = Rec::new(); v.trace(&mut r); assert!(seq(&r, &[], &p[..3]), "[trace] [GcWeak; 3]: weak");
               let e: [G; 0] = []; let mut r = Rec::new(); e.trace(&mut r); assert!(seq(&r, &[], &[])); }
        core::mem::forget(cx);
    }
}
#[kani::proof]
#[kani::unwind(5)]
fn k_collect_vec() {
    unsafe {
        let cx = Context::new(); let mc = cx.mutation_context();
        let g = mk(mc); let p = [a(g[0]), a(g[1]), a(g[2]), a(g[3])];
        let n: usize = kani::any(); kani::assume(n <= 2);
        let mut v: Vec<G> = Vec::with_capacity(2); let mut i = 0; while i < n { v.push(g[i]); i += 1; }
        let mut r = Rec::new(); v.trace(&mut r);
        assert!(seq(&r, &p[..n], &[]), "[trace] Vec: every element");
        core::mem::forget(v); core::mem::forget(cx);
    }
}
#[kani::proof]
#[kani::unwind(5)]
fn k_collect_linked_list() {
    unsafe {
        let cx = Context::new(); let mc = cx.mutation_context();
        let g = mk(mc); let p = [a(g[0]), a(g[1])];
        let mut v: LinkedList<G> = LinkedList::new(); v.push_back(g[0]); v.push_back(g[1]);
        let mut r = Rec::new(); v.trace(&mut r);
        assert!(seq(&r, &p, &[]), "[trace] LinkedList: every element");
        core::mem::forget(v); core::mem::forget(cx);
    }
}
#[kani::proof]
#[kani::unwind(5)]
fn k_collect_slice_with_header() {
    unsafe {
        let cx = Context::new(); let mc = cx.mutation_context();
        let g = mk(mc); let p = [a(g[0]), a(g[1]), a(g[2]), a(g[3])];
        let n: usize = kani::any(); kani::assume(n <= 2);
        let s = GcSliceWithHeaderBuilder::<W, G>::new(n).write_header(Gc::downgrade(g[3])).write_slice_with(mc, |i| g[i]);
        let mut r = Rec::new(); (*s).trace(&mut r);
        assert!(seq(&r, &p[..n], &[p[3]]), "[trace] SliceWithHeader: header (weak) and every element");
        core::mem::forget(cx);
    }
}

/// VecDeque whose contents WRAP around the end of the ring buffer (the second half of `as_slices`) and one that does not
#[kani::proof]
#[kani::unwind(6)]
fn k_collect_vecdeque_wrapped() {
    unsafe {
        let cx = Context::new(); let mc = cx.mutation_context();
        let g = mk(mc); let p = [a(g[0]), a(g[1]), a(g[2]), a(g[3])];
        let mut v: VecDeque<G> = VecDeque::with_capacity(4);
        let cap = v.capacity();
        let wrap: bool = kani::any();
        if wrap { let k = cap - 1; let mut i = 0; while i < k { v.push_back(g[0]); i += 1; } let mut i = 0; while i < k { v.pop_front(); i += 1; } }
        v.push_back(g[0]); v.push_back(g[1]); v.push_back(g[2]);
        assert!(v.capacity() == cap);
        if wrap { assert!(v.as_slices().1.len() == 2, "(the deque really is wrapped)"); }
        let mut r = Rec::new(); v.trace(&mut r);
        assert!(seq(&r, &p[..3], &[]), "[trace] VecDeque: every element position, wrapped or not");
        core::mem::forget(v); core::mem::forget(cx);
    }
}

#[kani::proof]
#[kani::unwind(5)]
fn k_collect_btreemap() {
    unsafe {
        let cx = Context::new(); let mc = cx.mutation_context();
        let g = mk(mc); let p = [a(g[0]), a(g[1]), a(g[2]), a(g[3])];
        let mut m: BTreeMap<u8, (G, W)> = BTreeMap::new();
        m.insert(0, (g[0], Gc::downgrade(g[2])));
        let mut r = Rec::new(); m.trace(&mut r); assert!(seq(&r, &p[..1], &p[2..3]), "[trace] BTreeMap values");
        core::mem::forget(m); core::mem::forget(cx);
    }
}

// ---- ordered / heap sets (elements cannot be Gc: Gc is not Ord; the impls matter for NEEDS_TRACE and for element types that wrap pointers)
#[derive(PartialEq, Eq, PartialOrd, Ord)]
struct Keyed<'gc>(u8, Static<u8>, core::marker::PhantomData<G<'gc>>);
/// an element type that is Ord AND holds a pointer (ordered by its tag only)
struct Tagged<'gc>(u8, G<'gc>);
impl<'gc> PartialEq for Tagged<'gc> { fn eq(&self, o: &Self) -> bool { self.0 == o.0 } }
impl<'gc> Eq for Tagged<'gc> {}
impl<'gc> PartialOrd for Tagged<'gc> { fn partial_cmp(&self, o: &Self) -> Option<core::cmp::Ordering> { Some(self.cmp(o)) } }
impl<'gc> Ord for Tagged<'gc> { fn cmp(&self, o: &Self) -> core::cmp::Ordering { self.0.cmp(&o.0) } }
unsafe impl<'gc> Collect<'gc> for Tagged<'gc> { fn trace<T: Trace<'gc>>(&self, cc: &mut T) { cc.trace(&self.1) } }

#[kani::proof]
#[kani::unwind(5)]
fn k_collect_btreeset_binaryheap() {
    unsafe {
        let cx = Context::new(); let mc = cx.mutation_context();
        let g = mk(mc); let p = [a(g[0]), a(g[1])];
        if kani::any() {
            let mut s: BTreeSet<Tagged> = BTreeSet::new(); s.insert(Tagged(1, g[0]));
            let mut r = Rec::new(); s.trace(&mut r); assert!(seq(&r, &p[..1], &[]), "[trace] BTreeSet elements");
            assert!(nt::<BTreeSet<Tagged>>() && nt::<BTreeMap<Tagged, u8>>(), "[trace] NEEDS_TRACE from the key / element type");
            core::mem::forget(s);
        } else {
            let mut h: BinaryHeap<Tagged> = BinaryHeap::new(); h.push(Tagged(1, g[0])); h.push(Tagged(2, g[1]));
            let mut r = Rec::new(); h.trace(&mut r); assert!(bag(&r, &p), "[trace] BinaryHeap elements (order free)");
            assert!(nt::<BinaryHeap<Tagged>>());
            core::mem::forget(h);
        }
        core::mem::forget(cx);
    }
}
/// BTreeMap KEYS are traced too
#[kani::proof]
#[kani::unwind(5)]
fn k_collect_btreemap_keys() {
    unsafe {
        let cx = Context::new(); let mc = cx.mutation_context();
        let g = mk(mc); let p = [a(g[0]), a(g[1])];
        let mut m: BTreeMap<Tagged, G> = BTreeMap::new(); m.insert(Tagged(1, g[0]), g[1]);
        let mut r = Rec::new(); m.trace(&mut r); assert!(bag(&r, &p), "[trace] BTreeMap: key AND value reported");
        core::mem::forget(m); core::mem::forget(cx);
    }
}

// ---- std::collections::HashMap / HashSet.  The impls are generic over the hasher `S: 'static`, so they are instantiated with a trivial
// hasher (SipHash, the default, is intractable for CBMC); keys and values / elements each hold a pointer.
#[derive(Default)]
pub(crate) struct H1(u64);
impl core::hash::Hasher for H1 { fn finish(&self) -> u64 { self.0 } fn write(&mut self, b: &[u8]) { if let Some(x) = b.first() { self.0 = *x as u64; } } }
pub(crate) struct KeyP<'gc>(pub u8, pub Gc<'gc, u8>);
impl<'gc> PartialEq for KeyP<'gc> { fn eq(&self, o: &Self) -> bool { self.0 == o.0 } }
impl<'gc> Eq for KeyP<'gc> {}
impl<'gc> core::hash::Hash for KeyP<'gc> { fn hash<H: core::hash::Hasher>(&self, h: &mut H) { h.write(&[self.0]) } }
unsafe impl<'gc> Collect<'gc> for KeyP<'gc> { fn trace<T: Trace<'gc>>(&self, cc: &mut T) { cc.trace(&self.1) } }
type BH = core::hash::BuildHasherDefault<H1>;

#[kani::proof]
#[kani::unwind(6)]
fn k_collect_std_hashmap() {
    unsafe {
        let cx = Context::new(); let mc = cx.mutation_context();
        let g = mk(mc);
        let mut m: std::collections::HashMap<KeyP, (G, W), BH> = std::collections::HashMap::default();
        m.insert(KeyP(3, g[0]), (g[1], Gc::downgrade(g[2])));
        let mut r = Rec::new(); m.trace(&mut r);
        assert!(r.ns == 2 && r.nw == 1 && r.w[0] == a(g[2])
            && ((r.s[0] == a(g[0]) && r.s[1] == a(g[1])) || (r.s[0] == a(g[1]) && r.s[1] == a(g[0]))), "[trace] std HashMap: key AND value, strong and weak");
        assert!(nt::<std::collections::HashMap<u8, G, BH>>() && nt::<std::collections::HashMap<KeyP, u8, BH>>()
            && !nt::<std::collections::HashMap<Static<u8>, u8, BH>>(), "[trace] std HashMap NEEDS_TRACE");
        core::mem::forget(m); core::mem::forget(cx);
    }
}
#[kani::proof]
#[kani::unwind(6)]
fn k_collect_std_hashset() {
    unsafe {
        let cx = Context::new(); let mc = cx.mutation_context();
        let g = mk(mc);
        let mut s: std::collections::HashSet<KeyP, BH> = std::collections::HashSet::default();
        s.insert(KeyP(4, g[0]));
        let mut r = Rec::new(); s.trace(&mut r);
        assert!(r.ns == 1 && r.nw == 0 && r.s[0] == a(g[0]), "[trace] std HashSet elements");
        assert!(nt::<std::collections::HashSet<KeyP, BH>>() && !nt::<std::collections::HashSet<Static<u8>, BH>>(), "[trace] std HashSet NEEDS_TRACE");
        core::mem::forget(s); core::mem::forget(cx);
    }
}

/// A RefLock whose contents are mutably borrowed (a leaked RefMut guard): tracing it must NOT return normally without having reported the
/// pointer it holds (the crate panics; silently skipping the contents would let the collector free what the lock still points to).
/// should_panic row: the harness ends without a panic exactly when trace returned and reported nothing.
#[kani::proof]
#[kani::should_panic]
fn k_collect_reflock_mutably_borrowed() {
    unsafe {
        let cx = Context::new(); let mc = cx.mutation_context();
        let g = mk(mc);
        let v = RefLock::new(Some(g[0]));
        core::mem::forget(v.as_ref_cell().borrow_mut());
        let mut r = Rec::new(); v.trace(&mut r);
        if seq(&r, &[a(g[0])], &[]) { panic!("reported: acceptable"); }
        core::mem::forget(cx);
    }
}


/// SliceWithHeader with a header that holds a pointer and elements that need no tracing (and the reverse): both positions are reported
#[kani::proof]
#[kani::unwind(5)]
fn k_collect_slice_with_header_positions() {
    unsafe {
        let cx = Context::new(); let mc = cx.mutation_context();
        let g = mk(mc);
        let s = GcSliceWithHeaderBuilder::<G, u8>::new(2).write_header(g[0]).write_slice_with(mc, |i| i as u8);
        let mut r = Rec::new(); (*s).trace(&mut r);
        assert!(seq(&r, &[a(g[0])], &[]), "[trace] SliceWithHeader<Gc, u8>: the header is reported although the elements need no tracing");
        let s2 = GcSliceWithHeaderBuilder::<u8, W>::new(2).write_header(7).write_slice_with(mc, |i| Gc::downgrade(g[i + 1]));
        let mut r = Rec::new(); (*s2).trace(&mut r);
        assert!(seq(&r, &[], &[a(g[1]), a(g[2])]), "[trace] SliceWithHeader<u8, GcWeak>: the elements are reported although the header needs no tracing");
        core::mem::forget(cx);
    }
}
