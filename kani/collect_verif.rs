//! Layer K harnesses for derive(Collect) (C15): the OUTPUT of the real derive of the current tree, for a corpus of type shapes, reports to a
//! recording Trace exactly the pointers of the active variant minus `require_static` fields, each with the right strength (order not compared); NEEDS_TRACE equals the disjunction over traced field types.  Each row is complete in the field VALUES; the corpus is a sample of
//! SHAPES (bounded(corpus)): named / tuple / unit structs, enums with mixed variants, generics with and without `bound`, nested containers,
//! `require_static` at the first / middle / last position and inside an enum variant, explicit gc_lifetime.
extern crate std;
use super::*;
use crate::context::Context;
use crate::collect_impl::verif_kani::{a, Rec};
use crate::lock::Lock;
use crate::static_wrapper::Static;
use alloc::vec::Vec;
use alloc::boxed::Box;

type G<'gc> = Gc<'gc, u8>;
type W<'gc> = GcWeak<'gc, u8>;
/// a field type that is NOT Collect: only legal behind require_static
struct Opaque(u8);

#[derive(crate::Collect)] #[collect(no_drop)] struct Named<'gc> { first: G<'gc>, mid: W<'gc>, last: G<'gc> }
#[derive(crate::Collect)] #[collect(no_drop)] struct Tuple<'gc>(G<'gc>, u8, W<'gc>, G<'gc>);
#[derive(crate::Collect)] #[collect(no_drop)] struct Unit;
#[derive(crate::Collect)] #[collect(no_drop)] struct StaticFirst<'gc> { #[collect(require_static)] s: Opaque, p: G<'gc>, q: G<'gc> }
#[derive(crate::Collect)] #[collect(no_drop)] struct StaticMid<'gc> { p: G<'gc>, #[collect(require_static)] s: Opaque, q: W<'gc> }
#[derive(crate::Collect)] #[collect(no_drop)] struct StaticLast<'gc>(G<'gc>, G<'gc>, #[collect(require_static)] Opaque);
#[derive(crate::Collect)] #[collect(no_drop)] struct AllStatic { #[collect(require_static)] s: Opaque, n: u32 }
#[derive(crate::Collect)] #[collect(no_drop)]
enum Mixed<'gc> { Unit, Tup(G<'gc>, W<'gc>), Named { x: u8, p: G<'gc>, #[collect(require_static)] s: Opaque, last: G<'gc> }, Other(Option<G<'gc>>) }
#[derive(crate::Collect)] #[collect(no_drop)] struct Generic<'gc, T> { t: T, p: G<'gc> }
#[derive(crate::Collect)] #[collect(no_drop, bound = "where T: Collect<'gc>")] struct Bounded<'gc, T> { p: G<'gc>, t: Box<T> }
#[derive(crate::Collect)] #[collect(no_drop)] struct Nested<'gc> { v: Vec<(u8, G<'gc>)>, o: Option<Lock<Option<W<'gc>>>>, arr: [G<'gc>; 2] }
#[derive(crate::Collect)] #[collect(no_drop, gc_lifetime = 'gc)] struct TwoLt<'a, 'gc> where 'a: 'static { s: &'a u8, p: G<'gc> }
#[derive(crate::Collect)] #[collect(require_static)] struct WholeStatic { o: Opaque }

fn nt<'gc, T: Collect<'gc> + ?Sized>() -> bool { T::NEEDS_TRACE }
fn eq(r: &Rec, s: &[usize], w: &[usize]) -> bool { crate::collect_impl::verif_kani::same(r, s, w) }

#[kani::proof]
#[kani::unwind(6)]
fn k_derive_structs() {
    unsafe {
        let cx = Context::new(); let mc = cx.mutation_context();
        let g = [Gc::new(mc, 0u8), Gc::new(mc, 1u8), Gc::new(mc, 2u8)]; let p = [a(g[0]), a(g[1]), a(g[2])];
        let w = |i: usize| Gc::downgrade(g[i]);
        match kani::any::<u8>() % 8 {
            0 => { let mut r = Rec::new(); Named { first: g[0], mid: w(1), last: g[2] }.trace(&mut r); assert!(eq(&r, &[p[0], p[2]], &[p[1]]), "[trace] named struct: every field incl. the last, strengths kept"); }
            1 => { let mut r = Rec::new(); Tuple(g[0], 9, w(1), g[2]).trace(&mut r); assert!(eq(&r, &[p[0], p[2]], &[p[1]]), "[trace] tuple struct"); }
            2 => { let mut r = Rec::new(); Unit.trace(&mut r); assert!(eq(&r, &[], &[]) && !nt::<Unit>(), "[trace] unit struct"); }
            3 => { let mut r = Rec::new(); StaticFirst { s: Opaque(1), p: g[0], q: g[1] }.trace(&mut r); assert!(eq(&r, &[p[0], p[1]], &[]), "[trace] require_static first: the others are still traced"); }
            4 => { let mut r = Rec::new(); StaticMid { p: g[0], s: Opaque(1), q: w(1) }.trace(&mut r); assert!(eq(&r, &[p[0]], &[p[1]]), "[trace] require_static in the middle"); }
            5 => { let mut r = Rec::new(); StaticLast(g[0], g[1], Opaque(1)).trace(&mut r); assert!(eq(&r, &[p[0], p[1]], &[]), "[trace] require_static last"); }
            6 => { let mut r = Rec::new(); AllStatic { s: Opaque(1), n: 3 }.trace(&mut r); assert!(eq(&r, &[], &[]) && !nt::<AllStatic>() && !nt::<WholeStatic>(), "[trace] nothing to trace => NEEDS_TRACE false"); }
            _ => { assert!(nt::<Named>() && nt::<Tuple>() && nt::<StaticFirst>() && nt::<StaticMid>() && nt::<StaticLast>() && nt::<Mixed>() && nt::<Nested>() && nt::<TwoLt>()
                       && nt::<Generic<u8>>() && nt::<Bounded<u8>>(), "[trace] NEEDS_TRACE is the disjunction over traced field types"); }
        }
        core::mem::forget(cx);
    }
}

#[kani::proof]
#[kani::unwind(6)]
fn k_derive_enums_generics_nested() {
    unsafe {
        let cx = Context::new(); let mc = cx.mutation_context();
        let g = [Gc::new(mc, 0u8), Gc::new(mc, 1u8), Gc::new(mc, 2u8)]; let p = [a(g[0]), a(g[1]), a(g[2])];
        let w = |i: usize| Gc::downgrade(g[i]);
        match kani::any::<u8>() % 8 {
            0 => { let mut r = Rec::new(); Mixed::Unit.trace(&mut r); assert!(eq(&r, &[], &[]), "[trace] enum, unit variant"); }
            1 => { let mut r = Rec::new(); Mixed::Tup(g[0], w(1)).trace(&mut r); assert!(eq(&r, &[p[0]], &[p[1]]), "[trace] enum, tuple variant: only the active variant"); }
            2 => { let mut r = Rec::new(); Mixed::Named { x: 1, p: g[0], s: Opaque(2), last: g[2] }.trace(&mut r); assert!(eq(&r, &[p[0], p[2]], &[]), "[trace] enum, named variant with a require_static field: last field traced"); }
            3 => { let v = if kani::any() { Some(g[1]) } else { None }; let mut r = Rec::new(); Mixed::Other(v).trace(&mut r);
                   assert!(if v.is_some() { eq(&r, &[p[1]], &[]) } else { eq(&r, &[], &[]) }, "[trace] enum, nested Option"); }
            4 => { let mut r = Rec::new(); Generic { t: w(1), p: g[0] }.trace(&mut r); assert!(eq(&r, &[p[0]], &[p[1]]), "[trace] generic parameter holding a pointer");
                   let mut r = Rec::new(); Generic { t: 5u8, p: g[0] }.trace(&mut r); assert!(eq(&r, &[p[0]], &[])); }
            5 => { let mut r = Rec::new(); Bounded { p: g[0], t: Box::new(g[1]) }.trace(&mut r); assert!(eq(&r, &[p[0], p[1]], &[]), "[trace] explicit bound"); }
            6 => { let mut v = Vec::with_capacity(1); v.push((7u8, g[0]));
                   let n = Nested { v, o: if kani::any() { Some(Lock::new(Some(w(1)))) } else { None }, arr: [g[2], g[0]] };
                   let has = n.o.is_some(); let mut r = Rec::new(); n.trace(&mut r);
                   assert!(if has { eq(&r, &[p[0], p[2], p[0]], &[p[1]]) } else { eq(&r, &[p[0], p[2], p[0]], &[]) }, "[trace] nested containers: Vec of tuples, Option<Lock<Option<GcWeak>>>, array");
                   core::mem::forget(n); }
            _ => { static S: u8 = 1; let mut r = Rec::new(); TwoLt { s: &S, p: g[0] }.trace(&mut r); assert!(eq(&r, &[p[0]], &[]), "[trace] explicit gc_lifetime"); }
        }
        core::mem::forget(cx);
    }
}

// ---- recursive shapes: a type whose only arena pointers point to its own type (list node, expression tree) - NEEDS_TRACE of a recursive
// type must not be short-circuited to false, and the self-typed fields are traced like any other
#[derive(crate::Collect)] #[collect(no_drop)] struct Node<'gc> { v: u8, next: Option<Gc<'gc, Node<'gc>>> }
#[derive(crate::Collect)] #[collect(no_drop)] enum Expr<'gc> { Leaf(u8), Neg(Gc<'gc, Expr<'gc>>), Add(Gc<'gc, Expr<'gc>>, Gc<'gc, Expr<'gc>>) }
#[kani::proof]
#[kani::unwind(6)]
fn k_derive_recursive_types() {
    unsafe {
        let cx = Context::new(); let mc = cx.mutation_context();
        let tail = Gc::new(mc, Node { v: 1, next: None });
        let head = Node { v: 0, next: Some(tail) };
        let mut r = Rec::new(); head.trace(&mut r);
        assert!(eq(&r, &[a(tail)], &[]), "[trace] a field of the deriving type's own type is traced");
        let l = Gc::new(mc, Expr::Leaf(1)); let n = Gc::new(mc, Expr::Neg(l));
        let mut r = Rec::new(); Expr::Add(l, n).trace(&mut r);
        assert!(eq(&r, &[a(l), a(n)], &[]), "[trace] recursive enum: both children");
        assert!(nt::<Node>() && nt::<Expr>(), "[trace] NEEDS_TRACE of a recursive type is true when its self-typed fields hold pointers");
        core::mem::forget(cx);
    }
}

// ---- require_static at a field position of one variant where SIBLING variants hold a pointer at the same position ("require_static
// fields at every position", "every field of the active variant"): the exemption belongs to that field of that variant only
#[derive(crate::Collect)] #[collect(no_drop)]
enum Aligned<'gc> { A { #[collect(require_static)] s: Opaque, p: G<'gc> }, B(G<'gc>, #[collect(require_static)] Opaque), C(G<'gc>, W<'gc>), D(#[collect(require_static)] Opaque) }
#[derive(crate::Collect)] #[collect(no_drop)]
enum StaticOrPtr<'gc> { S { #[collect(require_static)] s: Opaque }, P(G<'gc>) }
#[derive(crate::Collect)] #[collect(no_drop)]
enum StaticOrPlain { S(#[collect(require_static)] Opaque), N(u8) }
#[kani::proof]
#[kani::unwind(6)]
fn k_derive_enum_static_positions() {
    unsafe {
        let cx = Context::new(); let mc = cx.mutation_context();
        let g = [Gc::new(mc, 0u8), Gc::new(mc, 1u8)]; let p = [a(g[0]), a(g[1])];
        let w = |i: usize| Gc::downgrade(g[i]);
        match kani::any::<u8>() % 6 {
            0 => { let mut r = Rec::new(); Aligned::A { s: Opaque(1), p: g[0] }.trace(&mut r); assert!(eq(&r, &[p[0]], &[]), "[trace] enum: field after a require_static field is traced"); }
            1 => { let mut r = Rec::new(); Aligned::B(g[1], Opaque(1)).trace(&mut r); assert!(eq(&r, &[p[1]], &[]), "[trace] enum: position 0 is traced although a sibling variant has require_static at position 0"); }
            2 => { let mut r = Rec::new(); Aligned::C(g[0], w(1)).trace(&mut r); assert!(eq(&r, &[p[0]], &[p[1]]), "[trace] enum: a variant without require_static is traced in full whatever its siblings exempt"); }
            3 => { let mut r = Rec::new(); Aligned::D(Opaque(1)).trace(&mut r); assert!(eq(&r, &[], &[]), "[trace] enum: an all-static variant reports nothing"); }
            4 => { let mut r = Rec::new(); StaticOrPtr::P(g[0]).trace(&mut r); assert!(eq(&r, &[p[0]], &[]), "[trace] two-variant enum: pointer at the position a sibling exempts"); }
            _ => { let mut r = Rec::new(); StaticOrPtr::S { s: Opaque(1) }.trace(&mut r); assert!(eq(&r, &[], &[])); }
        }
        assert!(nt::<Aligned>() && nt::<StaticOrPtr>(), "[trace] NEEDS_TRACE counts every non-exempt field of every variant");
        assert!(!nt::<StaticOrPlain>(), "[trace] NEEDS_TRACE is false when every field is exempt or plain");
        core::mem::forget(cx);
    }
}

// ---- fields whose types share the outer type constructor but differ in generic arguments (Option<u32> next to Option<Gc>): NEEDS_TRACE is
// the disjunction over every traced field TYPE, generic arguments included, whatever the order of the fields or variants
#[derive(crate::Collect)] #[collect(no_drop)] struct SameOuter<'gc> { n: Option<u32>, p: Option<G<'gc>> }
#[derive(crate::Collect)] #[collect(no_drop)] struct SameOuterRev<'gc>(Option<W<'gc>>, Option<u8>, Option<u8>);
#[derive(crate::Collect)] #[collect(no_drop)] enum SameOuterEnum<'gc> { N(Option<u8>), B(Box<u8>), P(Box<G<'gc>>), Q(Option<G<'gc>>) }
#[derive(crate::Collect)] #[collect(no_drop)] struct SameOuterPlain { a: Option<u8>, b: Option<u32> }
#[kani::proof]
#[kani::unwind(6)]
fn k_derive_same_outer_type() {
    unsafe {
        let cx = Context::new(); let mc = cx.mutation_context();
        let g = [Gc::new(mc, 0u8), Gc::new(mc, 1u8)]; let p = [a(g[0]), a(g[1])];
        match kani::any::<u8>() % 4 {
            0 => { let mut r = Rec::new(); SameOuter { n: Some(1), p: Some(g[0]) }.trace(&mut r); assert!(eq(&r, &[p[0]], &[]), "[trace] Option<Gc> after Option<u32>"); }
            1 => { let mut r = Rec::new(); SameOuterRev(Some(Gc::downgrade(g[1])), None, Some(2)).trace(&mut r); assert!(eq(&r, &[], &[p[1]]), "[trace] Option<GcWeak> before Option<u8>"); }
            2 => { let mut r = Rec::new(); SameOuterEnum::Q(Some(g[1])).trace(&mut r); assert!(eq(&r, &[p[1]], &[]), "[trace] enum: Option<Gc> in a later variant than Option<u8>"); }
            _ => { let mut r = Rec::new(); let b = SameOuterEnum::P(Box::new(g[0])); b.trace(&mut r); assert!(eq(&r, &[p[0]], &[]), "[trace] enum: Box<Gc> in a later variant than Box<u8>"); core::mem::forget(b); }
        }
        assert!(nt::<SameOuter>() && nt::<SameOuterRev>() && nt::<SameOuterEnum>(), "[trace] NEEDS_TRACE looks at the whole field type, generic arguments included");
        assert!(!nt::<SameOuterPlain>(), "[trace] NEEDS_TRACE is false when no field type needs tracing");
        core::mem::forget(cx);
    }
}
