//! Layer K harnesses for src/arena.rs (child module: sees Arena.context / Arena.root).
//! Rows K.path.*: every sanctioned store path named in C06, through the REAL public API on a real Arena, over all
//! (phase x parent colour/flags x child colour/flags x counters), establishes the ghost precondition the lemma layer consumes
//! (can_adopt*, root flag), never panics, and changes nothing but collector bookkeeping; a second arena is present and unchanged (C20).
//! Rows K.api.*: each Arena collection method passes the documented (RunUntil, Stop) pair and maps the phase test to Some/None (C08).
extern crate std;
use super::*;
use crate::context::verif_kani::*;
use crate::context::{Phase, RunUntil, Stop};
use crate::metrics::verif_kani::{get_counters, Counters};
use crate::gc::Gc;
use crate::gc_ptr::GcPtr;
use crate::gc_weak::GcWeak;
use crate::lock::{Lock, OnceLock, RefLock};
use crate::types::GcColor;
use crate::dynamic_roots::DynamicRootSet;

pub(crate) fn ctx<R: for<'a> Rootable<'a>>(a: &Arena<R>) -> &Context { &a.context }
pub(crate) fn ctx_mut<R: for<'a> Rootable<'a>>(a: &mut Arena<R>) -> &mut Context { &mut a.context }

type Child<'gc> = Gc<'gc, u8>;
#[derive(crate::Collect)]
#[collect(no_drop)]
struct Root<'gc> {
    lock: Gc<'gc, Lock<Option<Child<'gc>>>>,
    cell: Gc<'gc, RefLock<Option<Child<'gc>>>>,
    once: Gc<'gc, OnceLock<Child<'gc>>>,
    node: Gc<'gc, Node<'gc>>,
    plain: Gc<'gc, RefLock<i32>>,          // a parent whose type needs no tracing
    slot: Option<Child<'gc>>,              // a root field (mutate_root)
    wlock: Gc<'gc, Lock<Option<GcWeak<'gc, u8>>>>,   // a lock that holds a WEAK pointer
}
#[derive(crate::Collect)]
#[collect(no_drop)]
struct Node<'gc> { f: Lock<Option<Child<'gc>>>, w: Lock<Option<GcWeak<'gc, u8>>> }

fn new_arena() -> Arena<Rootable![Root<'_>]> {
    Arena::new(|mc| Root {
        lock: Gc::new(mc, Lock::new(None)), cell: Gc::new(mc, RefLock::new(None)), once: Gc::new(mc, OnceLock::new()),
        node: Gc::new(mc, Node { f: Lock::new(None), w: Lock::new(None) }), plain: Gc::new(mc, RefLock::new(0)), slot: None, wlock: Gc::new(mc, Lock::new(None)),
    })
}

/// arbitrary collector state around one parent: phase, counters (projection of I-count), parent header bits
fn sym_state(arena: &mut Arena<Rootable![Root<'_>]>, parent: GcPtr) -> (Phase, Snap, Counters) {
    let ph = any_phase();
    cx_set_phase(ctx_mut(arena), ph);
    let h = parent.header();
    h.set_color(any_color()); h.set_live(true);                    // a parent a callback can reach is live (I-safe)
    let sp = snap(parent);
    kani::assume(ph == Phase::Mark || sp.color != GcColor::Gray);  // I-colour: Gray only while marking
    let c = sym_counters(ctx(arena));
    kani::assume(!(ph == Phase::Mark && sp.color == GcColor::Black && sp.nt) || c.traced >= 1);   // I-count
    (ph, sp, c)
}
fn sym_child<'gc>(mc: &Mutation<'gc>) -> (Child<'gc>, Snap) {
    let ch = Gc::new(mc, 7u8);
    let p = ch.ptr.erase();
    p.header().set_color(any_color());
    let s = snap(p);
    kani::assume(s.color != GcColor::Gray);                         // a u8 needs no tracing: never queued by tracing
    (ch, s)
}
fn bookkeeping_only(c0: &Counters, c1: &Counters) -> bool {
    // the store itself allocates one child; nothing is released or destructed, sweep counters untouched
    c1.total == c0.total + 1 && c1.allocated == c0.allocated + 1 && c1.dropped == c0.dropped && c1.freed == c0.freed && c1.remembered == c0.remembered
}

macro_rules! path_harness {
    ($name:ident, $parent:ident, |$mc:ident, $root:ident, $child:ident| $store:block) => {
        #[kani::proof]
        fn $name() {
            let other = other_arena();
            let mut arena = new_arena();
            let parent = arena.mutate(|_, r| Gc::erase(r.$parent).ptr);
            let (ph, sp0, c0) = sym_state(&mut arena, parent);
            let sc1 = arena.mutate(|$mc, $root| {
                let ($child, sc0) = sym_child($mc);
                { $store };
                let sc1 = snap($child.ptr.erase());
                assert!(sc1 == sc0, "[frame] a backward-barrier path never touches the adopted child");
                sc1
            });
            let sp1 = snap(parent);
            let c1 = get_counters(cx_metrics(ctx(&arena)));
            assert!(can_adopt_any(ph, sp1) && can_adopt(ph, sp1, sc1), "[adopt] after the sanctioned path the parent may hold the pointer");
            assert!(sp1.live == sp0.live && sp1.nt == sp0.nt && sp1.next == sp0.next, "[frame] only the parent's colour may change");
            assert!(sp1.color == sp0.color || (ph == Phase::Mark && sp0.color == GcColor::Black && sp1.color == GcColor::Gray), "[rel]");
            assert!(bookkeeping_only(&c0, &c1), "[frame] nothing but collector bookkeeping changes");
            assert!(c1.marked == c0.marked && (c1.traced == c0.traced || (sp1.color != sp0.color && c1.traced + 1 == c0.traced)), "[metrics]");
            assert!(cx_phase(ctx(&arena)) == ph, "[frame] a callback never changes the phase");
            assert!(other_unchanged(&other), "[frame] another arena on the same thread is untouched (C20)");
            kani::cover!(ph == Phase::Mark && sp0.color == GcColor::Black && sc1.color == GcColor::White);
            core::mem::forget(arena); core::mem::forget(other);
        }
    };
}

path_harness!(k_path_gc_write_field_unlock_set, node, |mc, root, child| {
    crate::barrier::unlock!(Gc::write(mc, root.node), Node, f).set(Some(child));
});
path_harness!(k_path_gc_unlock, lock, |mc, root, child| { root.lock.unlock(mc).set(Some(child)); });
path_harness!(k_path_lock_set, lock, |mc, root, child| { root.lock.set(mc, Some(child)); });
// the same setters adopting a WEAK pointer (the barrier must not depend on what kind of pointer the new value holds)
path_harness!(k_path_lock_set_weak, wlock, |mc, root, child| { root.wlock.set(mc, Some(Gc::downgrade(child))); });
path_harness!(k_path_gc_write_field_unlock_set_weak, node, |mc, root, child| {
    crate::barrier::unlock!(Gc::write(mc, root.node), Node, w).set(Some(Gc::downgrade(child)));
});
path_harness!(k_path_reflock_borrow_mut, cell, |mc, root, child| { *root.cell.borrow_mut(mc) = Some(child); });
path_harness!(k_path_reflock_try_borrow_mut, cell, |mc, root, child| { *root.cell.try_borrow_mut(mc).unwrap() = Some(child); });
path_harness!(k_path_oncelock_set, once, |mc, root, child| { let r = root.once.set(mc, child); assert!(r.is_ok()); });
path_harness!(k_path_oncelock_get_or_init, once, |mc, root, child| { let v = root.once.get_or_init(mc, || child); assert!(Gc::ptr_eq(*v, child)); });

/// C10 / C06: a write barrier applied to an object whose type needs no tracing: no panic, no underflow, nothing changes
#[kani::proof]
fn k_path_barrier_on_non_tracing_parent() {
    let mut arena = new_arena();
    let parent = arena.mutate(|_, r| Gc::erase(r.plain).ptr);
    let (ph, sp0, c0) = sym_state(&mut arena, parent);
    assert!(!sp0.nt);
    arena.mutate(|mc, root| { *root.plain.borrow_mut(mc) = 2; });
    let sp1 = snap(parent);
    let c1 = get_counters(cx_metrics(ctx(&arena)));
    assert!(sp1 == sp0, "[rel] a non-tracing parent is left alone");
    assert!(c1.traced == c0.traced && c1.marked == c0.marked && c1.total == c0.total && c1.allocated == c0.allocated, "[metrics] no counter moves");
    assert!(cx_phase(ctx(&arena)) == ph);
    kani::cover!(ph == Phase::Mark && sp0.color == GcColor::Black && c0.traced == 0);
    core::mem::forget(arena);
}

/// the four explicit Mutation barriers, each optional argument given or omitted, through the public typed API
fn k_path_mutation_barriers_impl(lo: u8, hi: u8) {
    let other = other_arena();
    let mut arena = new_arena();
    let parent = arena.mutate(|_, r| Gc::erase(r.node).ptr);
    let (ph, sp0, c0) = sym_state(&mut arena, parent);
    let form: u8 = kani::any(); kani::assume(form >= lo && form < hi);
    let (sc0, sc1) = arena.mutate(|mc, root| {
        let (child, sc0) = sym_child(mc);
        let p = Gc::erase(root.node); let c = Gc::erase(child); let w = GcWeak::erase(Gc::downgrade(child));
        match form {
            0 => mc.backward_barrier(p, None), 1 => mc.backward_barrier(p, Some(c)), 2 => mc.backward_barrier_weak(p, w),
            3 => mc.forward_barrier(None, c), 4 => mc.forward_barrier(Some(p), c),
            5 => mc.forward_barrier_weak(None, w), _ => mc.forward_barrier_weak(Some(p), w),
        }
        (sc0, snap(child.ptr.erase()))
    });
    let sp1 = snap(parent);
    let c1 = get_counters(cx_metrics(ctx(&arena)));
    match form {
        0 => assert!(can_adopt_any(ph, sp1), "[adopt]"), 1 => assert!(can_adopt(ph, sp1, sc1), "[adopt]"), 2 => assert!(can_adopt_weak(ph, sp1, sc1), "[adopt]"),
        3 => assert!(adoptable_by_any(ph, sc1), "[adopt]"), 4 => assert!(can_adopt(ph, sp1, sc1), "[adopt]"),
        5 => assert!(adoptable_by_any_weak(ph, sc1), "[adopt]"), _ => assert!(can_adopt_weak(ph, sp1, sc1), "[adopt]"),
    }
    if form < 3 { assert!(sc1 == sc0, "[frame]"); } else { assert!(sp1 == sp0, "[frame]"); }
    assert!(bookkeeping_only(&c0, &c1) && cx_phase(ctx(&arena)) == ph, "[frame]");
    // C10: no barrier lowers the debt except by marking the child (forward barriers: known finding F3)
    if form < 3 { assert!(c1.marked == c0.marked && c1.traced <= c0.traced, "[metrics] backward barriers never earn credit"); }
    assert!(other_unchanged(&other), "[frame] another arena on the same thread is untouched (C20)");
    kani::cover!(sp1 != sp0 || sc1.color != sc0.color);
    core::mem::forget(arena); core::mem::forget(other);
}
#[kani::proof]
fn k_path_mutation_backward_barriers() { k_path_mutation_barriers_impl(0, 3) }
#[kani::proof]
fn k_path_mutation_forward_barriers() { k_path_mutation_barriers_impl(3, 5) }
#[kani::proof]
fn k_path_mutation_forward_weak_barriers() { k_path_mutation_barriers_impl(5, 7) }

/// root replacement: mutate_root / map_root / try_map_root flag the root for re-tracing before the callback runs
#[kani::proof]
fn k_path_root_mutation() {
    let mut arena = new_arena();
    let ph = any_phase();
    cx_set_phase(ctx_mut(&mut arena), ph);
    let f0: bool = kani::any();
    kani::assume(ph != Phase::Sleep || f0);          // I-colour: asleep => root flagged
    cx_set_root_flag(ctx_mut(&mut arena), f0);
    let c0 = sym_counters(ctx(&arena));
    let which: u8 = kani::any(); kani::assume(which < 3);
    let ok = |cx: &Context| ph != Phase::Mark || cx_root_flag(cx);
    match which {
        0 => {
            arena.mutate_root(|mc, root| {
                // C11: the flag must already be set when the callback starts - a callback that stores a pointer and then panics leaves no later chance
                assert!(ph != Phase::Mark || cx_root_flag(mc_cx(mc)), "[order] while marking the root is flagged BEFORE the callback runs");
                root.slot = Some(Gc::new(mc, 1u8));
            });
            assert!(ok(ctx(&arena)), "[adopt] the root may hold new pointers: it is flagged for re-tracing while marking");
            assert!(cx_phase(ctx(&arena)) == ph && cx_root_flag(ctx(&arena)) == (f0 || ph == Phase::Mark), "[frame]");
            let c1 = get_counters(cx_metrics(ctx(&arena)));
            assert!(c1.total == c0.total + 1 && c1.marked == c0.marked && c1.traced == c0.traced && c1.freed == c0.freed && c1.dropped == c0.dropped, "[frame]");
            core::mem::forget(arena);
        }
        1 => {
            let a2 = arena.map_root::<Rootable![Gc<'_, u8>]>(|mc, _old| {
                assert!(ph != Phase::Mark || cx_root_flag(mc_cx(mc)), "[order] while marking the root is flagged BEFORE the callback runs");
                Gc::new(mc, 2u8)
            });
            assert!(ok(ctx(&a2)) && cx_phase(ctx(&a2)) == ph, "[adopt]");
            core::mem::forget(a2);
        }
        _ => {
            let r = arena.try_map_root::<Rootable![Gc<'_, u8>], ()>(|mc, _old| {
                assert!(ph != Phase::Mark || cx_root_flag(mc_cx(mc)), "[order] while marking the root is flagged BEFORE the callback runs");
                Ok(Gc::new(mc, 3u8))
            });
            let a2 = match r { Ok(a) => a, Err(_) => unreachable!() };
            assert!(ok(ctx(&a2)) && cx_phase(ctx(&a2)) == ph, "[adopt]");
            core::mem::forget(a2);
        }
    }
    kani::cover!(ph == Phase::Mark && !f0);
}

// ------------------------------------------------------------------------------------------- K.api.* (C08): argument and result mapping of the Arena methods
static mut REC: Option<(RunUntil, Stop)> = None;
static mut REC_PHASE: Phase = Phase::Sleep;
static mut REC_FLAG: bool = false;
/// recorder standing for the driver (whose table is proved by Verus on the extracted body): remembers the arguments, then puts the
/// context into an arbitrary state
unsafe fn stub_do_collection<'gc, R: Collect<'gc> + ?Sized>(cx: &mut Context, _root: &R, run_until: RunUntil, stop: Stop) {
    unsafe { REC = Some((run_until, stop)); }
    let ph = any_phase(); let f: bool = kani::any();
    cx_set_phase(cx, ph); cx_set_root_flag(cx, f);
    unsafe { REC_PHASE = ph; REC_FLAG = f; }
}

#[kani::proof]
#[kani::stub(crate::context::Context::do_collection, stub_do_collection)]
fn k_api_collection_methods() {
    let mut arena = Arena::<Rootable![()]>::new(|_| ());
    let which: u8 = kani::any(); kani::assume(which < 6);
    unsafe {
        match which {
            0 => { arena.collect_debt(); assert!(REC == Some((RunUntil::PayDebt, Stop::Full)), "[phase] collect_debt = (PayDebt, Full)"); }
            1 => {
                let some = arena.mark_debt().is_some();
                assert!(REC == Some((RunUntil::PayDebt, Stop::FullyMarked)), "[phase] mark_debt = (PayDebt, FullyMarked)");
                assert!(some == (REC_PHASE == Phase::Mark && !REC_FLAG), "[phase] mark_debt returns a MarkedArena exactly when it ends Marked");
            }
            2 => {
                let some = arena.finish_marking().is_some();
                assert!(REC == Some((RunUntil::Stop, Stop::FullyMarked)), "[phase] finish_marking = (Stop, FullyMarked)");
                assert!(some == (REC_PHASE == Phase::Mark && !REC_FLAG), "[phase] finish_marking returns a MarkedArena exactly when the arena is Marked");
            }
            3 => { arena.cycle_debt(); assert!(REC == Some((RunUntil::PayDebt, Stop::FinishCycle)), "[phase] cycle_debt = (PayDebt, FinishCycle)"); }
            4 => { arena.finish_cycle(); assert!(REC == Some((RunUntil::Stop, Stop::FinishCycle)), "[phase] finish_cycle = (Stop, FinishCycle)"); }
            _ => {
                // collection_phase reports Marking vs Marked from pending work
                let ph = any_phase(); let f: bool = kani::any();
                cx_set_phase(ctx_mut(&mut arena), ph); cx_set_root_flag(ctx_mut(&mut arena), f);
                let cp = arena.collection_phase();
                assert!(cp == match ph { Phase::Sleep => CollectionPhase::Sleeping, Phase::Sweep => CollectionPhase::Sweeping,
                    Phase::Mark => if f { CollectionPhase::Marking } else { CollectionPhase::Marked }, Phase::Drop => unreachable!() }, "[phase]");
            }
        }
    }
    core::mem::forget(arena);
}

/// start_sweeping passes (Stop, AtSweep) (driver stubbed by a recorder that performs the transition the driver is proved to make)
unsafe fn stub_dc_to_sweep<'gc, R: Collect<'gc> + ?Sized>(cx: &mut Context, _root: &R, run_until: RunUntil, stop: Stop) {
    unsafe { REC = Some((run_until, stop)); }
    if run_until == RunUntil::Stop && stop == Stop::AtSweep { cx_set_phase(cx, Phase::Sweep); }
}
#[kani::proof]
#[kani::stub(crate::context::Context::do_collection, stub_dc_to_sweep)]
fn k_api_start_sweeping() {
    let mut arena = Arena::<Rootable![()]>::new(|_| ());
    cx_set_phase(ctx_mut(&mut arena), Phase::Mark);
    MarkedArena(&mut arena).start_sweeping();
    unsafe { assert!(REC == Some((RunUntil::Stop, Stop::AtSweep)), "[phase] start_sweeping = (Stop, AtSweep)"); }
    assert!(cx_phase(ctx(&arena)) == Phase::Sweep, "[phase] start_sweeping ends Sweeping");
    core::mem::forget(arena);
}

// ------------------------------------------------------------------------------------------- failed constructors (C11, C04)
static mut FD: [u8; 3] = [0; 3];
struct DropTok(usize);
impl Drop for DropTok { fn drop(&mut self) { unsafe { FD[self.0] += 1; } } }
unsafe impl<'gc> crate::Collect<'gc> for DropTok { const NEEDS_TRACE: bool = false; }

/// A failed Arena::try_new / try_map_root releases everything that was allocated: every value allocated before the failure is destructed
/// exactly once (and its block released: Kani checks the deallocation), in whichever collector phase the arena was.
#[kani::proof]
#[kani::unwind(5)]
fn k_api_failed_constructors_release_everything() {
    unsafe { FD = [0; 3]; }
    let which: bool = kani::any();
    if which {
        let r = Arena::<Rootable![Gc<'_, DropTok>]>::try_new::<_, u8>(|mc| { let _a = Gc::new(mc, DropTok(0)); let _b = Gc::new(mc, DropTok(1)); Err(9) });
        assert!(matches!(r, Err(9)), "[api] the error is handed back");
        unsafe { assert!(FD[0] == 1 && FD[1] == 1 && FD[2] == 0, "[heap] a failed try_new destructs every value allocated by the callback exactly once"); }
    } else {
        let mut arena = Arena::<Rootable![Gc<'_, DropTok>]>::new(|mc| Gc::new(mc, DropTok(0)));
        let ph = any_phase();
        cx_set_phase(ctx_mut(&mut arena), ph);
        if ph == Phase::Sleep { cx_set_root_flag(ctx_mut(&mut arena), true); }
        let r = arena.try_map_root::<Rootable![Gc<'_, DropTok>], u8>(|mc, _old| { let _b = Gc::new(mc, DropTok(1)); Err(7) });
        assert!(matches!(r, Err(7)), "[api] the error is handed back");
        unsafe { assert!(FD[0] == 1 && FD[1] == 1 && FD[2] == 0, "[heap] a failed try_map_root destructs the old root's values and the new allocations exactly once"); }
    }
}
