//! Layer K harnesses for src/zst_cache.rs (C19): the shared pointer is handed out only for zero-sized types whose alignment fits.
extern crate std;
use super::*;
use crate::context::Context;

#[repr(align(1))] #[derive(Clone, Copy, Default)] struct Z1;
#[repr(align(4))] #[derive(Clone, Copy, Default)] struct Z4;
#[repr(align(8))] #[derive(Clone, Copy, Default)] struct Z8;
#[repr(align(16))] #[derive(Clone, Copy, Default)] struct Z16;
#[repr(align(32))] #[derive(Clone, Copy, Default)] struct Z32;

fn probe<'gc, const A: usize, T: 'static + Copy + Default>(c: &ZstCache<'gc, A>, mc: &crate::Mutation<'gc>) where Alignment<A>: ValidAlignment {
    let should = mem::size_of::<T>() == 0 && mem::align_of::<T>() <= A;
    let p = c.alloc_static(mc, T::default());
    assert!((Gc::as_ptr(p) as usize) % mem::align_of::<T>() == 0, "[conv] the returned pointer is aligned for T");
    if c.is_cached(p) { assert!(should, "[conv] the shared pointer is returned ONLY for zero-sized types whose alignment does not exceed the cache's"); }
    // (that the cache IS used for every fitting type is an optimisation, not part of C19: a more cautious cache keeps the property)
    if c.is_cached(p) { assert!(Gc::ptr_eq(Gc::erase(p), c.cached_ptr()), "[conv] a cached allocation is ptr_eq to the shared pointer"); }
}

#[kani::proof]
fn k_zst_cache_only_fitting_zsts() {
    unsafe {
        let cx = Context::new();
        let mc = cx.mutation_context();
        match kani::any::<u8>() % 3 {
            0 => { let c = ZstCache::<1>::new(mc); probe::<1, Z1>(&c, mc); kani::cover!(c.is_cached(c.alloc_static(mc, Z1))); probe::<1, Z4>(&c, mc); probe::<1, Z16>(&c, mc); probe::<1, u8>(&c, mc); }
            1 => { let c = ZstCache::<8>::new(mc); probe::<8, Z4>(&c, mc); probe::<8, Z8>(&c, mc); probe::<8, Z16>(&c, mc); probe::<8, Z32>(&c, mc); probe::<8, u64>(&c, mc); }
            _ => { let c = ZstCache::<16>::new(mc); probe::<16, Z16>(&c, mc); probe::<16, Z32>(&c, mc); probe::<16, Z1>(&c, mc); }
        }
        core::mem::forget(cx);
    }
}

/// the cached pointer is aligned to MAX_ALIGN (what makes handing it out for smaller alignments sound)
#[kani::proof]
fn k_zst_cache_pointer_alignment() {
    unsafe {
        let cx = Context::new();
        let mc = cx.mutation_context();
        let c32 = ZstCache::<32>::new(mc);
        assert!((Gc::as_ptr(c32.cached_ptr()) as usize) % 32 == 0, "[conv] the cached pointer is aligned to MAX_ALIGN");
        let c1 = ZstCache::<1>::new(mc);
        let _ = c1.cached_ptr();
        core::mem::forget(cx);
    }
}
