// ---- 52_lem_exact.rs (hand-written, fixed; proof only) -----------------------------------------
// T-exact (C02): one atomic full cycle started from Sleep, with no mutation in between (one call of the driver), leaves
// exactly the values strongly reachable from the root undestructed.  `a` is the state in which the call started; R = reach(a, .).
//   Mark : everything marked is in R (tracing only follows pointers of marked objects); the graph is the one of `a`;
//   Sweep: at / behind the cursor an object is Black iff in R; in front of it an object is live iff in R; nothing in R is released.
verus! {
pub mod lem_exact {
use vstd::prelude::*;
use core::ops::ControlFlow;
use super::spec::*;
use super::inv::*;
use super::lem_basic::*;
use super::lem_mark::*;
use super::lem_sweep::*;
use super::lem_mut::*;
use super::theorems::*;
use super::{GcPtr, GcColor, Phase};

/// some pointer (of either strength) held by the root or by a strongly reachable object refers to p
pub open spec fn pointed(a: S, p: GcPtr) -> bool {
    ||| exists|k: int| 0 <= k < a.root_edges.len() && (#[trigger] a.root_edges[k]).to == p
    ||| exists|q: GcPtr, k: int| #![trigger a.edges[q][k]] reach(a, q) && 0 <= k < a.edges[q].len() && a.edges[q][k].to == p
}
pub open spec fn kept_ok(a: S, p: GcPtr) -> bool { reach(a, p) || pointed(a, p) }

pub open spec fn exact_w(a: S, b: S, l: Seq<GcPtr>, cur: int) -> bool {
    &&& forall|p: GcPtr| reach(a, p) ==> #[trigger] isobj(b, p)
    // shells: whatever is marked in any way is referred to by the root or by a reachable object
    &&& (b.phase == Phase::Mark ==> forall|p: GcPtr| #[trigger] isobj(b, p) && b.objs[p].color != GcColor::White ==> kept_ok(a, p))
    &&& (b.phase == Phase::Sweep ==> (forall|i: int| cur <= i < l.len() && (#[trigger] b.objs[l[i]]).color != GcColor::White ==> kept_ok(a, l[i]))
            && (forall|i: int| 0 <= i < cur ==> kept_ok(a, #[trigger] l[i])))
    &&& (b.phase == Phase::Mark ==> b.edges =~= a.edges && b.root_edges =~= a.root_edges
            && forall|p: GcPtr| #[trigger] isobj(b, p) && is_marked(b.objs[p].color) ==> reach(a, p))
    &&& (b.phase == Phase::Sweep ==> (forall|i: int| cur <= i < l.len() ==> ((#[trigger] b.objs[l[i]]).color == GcColor::Black <==> reach(a, l[i])))
            && (forall|i: int| 0 <= i < cur ==> ((#[trigger] b.objs[l[i]]).live <==> reach(a, l[i]))))
}
pub open spec fn exact_x(a: S, b: S) -> bool { exists|l: Seq<GcPtr>, cur: int| #[trigger] inv_w(b, l, cur) && exact_w(a, b, l, cur) }
/// the statement of C02 for the state after the cycle: undestructed == strongly reachable, nothing reachable missing
/// the shell clause of C02: every allocation still counted is reachable or referred to by a pointer of a reachable object
pub open spec fn exact_final_shells(a: S, b: S) -> bool { forall|p: GcPtr| #[trigger] isobj(b, p) ==> kept_ok(a, p) }
pub open spec fn exact_final(a: S, b: S) -> bool {
    // nothing is retained conservatively ...
    &&& forall|p: GcPtr| #[trigger] isobj(b, p) && b.objs[p].live ==> reach(a, p)
    // ... and nothing reachable is lost
    &&& forall|p: GcPtr| #[trigger] reach(a, p) ==> isobj(b, p) && b.objs[p].live
}

pub proof fn lemma_reach_step(a: S, q: GcPtr, k: int)
    requires reach(a, q), 0 <= k < a.edges[q].len(), !a.edges[q][k].weak
    ensures reach(a, a.edges[q][k].to)
{
    let n = choose|n: nat| reach_n(a, q, n);
    assert(reach_n(a, a.edges[q][k].to, n + 1));
}
pub proof fn lemma_reach_root(a: S, k: int)
    requires 0 <= k < a.root_edges.len(), !a.root_edges[k].weak
    ensures reach(a, a.root_edges[k].to)
{
    assert(reach_n(a, a.root_edges[k].to, 0));
}

// ---- Sleep -> Mark
pub proof fn lemma_x_wake(a: S, post: S, l: Seq<GcPtr>, cur: int)
    requires inv_w(a, l, cur), a.phase == Phase::Sleep, switch_rel(a, post, Phase::Mark),
    ensures inv_w(post, l, cur), exact_w(a, post, l, cur)
{
    lemma_wake_inv(a, post, l, cur);
    assert forall|p: GcPtr| reach(a, p) implies #[trigger] isobj(post, p) by {
        let n = choose|n: nat| reach_n(a, p, n); lemma_reach_prot(a, l, cur, p, n);
    }
}

// ---- marking: newly marked objects are targets of strong edges of a marked (hence reachable) object or of the root
pub proof fn lemma_x_marks(a: S, pre: S, post: S, es: Seq<Edge>, src: Option<GcPtr>)
    requires marks_rel(pre, post, es), pre.edges =~= a.edges, pre.root_edges =~= a.root_edges,
        match src { Some(p) => es == a.edges[p] && reach(a, p), None => es == a.root_edges },
        forall|p: GcPtr| #[trigger] isobj(pre, p) && is_marked(pre.objs[p].color) && Some(p) != src ==> reach(a, p),
        forall|p: GcPtr| reach(a, p) ==> #[trigger] isobj(pre, p),
        forall|p: GcPtr| #[trigger] isobj(pre, p) && pre.objs[p].color != GcColor::White ==> kept_ok(a, p),
    ensures post.edges =~= a.edges && post.root_edges =~= a.root_edges,
        forall|p: GcPtr| #[trigger] isobj(post, p) && is_marked(post.objs[p].color) ==> reach(a, p),
        forall|p: GcPtr| reach(a, p) ==> #[trigger] isobj(post, p),
        forall|p: GcPtr| #[trigger] isobj(post, p) && post.objs[p].color != GcColor::White ==> kept_ok(a, p),
{
    assert(post.objs.dom() =~= pre.objs.dom());
    assert forall|q: GcPtr| #[trigger] isobj(post, q) && post.objs[q].color != GcColor::White implies kept_ok(a, q) by {
        assert(isobj(pre, q));
        if pre.objs[q].color != post.objs[q].color {
            assert(targets(es, q));
            let k = choose|k: int| 0 <= k < es.len() && (#[trigger] es[k]).to == q;
            match src { Some(p) => { assert(a.edges[p][k].to == q); assert(pointed(a, q)); } None => { assert(a.root_edges[k].to == q); assert(pointed(a, q)); } }
        }
    }
    assert forall|q: GcPtr| #[trigger] isobj(post, q) && is_marked(post.objs[q].color) implies reach(a, q) by {
        assert(isobj(pre, q));
        if pre.objs[q].color != post.objs[q].color {
            assert(starget(es, q));
            let k = choose|k: int| 0 <= k < es.len() && (#[trigger] es[k]).to == q && !es[k].weak;
            match src { Some(p) => { lemma_reach_step(a, p, k); } None => { lemma_reach_root(a, k); } }
        } else if Some(q) == src { }
    }
    assert forall|p: GcPtr| reach(a, p) implies #[trigger] isobj(post, p) by { assert(isobj(pre, p)); }
}

pub proof fn lemma_x_mark_one(a: S, pre: S, post: S, r: ControlFlow<()>, l: Seq<GcPtr>, cur: int)
    requires inv_w(pre, l, cur), exact_w(a, pre, l, cur), pre.phase == Phase::Mark, mark_one_rel(pre, post, r),
    ensures inv_w(post, l, cur), exact_w(a, post, l, cur)
{
    if pre.gray.len() > 0 || pre.gray_again.len() > 0 {
        let fg = mark_obj_rel(pre, post, true);
        let p = taken(pre, fg); let mid = black_state(pre, fg);
        lemma_mark_obj_inv(pre, post, fg, l, cur);
        lemma_black_state(pre, fg, l, cur);
        assert(reach(a, p));
        assert(mid.objs.dom() =~= pre.objs.dom());
        assert forall|q: GcPtr| #[trigger] isobj(mid, q) && is_marked(mid.objs[q].color) && Some(q) != Some(p) implies reach(a, q) by { assert(isobj(pre, q)); assert(mid.objs[q] == pre.objs[q]); }
        assert forall|q: GcPtr| reach(a, q) implies #[trigger] isobj(mid, q) by { assert(isobj(pre, q)); }
        assert forall|q: GcPtr| #[trigger] isobj(mid, q) && mid.objs[q].color != GcColor::White implies kept_ok(a, q) by { assert(isobj(pre, q)); if q != p { assert(mid.objs[q] == pre.objs[q]); } }
        lemma_x_marks(a, mid, post, pre.edges[p], Some(p));
    } else if pre.root_needs_trace {
        lemma_mark_root_inv(pre, post, l, cur);
        let mid = S { root_needs_trace: pre.root_needs_trace, ..post };
        lemma_x_marks(a, pre, mid, pre.root_edges, None);
        assert forall|q: GcPtr| #[trigger] isobj(post, q) && is_marked(post.objs[q].color) implies reach(a, q) by { assert(isobj(mid, q)); }
        assert forall|q: GcPtr| reach(a, q) implies #[trigger] isobj(post, q) by { assert(isobj(mid, q)); }
        assert forall|q: GcPtr| #[trigger] isobj(post, q) && post.objs[q].color != GcColor::White implies kept_ok(a, q) by { assert(isobj(mid, q)); }
    } else {
        lemma_same_inv(pre, post, l, cur);
    }
}

// ---- Mark -> Sweep: with nothing gray and the root traced, Black == R
pub proof fn lemma_x_enter_sweep(a: S, pre: S, mid: S, post: S, l: Seq<GcPtr>, cur: int)
    requires inv_w(pre, l, cur), exact_w(a, pre, l, cur), pre.phase == Phase::Mark, !gray_remaining_spec(pre), quiescent(pre), a.stack =~= Set::empty(),
        switch_rel(pre, mid, Phase::Sweep), post == (S { sweep: mid.all, ..mid }),
    ensures inv_w(post, l, 0), exact_w(a, post, l, 0)
{
    lemma_enter_sweep_inv(pre, mid, post, l, cur);
    lemma_index_all(l);
    assert(post.objs =~= pre.objs);
    assert forall|q: GcPtr| qcount(pre, q) == 0 by { lemma_count_empty(pre.gray, q); lemma_count_empty(pre.gray_again, q); }
    // R  =>  Black : T-mark on the graph of `pre`, which is the graph of `a`
    assert forall|i: int| 0 <= i < l.len() implies ((#[trigger] post.objs[l[i]]).color == GcColor::Black <==> reach(a, l[i])) by {
        let p = l[i];
        assert(l.contains(p)); assert(isobj(pre, p));
        if reach(a, p) {
            let n = choose|n: nat| reach_n(a, p, n);
            lemma_reach_same_graph(a, pre, p, n);
            lemma_marked_reach(pre, l, cur, p, n);
        }
        if pre.objs[p].color == GcColor::Black { assert(is_marked(pre.objs[p].color)); }
    }
    assert forall|p: GcPtr| reach(a, p) implies #[trigger] isobj(post, p) by { assert(isobj(pre, p)); }
    assert forall|i: int| 0 <= i < l.len() && (#[trigger] post.objs[l[i]]).color != GcColor::White implies kept_ok(a, l[i]) by {
        assert(l.contains(l[i])); assert(isobj(pre, l[i]));
    }
}
pub proof fn lemma_reach_same_graph(a: S, b: S, p: GcPtr, n: nat)
    requires reach_n(a, p, n), b.edges =~= a.edges, b.root_edges =~= a.root_edges, b.stack =~= a.stack
    ensures reach_n(b, p, n)
    decreases n
{
    if n == 0 {
        if !a.stack.contains(p) {
            let k = choose|k: int| 0 <= k < a.root_edges.len() && !(#[trigger] a.root_edges[k]).weak && a.root_edges[k].to == p;
            assert(!b.root_edges[k].weak && b.root_edges[k].to == p);
        }
    } else if reach_n(a, p, (n - 1) as nat) {
        lemma_reach_same_graph(a, b, p, (n - 1) as nat);
    } else {
        let (q, k) = choose|q: GcPtr, k: int| #![trigger a.edges[q][k]] reach_n(a, q, (n - 1) as nat) && 0 <= k < a.edges[q].len() && !a.edges[q][k].weak && a.edges[q][k].to == p;
        lemma_reach_same_graph(a, b, q, (n - 1) as nat);
        assert(b.edges[q][k] == a.edges[q][k]);
    }
}

// ---- one sweep step
pub proof fn lemma_x_sweep(a: S, pre: S, post: S, r: ControlFlow<()>, l: Seq<GcPtr>, cur: int)
    requires inv_w(pre, l, cur), exact_w(a, pre, l, cur), pre.phase == Phase::Sweep, sweep_one_rel(pre, post, r),
    ensures inv_w(post, sweep_l(pre, l, cur), sweep_cur(pre, cur)), exact_w(a, post, sweep_l(pre, l, cur), sweep_cur(pre, cur))
{
    lemma_sweep_inv(pre, post, r, l, cur);
    let ql = sweep_l(pre, l, cur); let qc = sweep_cur(pre, cur);
    lemma_index_all(l);
    if pre.sweep is None {
        assert(post.objs =~= pre.objs);
        assert forall|p: GcPtr| reach(a, p) implies #[trigger] isobj(post, p) by { assert(isobj(pre, p)); }
        return;
    }
    let o = pre.sweep->Some_0; let k = cur;
    assert(l[k] == o); assert(l.contains(o));
    let ob = pre.objs[o];
    if ob.color == GcColor::White {
        lemma_remove_props(l, k);
        assert(!reach(a, o)) by { assert(pre.objs[l[k]].color != GcColor::Black); }
        assert forall|p: GcPtr| reach(a, p) implies #[trigger] isobj(post, p) by { assert(isobj(pre, p)); assert(p != o); assert(l.contains(p)); assert(ql.contains(p)); }
        assert forall|i: int| qc <= i < ql.len() implies ((#[trigger] post.objs[ql[i]]).color == GcColor::Black <==> reach(a, ql[i])) by {
            assert(ql[i] == l[i + 1]); assert(l[i + 1] != o) by { lemma_index_of(l, i + 1); }
            assert(pre.objs[l[i + 1]].color == GcColor::Black <==> reach(a, l[i + 1]));
            if pre.sweep_prev is Some { assert(pre.sweep_prev == Some(l[k - 1])); assert(l[i + 1] != l[k - 1]); }
        }
        assert forall|i: int| 0 <= i < qc implies ((#[trigger] post.objs[ql[i]]).live <==> reach(a, ql[i])) by {
            assert(ql[i] == l[i]); assert(l[i] != o) by { lemma_index_of(l, i); }
            assert(pre.objs[l[i]].live <==> reach(a, l[i]));
        }
        assert forall|i: int| qc <= i < ql.len() && (#[trigger] post.objs[ql[i]]).color != GcColor::White implies kept_ok(a, ql[i]) by {
            assert(ql[i] == l[i + 1]); assert(l[i + 1] != o) by { lemma_index_of(l, i + 1); }
            assert(pre.objs[l[i + 1]].color != GcColor::White ==> kept_ok(a, l[i + 1]));
            if pre.sweep_prev is Some { assert(pre.sweep_prev == Some(l[k - 1])); assert(l[i + 1] != l[k - 1]); }
        }
        assert forall|i: int| 0 <= i < qc implies kept_ok(a, #[trigger] ql[i]) by { assert(ql[i] == l[i]); }
    } else {
        assert forall|p: GcPtr| reach(a, p) implies #[trigger] isobj(post, p) by { assert(isobj(pre, p)); }
        assert forall|i: int| qc <= i < l.len() implies ((#[trigger] post.objs[l[i]]).color == GcColor::Black <==> reach(a, l[i])) by {
            assert(l[i] != o) by { lemma_index_of(l, i); }
            assert(pre.objs[l[i]].color == GcColor::Black <==> reach(a, l[i]));
        }
        assert forall|i: int| 0 <= i < qc implies ((#[trigger] post.objs[l[i]]).live <==> reach(a, l[i])) by {
            if i == k {
                assert(pre.objs[l[k]].color == GcColor::Black <==> reach(a, l[k]));
                if ob.color == GcColor::Black { assert(isobj(pre, o) && is_marked(pre.objs[o].color)); assert(ob.live); }
            } else { assert(l[i] != o) by { lemma_index_of(l, i); } assert(pre.objs[l[i]].live <==> reach(a, l[i])); }
        }
        assert forall|i: int| qc <= i < l.len() && (#[trigger] post.objs[l[i]]).color != GcColor::White implies kept_ok(a, l[i]) by {
            assert(l[i] != o) by { lemma_index_of(l, i); }
            assert(pre.objs[l[i]].color != GcColor::White ==> kept_ok(a, l[i]));
        }
        assert forall|i: int| 0 <= i < qc implies kept_ok(a, #[trigger] l[i]) by {
            if i == k { assert(pre.objs[l[k]].color != GcColor::White); }
        }
    }
}

// ---- C07: when marking that started asleep in this call is complete, dead (unmarked or weakly marked) == unreachable
pub open spec fn exact_marked(a: S, b: S) -> bool {
    forall|p: GcPtr| #[trigger] isobj(b, p) ==> (is_white(b.objs[p].color) <==> !reach(a, p))
}
pub proof fn lemma_x_marked(a: S, b: S, l: Seq<GcPtr>, cur: int)
    requires inv_w(b, l, cur), exact_w(a, b, l, cur), b.phase == Phase::Mark, !gray_remaining_spec(b), b.stack =~= Set::empty(), a.stack =~= Set::empty()
    ensures exact_marked(a, b)
{
    assert forall|p: GcPtr| #[trigger] isobj(b, p) implies (is_white(b.objs[p].color) <==> !reach(a, p)) by {
        if reach(a, p) {
            let n = choose|n: nat| reach_n(a, p, n);
            lemma_reach_same_graph(a, b, p, n);
            lemma_marked_reach(b, l, cur, p, n);
        }
    }
}

// ---- end of the cycle
pub proof fn lemma_x_final(a: S, pre: S, post: S, l: Seq<GcPtr>, cur: int)
    requires inv_w(pre, l, cur), exact_w(a, pre, l, cur), pre.phase == Phase::Sweep, pre.sweep is None, post.objs =~= pre.objs
    ensures exact_final(a, post), exact_final_shells(a, post)
{
    lemma_index_all(l);
    assert(cur == l.len());
    assert forall|p: GcPtr| #[trigger] isobj(post, p) implies kept_ok(a, p) by {
        assert(isobj(pre, p)); assert(l.contains(p)); let i = l.index_of(p); assert(kept_ok(a, l[i]));
    }
    assert forall|p: GcPtr| #[trigger] isobj(post, p) && post.objs[p].live implies reach(a, p) by {
        assert(isobj(pre, p)); assert(l.contains(p)); let i = l.index_of(p); assert(pre.objs[l[i]].live <==> reach(a, l[i]));
    }
    assert forall|p: GcPtr| #[trigger] reach(a, p) implies isobj(post, p) && post.objs[p].live by {
        assert(isobj(pre, p)); assert(l.contains(p)); let i = l.index_of(p); assert(pre.objs[l[i]].live <==> reach(a, l[i]));
    }
}


// ---- C07 across calls: the same statement relative to the CURRENT graph.  While marking, the graph is the one marking began on
// (exact_w), so "exact relative to the state marking began in" can be restated over the current state alone: a state predicate that
// every collection call preserves and every wake-up establishes.  Mutator steps during Mark are not claimed to preserve it (that is the
// property's hypothesis "no mutation since marking of this cycle began"); outside Mark it holds vacuously.
pub open spec fn exact_self(s: S) -> bool { s.phase == Phase::Mark ==> exact_x(s, s) }
/// is_dead (unmarked or weakly marked) is true exactly for the objects unreachable from the root
pub open spec fn dead_exact(s: S) -> bool {
    forall|p: GcPtr| #[trigger] isobj(s, p) ==> (is_white(s.objs[p].color) <==> !reach(s, p))
}
pub proof fn lemma_reach_graph_iff(a: S, b: S, p: GcPtr)
    requires b.edges =~= a.edges, b.root_edges =~= a.root_edges, b.stack =~= a.stack
    ensures reach(a, p) <==> reach(b, p)
{
    if reach(a, p) { let n = choose|n: nat| reach_n(a, p, n); lemma_reach_same_graph(a, b, p, n); }
    if reach(b, p) { let n = choose|n: nat| reach_n(b, p, n); lemma_reach_same_graph(b, a, p, n); }
}
pub proof fn lemma_kept_graph(a: S, b: S, p: GcPtr)
    requires b.edges =~= a.edges, b.root_edges =~= a.root_edges, b.stack =~= a.stack, kept_ok(a, p)
    ensures kept_ok(b, p)
{
    lemma_reach_graph_iff(a, b, p);
    if !reach(a, p) {
        if exists|k: int| 0 <= k < a.root_edges.len() && (#[trigger] a.root_edges[k]).to == p {
            let k = choose|k: int| 0 <= k < a.root_edges.len() && (#[trigger] a.root_edges[k]).to == p;
            assert(b.root_edges[k].to == p);
        } else {
            let (q, k) = choose|q: GcPtr, k: int| #![trigger a.edges[q][k]] reach(a, q) && 0 <= k < a.edges[q].len() && a.edges[q][k].to == p;
            lemma_reach_graph_iff(a, b, q);
            assert(b.edges[q][k].to == p);
        }
    }
}
/// re-anchoring: while marking, exactness relative to `a` is exactness relative to the current state (and back)
pub proof fn lemma_x_rebase(a: S, b: S, c: S, l: Seq<GcPtr>, cur: int)
    requires exact_w(a, b, l, cur), b.phase == Phase::Mark,
        c.edges =~= a.edges, c.root_edges =~= a.root_edges, c.stack =~= a.stack,
    ensures exact_w(c, b, l, cur)
{
    assert forall|p: GcPtr| reach(c, p) implies #[trigger] isobj(b, p) by { lemma_reach_graph_iff(a, c, p); }
    assert forall|p: GcPtr| #[trigger] isobj(b, p) && b.objs[p].color != GcColor::White implies kept_ok(c, p) by { lemma_kept_graph(a, c, p); }
    assert forall|p: GcPtr| #[trigger] isobj(b, p) && is_marked(b.objs[p].color) implies reach(c, p) by { lemma_reach_graph_iff(a, c, p); }
}
pub proof fn lemma_xs_marked(b: S, l: Seq<GcPtr>, cur: int)
    requires inv_w(b, l, cur), exact_w(b, b, l, cur), b.phase == Phase::Mark, !gray_remaining_spec(b), b.stack =~= Set::empty()
    ensures dead_exact(b)
{
    lemma_x_marked(b, b, l, cur);
}

} // mod lem_exact
} // verus!
