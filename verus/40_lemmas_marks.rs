// ---- 40_lemmas_marks.rs (hand-written, fixed; spec/proof only) ---------------------------------
// The summary relation `marks_rel` of tracing a whole value is closed under one more `trace` / `trace_weak`.
verus! {
pub mod lemmas {
use vstd::prelude::*;
use vstd::seq_lib::*;
use vstd::multiset::*;
use super::spec::*;
use super::{GcPtr, GcColor, Phase};

pub proof fn lemma_marks_refl(s: S, es: Seq<Edge>)
    ensures marks_rel(s, s, es)
{
}

/// the targets of the edges stay valid trace arguments while earlier edges are being traced
pub proof fn lemma_marks_pre(s0: S, s1: S, es: Seq<Edge>, i: int)
    requires edges_pre(s0, es), marks_rel(s0, s1, es), 0 <= i < es.len()
    ensures trace_weak_pre(s1, es[i].to), !es[i].weak ==> trace_pre(s1, es[i].to),
{
    let q = es[i].to;
    assert(isobj(s0, q));
    assert(isobj(s1, q));
}

pub proof fn lemma_count_push(a: Seq<GcPtr>, p: GcPtr, q: GcPtr)
    ensures a.push(p).to_multiset().count(q) == a.to_multiset().count(q) + (if p == q { 1nat } else { 0nat })
{
    broadcast use vstd::seq_lib::group_to_multiset_ensures;
    assert(a.push(p).to_multiset() =~= a.to_multiset().insert(p));
}

pub proof fn lemma_qpush_count(a: S, b: S, p: GcPtr, q: GcPtr)
    requires qpush(a, b, p)
    ensures qcount(b, q) == qcount(a, q) + (if p == q { 1nat } else { 0nat })
{
    lemma_count_push(a.gray, p, q);
    lemma_count_push(a.gray_again, p, q);
}

/// cardinality bookkeeping for T-pace: when only object t changes, the non-White / Black sets move by at most t
pub proof fn lemma_sets_step(a: Map<GcPtr, Obj>, b: Map<GcPtr, Obj>, t: GcPtr)
    requires a.dom().contains(t), b.dom() =~= a.dom(), forall|q: GcPtr| q != t && #[trigger] a.dom().contains(q) ==> b[q] == a[q],
    ensures
        nwset(b).len() - nwset(a).len() == (if a[t].color == GcColor::White && b[t].color != GcColor::White { 1int }
            else if a[t].color != GcColor::White && b[t].color == GcColor::White { -1int } else { 0int }),
        blkset(b).len() - blkset(a).len() == (if a[t].color != GcColor::Black && b[t].color == GcColor::Black { 1int }
            else if a[t].color == GcColor::Black && b[t].color != GcColor::Black { -1int } else { 0int }),
{
    let na = nwset(a); let nb = nwset(b);
    if a[t].color == GcColor::White && b[t].color != GcColor::White { assert(nb =~= na.insert(t)); }
    else if a[t].color != GcColor::White && b[t].color == GcColor::White { assert(nb =~= na.remove(t)); }
    else { assert(nb =~= na); }
    let ka = blkset(a); let kb = blkset(b);
    if a[t].color != GcColor::Black && b[t].color == GcColor::Black { assert(kb =~= ka.insert(t)); }
    else if a[t].color == GcColor::Black && b[t].color != GcColor::Black { assert(kb =~= ka.remove(t)); }
    else { assert(kb =~= ka); }
}

pub proof fn lemma_marks_step(s0: S, s1: S, s2: S, es: Seq<Edge>, i: int)
    requires
        marks_rel(s0, s1, es), 0 <= i < es.len(), isobj(s0, es[i].to),
        s1.m.marked <= s0.m.marked + i,
        if es[i].weak { trace_weak_rel(s1, s2, es[i].to) } else { trace_rel(s1, s2, es[i].to) },
        forall|k: int| 0 <= k < i ==> edge_done(s1, #[trigger] es[k]),
    ensures
        marks_rel(s0, s2, es),
        s2.m.marked <= s0.m.marked + i + 1,
        forall|k: int| 0 <= k < i + 1 ==> edge_done(s2, #[trigger] es[k]),
{
    let t = es[i].to;
    assert(isobj(s1, t));
    assert(targets(es, t));
    if !es[i].weak { assert(starget(es, t)); }
    // colours of every object other than t are untouched by the step; t moves up
    assert forall|q: GcPtr| #[trigger] isobj(s0, q) implies {
        let c0 = s0.objs[q].color; let c2 = s2.objs[q].color;
        &&& rank(c0) <= rank(c2)
        &&& (c0 != c2 ==> is_white(c0) && targets(es, q) && (is_marked(c2) ==> starget(es, q)) && (c2 == GcColor::Black ==> !s0.objs[q].needs_trace))
        &&& qcount(s2, q) == qcount(s0, q) + (if c2 == GcColor::Gray && c0 != GcColor::Gray { 1nat } else { 0nat })
        &&& s0.objs[q].live == s2.objs[q].live && s0.objs[q].needs_trace == s2.objs[q].needs_trace && s0.objs[q].next == s2.objs[q].next
    } by {
        assert(isobj(s1, q));
        if es[i].weak {
            assert(same_queues(s1, s2));
            assert(qcount(s2, q) == qcount(s1, q));
        } else {
            if is_white(s1.objs[t].color) && s2.objs[t].color == GcColor::Gray {
                lemma_qpush_count(s1, s2, t, q);
            } else {
                assert(qcount(s2, q) == qcount(s1, q));
            }
        }
    }
    assert forall|q: GcPtr| !isobj(s0, q) implies #[trigger] qcount(s2, q) == qcount(s0, q) by {
        assert(q != t);
        assert(qcount(s1, q) == qcount(s0, q));
        if es[i].weak { assert(same_queues(s1, s2)); }
        else if !(is_white(s1.objs[t].color) && s2.objs[t].color == GcColor::Gray) { assert(same_queues(s1, s2)); }
        if !es[i].weak && is_white(s1.objs[t].color) && s2.objs[t].color == GcColor::Gray { lemma_qpush_count(s1, s2, t, q); }
    }
    assert forall|k: int| 0 <= k < i + 1 implies edge_done(s2, #[trigger] es[k]) by {
        if k < i { assert(edge_done(s1, es[k])); assert(isobj(s1, es[k].to) || true); }
    }
    assert(s2.objs.dom() =~= s0.objs.dom());
    lemma_sets_step(s1.objs, s2.objs, t);
}

} // mod lemmas
} // verus!
