// ---- 00_prelude.rs (hand-written, fixed) -------------------------------------------------------
// Types shared by every layer.  The three enums Phase / RunUntil / Stop / GcColor are NOT written
// here: they are cut from /repo/src/context.rs and /repo/src/types.rs on every run (the generator
// re-emits the variant list verbatim and derives the PartialOrd spec from the declaration order).
#![allow(non_snake_case)]
use vstd::prelude::*;
use vstd::std_specs::cmp::*;
use core::cmp::Ordering;
use core::ops::ControlFlow;

verus! {

pub assume_specification<B, C> [core::ops::ControlFlow::<B, C>::is_break] (c: &ControlFlow<B, C>) -> (r: bool)
    ensures r == (c is Break);

/// Abstract pointer: identifies one allocation event (not an address; address reuse after release is
/// invisible to the collector because nothing refers to a released block - that is what C01/C05 prove).
#[derive(Copy, Clone, Eq, PartialEq, Debug, Structural)]
pub struct GcPtr { pub id: usize }

impl GcPtr {
    pub fn addr_eq(self, other: GcPtr) -> (r: bool) ensures r == (self == other) { self.id == other.id }
}

} // verus!
