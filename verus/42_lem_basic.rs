// ---- 42_lem_basic.rs (hand-written, fixed; proof only) -----------------------------------------
// Sequence / multiset helpers and the "preconditions follow from Inv" lemmas (P1).
verus! {
pub mod lem_basic {
use vstd::prelude::*;
use super::spec::*;
use super::inv::*;
use super::{GcPtr, GcColor, Phase};

pub proof fn lemma_index_of(l: Seq<GcPtr>, i: int)
    requires l.no_duplicates(), 0 <= i < l.len()
    ensures l.index_of(l[i]) == i, l.contains(l[i])
{
    assert(l.contains(l[i]));
}

pub proof fn lemma_index_all(l: Seq<GcPtr>)
    requires l.no_duplicates()
    ensures forall|i: int| 0 <= i < l.len() ==> l.index_of(#[trigger] l[i]) == i,
        forall|p: GcPtr| l.contains(p) ==> 0 <= #[trigger] l.index_of(p) < l.len() && l[l.index_of(p)] == p,
{
    assert forall|i: int| 0 <= i < l.len() implies l.index_of(#[trigger] l[i]) == i by { lemma_index_of(l, i); }
}

pub proof fn lemma_elem_count(a: Seq<GcPtr>, k: int)
    requires 0 <= k < a.len()
    ensures a.to_multiset().count(a[k]) >= 1
{
    broadcast use vstd::seq_lib::group_to_multiset_ensures;
    assert(a.contains(a[k]));
}

pub proof fn lemma_count_drop_last(a: Seq<GcPtr>, q: GcPtr)
    requires a.len() > 0
    ensures a.to_multiset().count(q) == a.drop_last().to_multiset().count(q) + (if q == a.last() { 1nat } else { 0nat })
{
    broadcast use vstd::seq_lib::group_to_multiset_ensures;
    assert(a =~= a.drop_last().push(a.last()));
    assert(a.drop_last().push(a.last()).to_multiset() =~= a.drop_last().to_multiset().insert(a.last()));
}

pub proof fn lemma_count_empty(a: Seq<GcPtr>, q: GcPtr)
    requires a.len() == 0
    ensures a.to_multiset().count(q) == 0
{
    broadcast use vstd::seq_lib::group_to_multiset_ensures;
    assert(a =~= Seq::<GcPtr>::empty());
}

pub proof fn lemma_count_zero_all_empty(s: S)
    requires forall|p: GcPtr| #[trigger] qcount(s, p) == 0
    ensures s.gray.len() == 0 && s.gray_again.len() == 0
{
    if s.gray.len() > 0 { lemma_elem_count(s.gray, 0); assert(qcount(s, s.gray[0]) >= 1); }
    if s.gray_again.len() > 0 { lemma_elem_count(s.gray_again, 0); assert(qcount(s, s.gray_again[0]) >= 1); }
}

/// in the Mark phase nothing is condemned: `prot` is just "live object"
pub proof fn lemma_prot_outside_sweep(s: S, l: Seq<GcPtr>, cur: int)
    requires i_list(s, l, cur), s.phase != Phase::Sweep
    ensures forall|p: GcPtr| #![trigger prot(s, l, cur, p)] #![trigger condemned(s, l, cur, p)] #![trigger wcondemned(s, l, cur, p)]
        !condemned(s, l, cur, p) && !wcondemned(s, l, cur, p) && (prot(s, l, cur, p) <==> isobj(s, p) && s.objs[p].live),
{
    lemma_index_all(l);
    assert forall|p: GcPtr| !condemned(s, l, cur, p) && !wcondemned(s, l, cur, p) by {
        if isobj(s, p) { assert(l.contains(p)); }
    }
}

/// edges of a protected object are valid trace arguments
pub proof fn lemma_safe_edges_pre(s: S, l: Seq<GcPtr>, cur: int, es: Seq<Edge>)
    requires edges_safe(s, l, cur, es)
    ensures edges_pre(s, es)
{
    assert forall|k: int| 0 <= k < es.len() implies isobj(s, (#[trigger] es[k]).to) && (!es[k].weak ==> s.objs[es[k].to].live) by {
        assert(edge_safe(s, l, cur, es[k]));
    }
}

// ---- P1: the footprint preconditions of the collector steps follow from Inv
pub proof fn lemma_inv_mark_one_pre(s: S, l: Seq<GcPtr>, cur: int)
    requires inv_w(s, l, cur), s.phase == Phase::Mark
    ensures mark_one_pre(s)
{
    lemma_prot_outside_sweep(s, l, cur);
    assert forall|p: GcPtr| qcount(s, p) >= 1 implies mark_target_ok(s, p) by {
        assert(isobj(s, p));
        assert(s.objs[p].color == GcColor::Gray);
        assert(prot(s, l, cur, p));
        lemma_safe_edges_pre(s, l, cur, s.edges[p]);
    }
    assert forall|k: int| 0 <= k < s.gray.len() implies mark_target_ok(s, #[trigger] s.gray[k]) by { lemma_elem_count(s.gray, k); }
    assert forall|k: int| 0 <= k < s.gray_again.len() implies mark_target_ok(s, #[trigger] s.gray_again[k]) by { lemma_elem_count(s.gray_again, k); }
    lemma_safe_edges_pre(s, l, cur, s.root_edges);
}

pub proof fn lemma_inv_sweep_one_pre(s: S, l: Seq<GcPtr>, cur: int)
    requires inv_w(s, l, cur), s.phase == Phase::Sweep
    ensures sweep_one_pre(s)
{
    if s.sweep is Some {
        let o = s.sweep->Some_0;
        assert(cur < l.len() && l[cur] == o);
        lemma_index_of(l, cur);
        assert(isobj(s, o));
        if s.sweep_prev is Some {
            let pv = s.sweep_prev->Some_0;
            assert(pv == l[cur - 1]);
            lemma_index_of(l, cur - 1);
        }
    }
}

} // mod lem_basic
} // verus!
