// ---- 10_spec.rs (hand-written, fixed) ---------------------------------------------------------
// The abstract state S, the footprint-level preconditions (`*_pre`) and the relational contracts
// (`*_rel_<clause>`) that the extracted functions are proved against.  Pure spec; no code is read here.
verus! {

pub mod spec {
use vstd::prelude::*;
use core::ops::ControlFlow;
use super::{GcPtr, GcColor, Phase, RunUntil, Stop};

pub struct Obj { pub color: GcColor, pub live: bool, pub needs_trace: bool, pub next: Option<GcPtr> }
pub struct Edge { pub weak: bool, pub to: GcPtr }
/// a block prepared by a builder (header written, value written, live flag set) and not yet linked
pub struct Pending { pub needs_trace: bool, pub edges: Seq<Edge> }
/// the float part of the metrics, as opaque bit patterns (everything about floats is Kani's, rows K.debt.*)
pub struct Fl { pub pacing: int, pub wakeup: int, pub artificial: int }
pub struct MV {
    pub total: int, pub allocated: int, pub dropped: int, pub freed: int,
    pub marked: int, pub traced: int, pub remembered: int, pub fl: Fl,
}

pub struct S {
    // what the real Context stores
    pub objs: Map<GcPtr, Obj>,
    pub all: Option<GcPtr>, pub sweep: Option<GcPtr>, pub sweep_prev: Option<GcPtr>,
    pub phase: Phase, pub root_needs_trace: bool,
    pub gray: Seq<GcPtr>, pub gray_again: Seq<GcPtr>,
    pub m: MV,
    // shim-owned ghosts (only shim operations change them)
    pub dropped: Set<GcPtr>, pub freed: Set<GcPtr>,
    pub edges: Map<GcPtr, Seq<Edge>>, pub root_edges: Seq<Edge>,
    pub pending: Map<GcPtr, Pending>,
    pub stack: Set<GcPtr>, pub wstack: Set<GcPtr>,
    pub hist: Seq<Phase>,
    pub mutated: bool,
    pub unwinding: bool,
}

#[verifier::inline]
pub open spec fn isobj(s: S, p: GcPtr) -> bool { s.objs.dom().contains(p) }
pub open spec fn is_white(c: GcColor) -> bool { c == GcColor::White || c == GcColor::WhiteWeak }
pub open spec fn is_marked(c: GcColor) -> bool { c == GcColor::Gray || c == GcColor::Black }

// -------- frames -----------------------------------------------------------------------------
pub open spec fn same_ghost(a: S, b: S) -> bool {
    &&& a.dropped =~= b.dropped && a.freed =~= b.freed
    &&& a.edges =~= b.edges && a.root_edges =~= b.root_edges && a.pending =~= b.pending
    &&& a.stack =~= b.stack && a.wstack =~= b.wstack && a.hist =~= b.hist && a.mutated == b.mutated
    &&& a.unwinding == b.unwinding
}
pub open spec fn same_list(a: S, b: S) -> bool { a.all == b.all && a.sweep == b.sweep && a.sweep_prev == b.sweep_prev }
pub open spec fn same_queues(a: S, b: S) -> bool { a.gray =~= b.gray && a.gray_again =~= b.gray_again }
pub open spec fn same_ctl(a: S, b: S) -> bool { a.phase == b.phase && a.root_needs_trace == b.root_needs_trace }
pub open spec fn same(a: S, b: S) -> bool {
    a.objs =~= b.objs && same_list(a, b) && same_queues(a, b) && same_ctl(a, b) && a.m == b.m && same_ghost(a, b)
}
/// nothing destructed, nothing released, no block appears or disappears (C03 frame)
pub open spec fn no_reclaim(a: S, b: S) -> bool {
    a.dropped =~= b.dropped && a.freed =~= b.freed && forall|p: GcPtr| isobj(a, p) ==> isobj(b, p)
}
/// a step only re-colours: domain, live flags, needs_trace and links of every object are untouched
pub open spec fn recolour_only(a: S, b: S) -> bool {
    &&& a.objs.dom() =~= b.objs.dom()
    &&& forall|p: GcPtr| #[trigger] isobj(a, p) ==> a.objs[p].live == b.objs[p].live
            && a.objs[p].needs_trace == b.objs[p].needs_trace && a.objs[p].next == b.objs[p].next
}

// -------- queues as multisets -------------------------------------------------------------------
pub open spec fn qcount(s: S, p: GcPtr) -> nat { s.gray.to_multiset().count(p) + s.gray_again.to_multiset().count(p) }
/// `p` was pushed on exactly one of the two queues, nothing else about the queues changed
pub open spec fn qpush(a: S, b: S, p: GcPtr) -> bool {
    ||| b.gray =~= a.gray.push(p) && b.gray_again =~= a.gray_again
    ||| b.gray =~= a.gray && b.gray_again =~= a.gray_again.push(p)
}

// -------- metrics ---------------------------------------------------------------------------------
pub open spec fn m_same_but_marked(a: MV, b: MV) -> bool {
    b == (MV { marked: b.marked, ..a })
}
/// the objects that have left White in this cycle (weakly marked, queued or marked) / the Black ones
pub open spec fn nwset(objs: Map<GcPtr, Obj>) -> Set<GcPtr> { objs.dom().filter(|q: GcPtr| objs[q].color != GcColor::White) }
pub open spec fn blkset(objs: Map<GcPtr, Obj>) -> Set<GcPtr> { objs.dom().filter(|q: GcPtr| objs[q].color == GcColor::Black) }
/// mark work is counted once per object: the `marked` counter moves by exactly the number of objects that left White (T-pace)
pub open spec fn marks_cnt(pre: S, post: S) -> bool {
    post.m.marked - pre.m.marked == nwset(post.objs).len() - nwset(pre.objs).len()
}

// ==================================================================================================
// Context::root_barrier
pub open spec fn root_barrier_rel(pre: S, post: S) -> bool {
    post == (S { root_needs_trace: pre.root_needs_trace || pre.phase == Phase::Mark, ..pre })
}

// Context::gray_remaining
pub open spec fn gray_remaining_spec(s: S) -> bool { s.gray.len() > 0 || s.gray_again.len() > 0 || s.root_needs_trace }

// ==================================================================================================
// Context::trace  (strong trace of one pointer)
pub open spec fn trace_pre(s: S, p: GcPtr) -> bool {
    &&& isobj(s, p)
    // debug_assert!(is_live) on the queueing path
    &&& (is_white(s.objs[p].color) && s.objs[p].needs_trace ==> s.objs[p].live)
}
pub open spec fn trace_rel_heap(pre: S, post: S, p: GcPtr) -> bool {
    let o = pre.objs[p];
    if !is_white(o.color) { post.objs =~= pre.objs } else {
        // a white target ends Gray (and queued, see the queues clause) or Black; Black only if it needs no tracing
        &&& post.objs =~= pre.objs.insert(p, Obj { color: post.objs[p].color, ..o })
        &&& (post.objs[p].color == GcColor::Gray || (post.objs[p].color == GcColor::Black && !o.needs_trace))
    }
}
pub open spec fn trace_rel_queues(pre: S, post: S, p: GcPtr) -> bool {
    if is_white(pre.objs[p].color) && post.objs[p].color == GcColor::Gray { qpush(pre, post, p) } else { same_queues(pre, post) }
}
pub open spec fn trace_rel_metrics(pre: S, post: S, p: GcPtr) -> bool {
    // only the first marking of an object in a cycle counts as mark work
    post.m == (MV { marked: pre.m.marked + (if pre.objs[p].color == GcColor::White { 1int } else { 0int }), ..pre.m })
}
pub open spec fn trace_rel_frame(pre: S, post: S) -> bool { same_list(pre, post) && same_ctl(pre, post) && same_ghost(pre, post) }
pub open spec fn trace_rel(pre: S, post: S, p: GcPtr) -> bool {
    trace_rel_heap(pre, post, p) && trace_rel_queues(pre, post, p) && trace_rel_metrics(pre, post, p) && trace_rel_frame(pre, post)
}

// Context::trace_weak
pub open spec fn trace_weak_pre(s: S, p: GcPtr) -> bool { isobj(s, p) }
pub open spec fn trace_weak_rel_heap(pre: S, post: S, p: GcPtr) -> bool {
    let o = pre.objs[p];
    // a White target becomes weakly marked (its block survives the sweep); any other colour is left alone
    post.objs =~= (if o.color == GcColor::White { pre.objs.insert(p, Obj { color: GcColor::WhiteWeak, ..o }) } else { pre.objs })
}
pub open spec fn trace_weak_rel(pre: S, post: S, p: GcPtr) -> bool {
    trace_weak_rel_heap(pre, post, p) && same_queues(pre, post) && trace_rel_metrics(pre, post, p) && trace_rel_frame(pre, post)
}

// ==================================================================================================
// Context::make_gray_again
pub open spec fn make_gray_again_pre(s: S, p: GcPtr) -> bool {
    isobj(s, p) && s.objs[p].color == GcColor::Black && s.m.traced >= 1
}
pub open spec fn make_gray_again_rel_heap(pre: S, post: S, p: GcPtr) -> bool {
    post.objs =~= pre.objs.insert(p, Obj { color: GcColor::Gray, ..pre.objs[p] })
}
pub open spec fn make_gray_again_rel_metrics(pre: S, post: S) -> bool {
    // the trace credit of the re-queued object is taken back
    post.m == (MV { traced: pre.m.traced - 1, ..pre.m })
}
pub open spec fn make_gray_again_rel(pre: S, post: S, p: GcPtr) -> bool {
    make_gray_again_rel_heap(pre, post, p) && qpush(pre, post, p) && make_gray_again_rel_metrics(pre, post) && trace_rel_frame(pre, post)
}

// ==================================================================================================
// barriers.  The single-sourced adoption predicates (also compiled for the Kani harnesses):
//   after the barrier the parent may adopt the child without breaking the tri-colour invariant
//   (an object whose type needs no tracing holds no pointers - A-collect - so nothing is asked for it)
pub open spec fn can_adopt(s: S, p: GcPtr, c: GcPtr) -> bool {
    s.phase != Phase::Mark || s.objs[p].color != GcColor::Black || !s.objs[p].needs_trace || is_marked(s.objs[c].color)
}
pub open spec fn can_adopt_weak(s: S, p: GcPtr, c: GcPtr) -> bool {
    s.phase != Phase::Mark || s.objs[p].color != GcColor::Black || !s.objs[p].needs_trace || s.objs[c].color != GcColor::White
}
/// general forms: parent may adopt anything / child may be adopted by anything
pub open spec fn can_adopt_any(s: S, p: GcPtr) -> bool { s.phase != Phase::Mark || s.objs[p].color != GcColor::Black || !s.objs[p].needs_trace }
pub open spec fn adoptable_by_any(s: S, c: GcPtr) -> bool { s.phase != Phase::Mark || is_marked(s.objs[c].color) }
pub open spec fn adoptable_by_any_weak(s: S, c: GcPtr) -> bool { s.phase != Phase::Mark || s.objs[c].color != GcColor::White }

/// a barrier changes nothing but collector bookkeeping: colours, queues, counters
pub open spec fn barrier_frame(pre: S, post: S) -> bool {
    &&& recolour_only(pre, post) && same_list(pre, post) && same_ctl(pre, post) && same_ghost(pre, post)
    &&& post.m.total == pre.m.total && post.m.allocated == pre.m.allocated && post.m.fl == pre.m.fl
}
pub open spec fn backward_barrier_pre(s: S, parent: GcPtr, child: Option<GcPtr>) -> bool {
    &&& isobj(s, parent) && (child matches Some(c) ==> isobj(s, c))
    // a Black object that needs tracing has been traced, which earned the credit that a re-queue takes back (from I-count)
    &&& (s.phase == Phase::Mark && s.objs[parent].color == GcColor::Black && s.objs[parent].needs_trace ==> s.m.traced >= 1)
}
pub open spec fn backward_barrier_rel(pre: S, post: S, parent: GcPtr, child: Option<GcPtr>) -> bool {
    // either nothing happened or the parent was re-queued (make_gray_again)
    same(pre, post) || (pre.phase == Phase::Mark && pre.objs[parent].color == GcColor::Black && make_gray_again_rel(pre, post, parent))
}
pub open spec fn backward_barrier_post(post: S, parent: GcPtr, child: Option<GcPtr>) -> bool {
    match child { Some(c) => can_adopt(post, parent, c), None => can_adopt_any(post, parent) }
}
pub open spec fn backward_barrier_weak_post(post: S, parent: GcPtr, child: GcPtr) -> bool { can_adopt_weak(post, parent, child) }

pub open spec fn forward_barrier_pre(s: S, parent: Option<GcPtr>, child: GcPtr) -> bool {
    &&& isobj(s, child) && (parent matches Some(p) ==> isobj(s, p))
    &&& (s.phase == Phase::Mark ==> trace_pre(s, child))
}
pub open spec fn forward_barrier_rel(pre: S, post: S, parent: Option<GcPtr>, child: GcPtr) -> bool {
    same(pre, post) || (pre.phase == Phase::Mark && trace_rel(pre, post, child))
}
pub open spec fn forward_barrier_weak_rel(pre: S, post: S, parent: Option<GcPtr>, child: GcPtr) -> bool {
    same(pre, post) || (pre.phase == Phase::Mark && trace_weak_rel(pre, post, child))
}
pub open spec fn forward_barrier_post(post: S, parent: Option<GcPtr>, child: GcPtr) -> bool {
    match parent { Some(p) => can_adopt(post, p, child), None => adoptable_by_any(post, child) }
}
pub open spec fn forward_barrier_weak_post(post: S, parent: Option<GcPtr>, child: GcPtr) -> bool {
    match parent { Some(p) => can_adopt_weak(post, p, child), None => adoptable_by_any_weak(post, child) }
}

// ==================================================================================================
// Context::upgrade.   Taken from C05 and no stricter:
//   true  => the target has not been destructed and the running sweep will not destruct it
//   false => the target has been destructed, or the arena is Sweeping
pub open spec fn upgrade_pre(s: S, p: GcPtr) -> bool { isobj(s, p) }
pub open spec fn upgrade_ok(s: S, p: GcPtr) -> bool {
    s.objs[p].live && !(s.phase == Phase::Sweep && s.objs[p].color == GcColor::WhiteWeak)
}
pub open spec fn upgrade_rel(pre: S, post: S, p: GcPtr, r: bool) -> bool {
    &&& same(pre, post)
    &&& (r ==> upgrade_ok(pre, p))
    &&& (!r ==> !pre.objs[p].live || pre.phase == Phase::Sweep)
}

// Context::resurrect
pub open spec fn resurrect_pre(s: S, p: GcPtr) -> bool { isobj(s, p) && s.phase == Phase::Mark && s.objs[p].live }
pub open spec fn resurrect_rel_heap(pre: S, post: S, p: GcPtr) -> bool {
    let o = pre.objs[p];
    post.objs =~= (if is_white(o.color) { pre.objs.insert(p, Obj { color: GcColor::Gray, ..o }) } else { pre.objs })
}
pub open spec fn resurrect_rel_queues(pre: S, post: S, p: GcPtr) -> bool {
    if is_white(pre.objs[p].color) { qpush(pre, post, p) } else { same_queues(pre, post) }
}
pub open spec fn resurrect_rel(pre: S, post: S, p: GcPtr) -> bool {
    resurrect_rel_heap(pre, post, p) && resurrect_rel_queues(pre, post, p) && trace_rel_metrics(pre, post, p) && trace_rel_frame(pre, post)
}

// ==================================================================================================
// Context::link
pub open spec fn link_pre(s: S, p: GcPtr) -> bool {
    &&& s.pending.dom().contains(p) && !isobj(s, p)
    &&& s.phase != Phase::Drop
}
pub open spec fn link_rel_heap(pre: S, post: S, p: GcPtr) -> bool {
    // exactly one new object: white, live, carrying the value the builder prepared; every other object untouched
    &&& post.objs =~= pre.objs.insert(p, Obj { color: GcColor::White, live: true, needs_trace: pre.pending[p].needs_trace, next: pre.all })
    &&& post.edges =~= pre.edges.insert(p, pre.pending[p].edges) && post.pending =~= pre.pending.remove(p)
    &&& post.dropped =~= pre.dropped && post.freed =~= pre.freed && post.root_edges =~= pre.root_edges
    &&& post.stack =~= pre.stack && post.wstack =~= pre.wstack && post.hist =~= pre.hist && post.mutated == pre.mutated
    &&& post.unwinding == pre.unwinding
}
pub open spec fn link_rel_list(pre: S, post: S, p: GcPtr) -> bool {
    // the new object becomes the head; during a sweep it must end up in front of the cursor
    &&& post.all == Some(p) && post.sweep == pre.sweep
    &&& post.sweep_prev == (if pre.phase == Phase::Sweep && pre.sweep_prev is None { Some(p) } else { pre.sweep_prev })
}
pub open spec fn link_rel_metrics(pre: S, post: S) -> bool {
    post.m == (MV { total: pre.m.total + 1, allocated: pre.m.allocated + 1, ..pre.m })
}
pub open spec fn link_rel(pre: S, post: S, p: GcPtr) -> bool {
    link_rel_heap(pre, post, p) && link_rel_list(pre, post, p) && link_rel_metrics(pre, post) && same_queues(pre, post) && same_ctl(pre, post)
}

// ==================================================================================================
// tracing a whole value / the root: summary relation of any number of trace / trace_weak calls
pub open spec fn targets(es: Seq<Edge>, q: GcPtr) -> bool { exists|k: int| 0 <= k < es.len() && (#[trigger] es[k]).to == q }
pub open spec fn starget(es: Seq<Edge>, q: GcPtr) -> bool { exists|k: int| 0 <= k < es.len() && (#[trigger] es[k]).to == q && !es[k].weak }
pub open spec fn edge_done(s: S, e: Edge) -> bool {
    if e.weak { s.objs[e.to].color != GcColor::White } else { is_marked(s.objs[e.to].color) }
}
pub open spec fn rank(c: GcColor) -> int { match c { GcColor::White => 0, GcColor::WhiteWeak => 1, GcColor::Gray => 2, GcColor::Black => 3 } }

/// `post` results from `pre` by tracing a prefix/all of `es` (order free).  `n` = number of edges processed.
pub open spec fn marks_rel(pre: S, post: S, es: Seq<Edge>) -> bool {
    &&& recolour_only(pre, post) && same_list(pre, post) && same_ctl(pre, post) && same_ghost(pre, post)
    // colours only move up, only on targets of the traced edges, Black only for values that need no tracing
    &&& forall|q: GcPtr| #[trigger] isobj(pre, q) ==> {
            let c0 = pre.objs[q].color; let c1 = post.objs[q].color;
            &&& rank(c0) <= rank(c1)
            &&& (c0 != c1 ==> is_white(c0) && targets(es, q) && (is_marked(c1) ==> starget(es, q)) && (c1 == GcColor::Black ==> !pre.objs[q].needs_trace))
            // queue bookkeeping: one new entry exactly for every object that became Gray
            &&& qcount(post, q) == qcount(pre, q) + (if c1 == GcColor::Gray && c0 != GcColor::Gray { 1nat } else { 0nat })
        }
    &&& forall|q: GcPtr| !isobj(pre, q) ==> #[trigger] qcount(post, q) == qcount(pre, q)
    // counters: only `marked` moves, by the number of objects that left White
    &&& m_same_but_marked(pre.m, post.m) && pre.m.marked <= post.m.marked <= pre.m.marked + es.len()
    &&& marks_cnt(pre, post)
}
/// every edge of `es` has been traced
pub open spec fn all_done(post: S, es: Seq<Edge>) -> bool { forall|k: int| 0 <= k < es.len() ==> edge_done(post, #[trigger] es[k]) }

pub open spec fn edges_pre(s: S, es: Seq<Edge>) -> bool {
    forall|k: int| 0 <= k < es.len() ==> isobj(s, (#[trigger] es[k]).to) && (!es[k].weak ==> s.objs[es[k].to].live)
}

// ==================================================================================================
// Context::mark_one
pub open spec fn mark_one_pre(s: S) -> bool {
    &&& s.phase == Phase::Mark
    &&& forall|k: int| 0 <= k < s.gray.len() ==> mark_target_ok(s, #[trigger] s.gray[k])
    &&& forall|k: int| 0 <= k < s.gray_again.len() ==> mark_target_ok(s, #[trigger] s.gray_again[k])
    // (instances of the two lines above for the queue ends, stated as ground facts so that no trigger has to fire in code)
    &&& (s.gray.len() > 0 ==> mark_target_ok(s, s.gray.last()))
    &&& (s.gray_again.len() > 0 ==> mark_target_ok(s, s.gray_again.last()))
    &&& edges_pre(s, s.root_edges)
}
pub open spec fn mark_target_ok(s: S, p: GcPtr) -> bool {
    isobj(s, p) && s.objs[p].live && s.edges.dom().contains(p) && edges_pre(s, s.edges[p])
}
/// state after a marking step has taken the last element of one of the two queues and blackened it, before
/// its value is traced (which queue is served first is left free: `from_gray` is existential in mark_one_rel)
pub open spec fn taken(pre: S, from_gray: bool) -> GcPtr { if from_gray { pre.gray.last() } else { pre.gray_again.last() } }
pub open spec fn black_state(pre: S, from_gray: bool) -> S {
    let p = taken(pre, from_gray);
    S {
        gray: if from_gray { pre.gray.drop_last() } else { pre.gray },
        gray_again: if from_gray { pre.gray_again } else { pre.gray_again.drop_last() },
        objs: pre.objs.insert(p, Obj { color: GcColor::Black, ..pre.objs[p] }),
        m: MV { traced: pre.m.traced + 1, ..pre.m },
        ..pre
    }
}
pub open spec fn can_take(pre: S, from_gray: bool) -> bool { if from_gray { pre.gray.len() > 0 } else { pre.gray_again.len() > 0 } }
pub open spec fn mark_obj_rel(pre: S, post: S, from_gray: bool) -> bool {
    let p = taken(pre, from_gray);
    can_take(pre, from_gray) && marks_rel(black_state(pre, from_gray), post, pre.edges[p]) && all_done(post, pre.edges[p])
}
pub open spec fn mark_root_rel(pre: S, post: S) -> bool {
    let mid = S { root_needs_trace: pre.root_needs_trace, ..post };
    !post.root_needs_trace && marks_rel(pre, mid, pre.root_edges) && all_done(mid, pre.root_edges)
}
pub open spec fn mark_one_rel(pre: S, post: S, r: ControlFlow<()>) -> bool {
    if pre.gray.len() > 0 || pre.gray_again.len() > 0 {
        r is Continue && (mark_obj_rel(pre, post, true) || mark_obj_rel(pre, post, false))
    } else if pre.root_needs_trace {
        r is Continue && mark_root_rel(pre, post)
    } else {
        r is Break && same(pre, post)
    }
}
/// a `Collect::trace` panicked after any prefix of its edges and the stack unwound:
/// the object is Gray and queued again with its trace credit taken back / the root stays flagged
pub open spec fn unwind_obj_rel(pre: S, post: S, from_gray: bool) -> bool {
    let p = taken(pre, from_gray);
    // mid2 = the state in which the trace panicked, just before the guard re-queued p
    &&& can_take(pre, from_gray)
    &&& exists|mid2: S| #[trigger] make_gray_again_rel(mid2, post, p) && marks_rel(black_state(pre, from_gray), mid2, pre.edges[p])
            && mid2.objs[p].color == GcColor::Black
}
pub open spec fn mark_one_unwind_rel(pre: S, post: S) -> bool {
    if pre.gray.len() > 0 || pre.gray_again.len() > 0 {
        unwind_obj_rel(pre, post, true) || unwind_obj_rel(pre, post, false)
    } else if pre.root_needs_trace {
        marks_rel(pre, post, pre.root_edges)
    } else { false }
}

// ==================================================================================================
// Context::sweep_one
pub open spec fn sweep_one_pre(s: S) -> bool {
    &&& s.phase == Phase::Sweep
    &&& s.sweep matches Some(o) ==> {
        &&& isobj(s, o) && s.objs[o].color != GcColor::Gray
        &&& (s.objs[o].live <==> !s.dropped.contains(o))
        &&& (s.sweep_prev matches Some(pv) ==> isobj(s, pv) && pv != o)
        // debug_assert!(self.all.is_some_and(|f| f.addr_eq(sweep))) on the unlink-at-head path
        &&& (s.sweep_prev is None ==> s.all == Some(o))
        &&& s.m.total >= 1
    }
}
pub open spec fn sweep_one_rel_heap(pre: S, post: S, r: ControlFlow<()>) -> bool {
    match pre.sweep {
        None => post.objs =~= pre.objs && post.dropped =~= pre.dropped && post.freed =~= pre.freed && post.edges =~= pre.edges,
        Some(o) => {
            let ob = pre.objs[o];
            match ob.color {
                // unmarked: value destructed if it still exists, block released, unlinked
                GcColor::White => {
                    &&& post.freed =~= pre.freed.insert(o)
                    &&& post.dropped =~= (if ob.live { pre.dropped.insert(o) } else { pre.dropped })
                    &&& post.edges =~= (if ob.live { pre.edges.insert(o, Seq::empty()) } else { pre.edges })
                    &&& match pre.sweep_prev {
                        Some(pv) => post.objs =~= pre.objs.insert(pv, Obj { next: ob.next, ..pre.objs[pv] }).remove(o),
                        None => post.objs =~= pre.objs.remove(o),
                    }
                }
                // weakly marked: value destructed exactly if it still exists, block kept as a shell
                GcColor::WhiteWeak => {
                    &&& post.freed =~= pre.freed
                    &&& post.dropped =~= (if ob.live { pre.dropped.insert(o) } else { pre.dropped })
                    &&& post.edges =~= (if ob.live { pre.edges.insert(o, Seq::empty()) } else { pre.edges })
                    &&& post.objs =~= pre.objs.insert(o, Obj { color: GcColor::White, live: false, ..ob })
                }
                // marked: survives untouched, recoloured for the next cycle
                GcColor::Black => {
                    &&& post.freed =~= pre.freed && post.dropped =~= pre.dropped && post.edges =~= pre.edges
                    &&& post.objs =~= pre.objs.insert(o, Obj { color: GcColor::White, ..ob })
                }
                GcColor::Gray => false,
            }
        }
    }
}
pub open spec fn sweep_one_rel_list(pre: S, post: S, r: ControlFlow<()>) -> bool {
    match pre.sweep {
        None => r is Break && post.sweep_prev is None && post.all == pre.all && post.sweep == pre.sweep,
        Some(o) => {
            let ob = pre.objs[o];
            &&& r is Continue && post.sweep == ob.next
            &&& match ob.color {
                GcColor::White => post.sweep_prev == pre.sweep_prev && post.all == (if pre.sweep_prev is None { ob.next } else { pre.all }),
                _ => post.sweep_prev == Some(o) && post.all == pre.all,
            }
        }
    }
}
pub open spec fn sweep_one_rel_metrics(pre: S, post: S) -> bool {
    match pre.sweep {
        None => post.m == pre.m,
        Some(o) => {
            let ob = pre.objs[o];
            let d = if ob.live && is_white(ob.color) { 1int } else { 0int };
            match ob.color {
                GcColor::White => post.m == (MV { total: pre.m.total - 1, freed: pre.m.freed + 1, dropped: pre.m.dropped + d, ..pre.m }),
                _ => post.m == (MV { remembered: pre.m.remembered + 1, dropped: pre.m.dropped + d, ..pre.m }),
            }
        }
    }
}
pub open spec fn sweep_one_rel_frame(pre: S, post: S) -> bool {
    &&& same_queues(pre, post) && same_ctl(pre, post)
    &&& post.root_edges =~= pre.root_edges && post.pending =~= pre.pending && post.stack =~= pre.stack && post.wstack =~= pre.wstack
    &&& post.hist =~= pre.hist && post.mutated == pre.mutated && post.unwinding == pre.unwinding
}
pub open spec fn sweep_one_rel(pre: S, post: S, r: ControlFlow<()>) -> bool {
    sweep_one_rel_heap(pre, post, r) && sweep_one_rel_list(pre, post, r) && sweep_one_rel_metrics(pre, post) && sweep_one_rel_frame(pre, post)
}

// ==================================================================================================
// phase switches (shim `switch`, rule X-guard).  Allowed successor relation = C08's order of phases.
pub open spec fn switch_allowed(s: S, p: Phase) -> bool {
    match p {
        Phase::Mark => s.phase == Phase::Sleep,
        // sweeping begins only from a fully marked arena
        Phase::Sweep => s.phase == Phase::Mark && !gray_remaining_spec(s),
        // a cycle ends only when the sweep cursor is exhausted
        Phase::Sleep => s.phase == Phase::Sweep && s.sweep is None,
        Phase::Drop => false,
    }
}
pub open spec fn switch_rel(pre: S, post: S, p: Phase) -> bool {
    post == (S { phase: p, hist: pre.hist.push(p), mutated: if p == Phase::Mark { false } else { pre.mutated }, ..pre })
}

// ==================================================================================================
// the debt test.  Uninterpreted; the facts used about it are exactly the ones Kani proves on the real
// `Metrics::allocation_debt` (rows K.debt.*), stated in 20_shim.rs as axioms.
pub uninterp spec fn debt_pos(m: MV) -> bool;
pub uninterp spec fn zero_work_factors(f: Fl) -> bool;
/// what `Metrics::finish_cycle` does to the float state, as far as the driver needs it
pub uninterp spec fn finish_floats(pre: MV, post: Fl, reset_debt: bool) -> bool;

} // mod spec
} // verus!
