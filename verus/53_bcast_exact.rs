// ---- 53_bcast_exact.rs (hand-written, fixed; proof only) ---------------------------------------
// Broadcast forms of the T-exact lemmas for the extracted driver (see 46_bcast.rs for the device).
verus! {
pub mod bcast_x {
use vstd::prelude::*;
use core::ops::ControlFlow;
use super::spec::*;
use super::inv::*;
use super::bcast::*;
use super::lem_exact::*;
use super::lem_sweep::*;
use super::{GcPtr, GcColor, Phase};

pub proof fn lemma_x_unfold(a: S, b: S) -> (w: (Seq<GcPtr>, int))
    requires exact_x(a, b)
    ensures inv_w(b, w.0, w.1), exact_w(a, b, w.0, w.1)
{
    choose|l: Seq<GcPtr>, cur: int| #[trigger] inv_w(b, l, cur) && exact_w(a, b, l, cur)
}

pub broadcast proof fn b_x_wake(a: S, post: S)
    ensures inv(a) && a.phase == Phase::Sleep && #[trigger] switch_rel(a, post, Phase::Mark) ==> exact_x(a, post)
{
    if inv(a) && a.phase == Phase::Sleep && switch_rel(a, post, Phase::Mark) {
        let w = lemma_inv_unfold(a); lemma_x_wake(a, post, w.0, w.1);
    }
}
pub broadcast proof fn b_x_mark(a: S, pre: S, post: S, r: ControlFlow<()>)
    ensures #![trigger exact_x(a, pre), mark_one_rel(pre, post, r)]
        exact_x(a, pre) && pre.phase == Phase::Mark && mark_one_rel(pre, post, r) ==> exact_x(a, post)
{
    if exact_x(a, pre) && pre.phase == Phase::Mark && mark_one_rel(pre, post, r) {
        let w = lemma_x_unfold(a, pre); lemma_x_mark_one(a, pre, post, r, w.0, w.1);
    }
}
pub broadcast proof fn b_x_enter(a: S, pre: S, mid: S, post: S)
    ensures #![trigger exact_x(a, pre), switch_rel(pre, mid, Phase::Sweep), exact_x(a, post)]
        exact_x(a, pre) && pre.phase == Phase::Mark && !gray_remaining_spec(pre) && quiescent(pre) && a.stack =~= Set::empty()
            && switch_rel(pre, mid, Phase::Sweep) && post == (S { sweep: mid.all, ..mid }) ==> exact_x(a, post)
{
    if exact_x(a, pre) && pre.phase == Phase::Mark && !gray_remaining_spec(pre) && quiescent(pre) && a.stack =~= Set::empty()
        && switch_rel(pre, mid, Phase::Sweep) && post == (S { sweep: mid.all, ..mid }) {
        let w = lemma_x_unfold(a, pre); lemma_x_enter_sweep(a, pre, mid, post, w.0, w.1);
    }
}
pub broadcast proof fn b_x_sweep(a: S, pre: S, post: S, r: ControlFlow<()>)
    ensures #![trigger exact_x(a, pre), sweep_one_rel(pre, post, r)]
        exact_x(a, pre) && pre.phase == Phase::Sweep && sweep_one_rel(pre, post, r) ==> exact_x(a, post)
{
    if exact_x(a, pre) && pre.phase == Phase::Sweep && sweep_one_rel(pre, post, r) {
        let w = lemma_x_unfold(a, pre); lemma_x_sweep(a, pre, post, r, w.0, w.1);
    }
}
pub broadcast proof fn b_x_final(a: S, pre: S, mid: S, post: S)
    ensures #![trigger exact_x(a, pre), switch_rel(mid, post, Phase::Sleep)]
        exact_x(a, pre) && pre.phase == Phase::Sweep && pre.sweep is None && mid.objs =~= pre.objs && switch_rel(mid, post, Phase::Sleep) ==> exact_final(a, post) && exact_final_shells(a, post)
{
    if exact_x(a, pre) && pre.phase == Phase::Sweep && pre.sweep is None && mid.objs =~= pre.objs && switch_rel(mid, post, Phase::Sleep) {
        let w = lemma_x_unfold(a, pre); lemma_x_final(a, pre, post, w.0, w.1);
    }
}
pub broadcast proof fn b_x_marked(a: S, b: S)
    ensures #![trigger exact_x(a, b), exact_marked(a, b)]
        exact_x(a, b) && b.phase == Phase::Mark && !gray_remaining_spec(b) && quiescent(b) && a.stack =~= Set::empty() ==> exact_marked(a, b)
{
    if exact_x(a, b) && b.phase == Phase::Mark && !gray_remaining_spec(b) && quiescent(b) && a.stack =~= Set::empty() {
        let w = lemma_x_unfold(a, b); lemma_x_marked(a, b, w.0, w.1);
    }
}

// ---- C07 across calls (exact_self): established by every wake-up, kept by every marking step, read off when marking is complete
pub broadcast proof fn b_xs_wake(a: S, post: S)
    ensures inv(a) && a.phase == Phase::Sleep && #[trigger] switch_rel(a, post, Phase::Mark) ==> exact_self(post)
{
    if inv(a) && a.phase == Phase::Sleep && switch_rel(a, post, Phase::Mark) {
        let w = lemma_inv_unfold(a); lemma_x_wake(a, post, w.0, w.1);
        lemma_x_rebase(a, post, post, w.0, w.1);
    }
}
pub broadcast proof fn b_xs_mark(pre: S, post: S, r: ControlFlow<()>)
    ensures #![trigger exact_self(pre), mark_one_rel(pre, post, r)]
        exact_self(pre) && pre.phase == Phase::Mark && mark_one_rel(pre, post, r) && post.phase == Phase::Mark && post.stack =~= pre.stack ==> exact_self(post)
{
    if exact_self(pre) && pre.phase == Phase::Mark && mark_one_rel(pre, post, r) && post.phase == Phase::Mark && post.stack =~= pre.stack {
        let w = lemma_x_unfold(pre, pre); lemma_x_mark_one(pre, pre, post, r, w.0, w.1);
        lemma_x_rebase(pre, post, post, w.0, w.1);
    }
}
pub broadcast proof fn b_xs_marked(b: S)
    ensures #![trigger exact_self(b), dead_exact(b)]
        exact_self(b) && b.phase == Phase::Mark && !gray_remaining_spec(b) && quiescent(b) ==> dead_exact(b)
{
    if exact_self(b) && b.phase == Phase::Mark && !gray_remaining_spec(b) && quiescent(b) {
        let w = lemma_x_unfold(b, b); lemma_xs_marked(b, w.0, w.1);
    }
}
pub broadcast group group_exact { b_x_wake, b_x_mark, b_x_enter, b_x_sweep, b_x_final, b_x_marked, b_xs_wake, b_xs_mark, b_xs_marked }

} // mod bcast_x
} // verus!
