// ---- 43_lem_mark.rs (hand-written, fixed; proof only) ------------------------------------------
// T-inv for everything that marks: trace, trace_weak, barriers, resurrect, mark_one (object / root / break / unwind).
verus! {
pub mod lem_mark {
use vstd::prelude::*;
use core::ops::ControlFlow;
use super::spec::*;
use super::inv::*;
use super::lem_basic::*;
use super::lemmas::*;
use super::{GcPtr, GcColor, Phase};

/// I-tri with one object exempted (the one whose value is being traced right now)
pub open spec fn tri_except(s: S, x: Option<GcPtr>, rx: bool) -> bool {
    &&& forall|p: GcPtr, k: int| #![trigger s.edges[p][k]] isobj(s, p) && s.objs[p].color == GcColor::Black && Some(p) != x && 0 <= k < s.edges[p].len()
            ==> edge_done(s, s.edges[p][k])
    &&& (!s.root_needs_trace && !rx ==> forall|k: int| 0 <= k < s.root_edges.len() ==> edge_done(s, #[trigger] s.root_edges[k]))
}
pub open spec fn inv_parts(s: S, l: Seq<GcPtr>, cur: int) -> bool {
    i_list(s, l, cur) && i_colour(s, l, cur) && i_live(s) && i_safe(s, l, cur) && i_count(s, l)
}

pub proof fn lemma_edge_done_mono(pre: S, post: S, es: Seq<Edge>, e: Edge)
    requires marks_rel(pre, post, es), isobj(pre, e.to), edge_done(pre, e)
    ensures edge_done(post, e)
{
}

/// any amount of tracing during Mark keeps every part of Inv; the tri-colour part keeps its exemption
pub proof fn lemma_marks_inv(pre: S, post: S, es: Seq<Edge>, l: Seq<GcPtr>, cur: int, x: Option<GcPtr>, rx: bool)
    requires inv_parts(pre, l, cur), tri_except(pre, x, rx), pre.phase == Phase::Mark, marks_rel(pre, post, es), edges_pre(pre, es),
    ensures inv_parts(post, l, cur), tri_except(post, x, rx),
{
    lemma_prot_outside_sweep(pre, l, cur);
    assert(post.objs.dom() =~= pre.objs.dom());
    assert(i_list(post, l, cur)) by {
        assert forall|i: int| 0 <= i < l.len() implies (#[trigger] post.objs[l[i]]).next == at(l, i + 1) by {
            lemma_index_of(l, i); assert(isobj(pre, l[i]));
        }
        assert forall|p: GcPtr| #[trigger] isobj(post, p) <==> l.contains(p) by { assert(isobj(pre, p) <==> l.contains(p)); }
    }
    lemma_prot_outside_sweep(post, l, cur);
    assert(i_colour(post, l, cur)) by {
        assert forall|p: GcPtr| #[trigger] isobj(post, p) implies qcount(post, p) == (if post.objs[p].color == GcColor::Gray { 1nat } else { 0nat }) by {
            assert(isobj(pre, p));
        }
    }
    assert(i_live(post)) by {
        assert forall|p: GcPtr| #[trigger] isobj(post, p) && is_marked(post.objs[p].color) implies post.objs[p].live by {
            assert(isobj(pre, p));
            if pre.objs[p].color != post.objs[p].color {
                assert(starget(es, p));
                let k = choose|k: int| 0 <= k < es.len() && (#[trigger] es[k]).to == p && !es[k].weak;
                assert(pre.objs[es[k].to].live);
            }
        }
        assert forall|p: GcPtr| #[trigger] isobj(post, p) implies (post.objs[p].live <==> !post.dropped.contains(p)) by { assert(isobj(pre, p)); }
        assert forall|p: GcPtr| #[trigger] isobj(post, p) && !post.objs[p].live implies post.edges[p].len() == 0 by { assert(isobj(pre, p)); }
        assert forall|p: GcPtr| #[trigger] isobj(post, p) && post.edges[p].len() > 0 implies post.objs[p].needs_trace by { assert(isobj(pre, p)); }
        assert forall|p: GcPtr| #[trigger] isobj(post, p) implies post.edges.dom().contains(p) by { assert(isobj(pre, p)); }
    }
    assert(i_safe(post, l, cur)) by {
        assert forall|p: GcPtr| prot(post, l, cur, p) <==> prot(pre, l, cur, p) by { if isobj(pre, p) {} }
        assert forall|e: Edge| edge_safe(pre, l, cur, e) implies edge_safe(post, l, cur, e) by { if isobj(pre, e.to) {} }
        assert forall|p: GcPtr| #[trigger] prot(post, l, cur, p) implies edges_safe(post, l, cur, post.edges[p]) by {
            assert(prot(pre, l, cur, p));
            assert(edges_safe(pre, l, cur, pre.edges[p]));
        }
        assert forall|c: GcPtr| #[trigger] post.wstack.contains(c) implies isobj(post, c) && !wcondemned(post, l, cur, c) by { assert(pre.wstack.contains(c)); }
        assert forall|p: GcPtr| #[trigger] post.pending.dom().contains(p) implies edges_safe(post, l, cur, post.pending[p].edges) by {
            assert(edges_safe(pre, l, cur, pre.pending[p].edges));
        }
    }
    assert(tri_except(post, x, rx)) by {
        assert forall|p: GcPtr, k: int| #![trigger post.edges[p][k]] isobj(post, p) && post.objs[p].color == GcColor::Black && Some(p) != x && 0 <= k < post.edges[p].len()
                implies edge_done(post, post.edges[p][k]) by {
            assert(isobj(pre, p));
            if pre.objs[p].color == GcColor::Black {
                assert(prot(pre, l, cur, p));
                assert(edge_safe(pre, l, cur, pre.edges[p][k]));
                lemma_edge_done_mono(pre, post, es, pre.edges[p][k]);
            } else {
                assert(!pre.objs[p].needs_trace);
            }
        }
        if !post.root_needs_trace && !rx {
            assert forall|k: int| 0 <= k < post.root_edges.len() implies edge_done(post, #[trigger] post.root_edges[k]) by {
                assert(edge_safe(pre, l, cur, pre.root_edges[k]));
                lemma_edge_done_mono(pre, post, es, pre.root_edges[k]);
            }
        }
    }
}

pub proof fn lemma_tri_full(s: S)
    ensures s.phase == Phase::Mark ==> (i_tri(s) <==> tri_except(s, None, false)),
{
}

// ---- single trace / trace_weak as instances of marks_rel
pub proof fn lemma_trace_is_marks(pre: S, post: S, p: GcPtr, weak: bool)
    requires isobj(pre, p), if weak { trace_weak_rel(pre, post, p) } else { trace_rel(pre, post, p) },
    ensures marks_rel(pre, post, seq![Edge { weak: weak, to: p }]), edge_done(post, Edge { weak: weak, to: p }),
{
    let es = seq![Edge { weak: weak, to: p }];
    lemma_marks_refl(pre, es);
    assert(es[0].to == p && es[0].weak == weak);
    lemma_marks_step(pre, pre, post, es, 0);
    assert(edge_done(post, es[0]));
}

/// T-inv: Context::trace / trace_weak / forward barriers, called in any phase (the barriers only act in Mark)
pub proof fn lemma_trace_inv(pre: S, post: S, p: GcPtr, weak: bool, l: Seq<GcPtr>, cur: int)
    requires inv_w(pre, l, cur), pre.phase == Phase::Mark, isobj(pre, p), weak || pre.objs[p].live,
        if weak { trace_weak_rel(pre, post, p) } else { trace_rel(pre, post, p) },
    ensures inv_w(post, l, cur),
{
    let es = seq![Edge { weak: weak, to: p }];
    lemma_trace_is_marks(pre, post, p, weak);
    assert(edges_pre(pre, es)) by { assert(es[0].to == p); }
    lemma_tri_full(pre);
    lemma_marks_inv(pre, post, es, l, cur, None, false);
    lemma_tri_full(post);
}

// ---- mark_one, object case
pub proof fn lemma_black_state(pre: S, fg: bool, l: Seq<GcPtr>, cur: int)
    requires inv_w(pre, l, cur), pre.phase == Phase::Mark, can_take(pre, fg),
    ensures ({
        let mid = black_state(pre, fg); let p = taken(pre, fg);
        &&& isobj(pre, p) && pre.objs[p].color == GcColor::Gray && pre.objs[p].live
        &&& inv_parts(mid, l, cur) && tri_except(mid, Some(p), false) && edges_pre(mid, pre.edges[p]) && mid.phase == Phase::Mark
    }),
{
    let mid = black_state(pre, fg); let p = taken(pre, fg);
    if fg { lemma_elem_count(pre.gray, pre.gray.len() - 1); } else { lemma_elem_count(pre.gray_again, pre.gray_again.len() - 1); }
    assert(qcount(pre, p) >= 1);
    assert(isobj(pre, p));
    lemma_prot_outside_sweep(pre, l, cur);
    assert(mid.objs.dom() =~= pre.objs.dom());
    assert forall|q: GcPtr| qcount(mid, q) == qcount(pre, q) - (if q == p { 1int } else { 0int }) by {
        if fg { lemma_count_drop_last(pre.gray, q); } else { lemma_count_drop_last(pre.gray_again, q); }
    }
    assert(i_list(mid, l, cur)) by {
        assert forall|i: int| 0 <= i < l.len() implies (#[trigger] mid.objs[l[i]]).next == at(l, i + 1) by { lemma_index_of(l, i); }
        assert forall|q: GcPtr| #[trigger] isobj(mid, q) <==> l.contains(q) by { assert(isobj(pre, q) <==> l.contains(q)); }
    }
    lemma_prot_outside_sweep(mid, l, cur);
    assert(i_colour(mid, l, cur)) by {
        assert forall|q: GcPtr| !isobj(mid, q) implies #[trigger] qcount(mid, q) == 0 by { assert(qcount(pre, q) == 0); }
        assert forall|q: GcPtr| #[trigger] isobj(mid, q) implies qcount(mid, q) == (if mid.objs[q].color == GcColor::Gray { 1nat } else { 0nat }) by { assert(isobj(pre, q)); }
    }
    assert(i_live(mid)) by {
        assert forall|q: GcPtr| #[trigger] isobj(mid, q) implies (mid.objs[q].live <==> !mid.dropped.contains(q)) by { assert(isobj(pre, q)); }
        assert forall|q: GcPtr| #[trigger] isobj(mid, q) && is_marked(mid.objs[q].color) implies mid.objs[q].live by { assert(isobj(pre, q)); }
        assert forall|q: GcPtr| #[trigger] isobj(mid, q) && !mid.objs[q].live implies mid.edges[q].len() == 0 by { assert(isobj(pre, q)); }
        assert forall|q: GcPtr| #[trigger] isobj(mid, q) && mid.edges[q].len() > 0 implies mid.objs[q].needs_trace by { assert(isobj(pre, q)); }
        assert forall|q: GcPtr| #[trigger] isobj(mid, q) implies mid.edges.dom().contains(q) by { assert(isobj(pre, q)); }
    }
    assert(i_safe(mid, l, cur)) by {
        assert forall|q: GcPtr| prot(mid, l, cur, q) <==> prot(pre, l, cur, q) by { if isobj(pre, q) {} }
        assert forall|e: Edge| edge_safe(pre, l, cur, e) implies edge_safe(mid, l, cur, e) by { if isobj(pre, e.to) {} }
        assert forall|q: GcPtr| #[trigger] prot(mid, l, cur, q) implies edges_safe(mid, l, cur, mid.edges[q]) by {
            assert(prot(pre, l, cur, q)); assert(edges_safe(pre, l, cur, pre.edges[q]));
        }
        assert forall|c: GcPtr| #[trigger] mid.wstack.contains(c) implies isobj(mid, c) && !wcondemned(mid, l, cur, c) by { assert(pre.wstack.contains(c)); }
        assert forall|q: GcPtr| #[trigger] mid.pending.dom().contains(q) implies edges_safe(mid, l, cur, mid.pending[q].edges) by {
            assert(edges_safe(pre, l, cur, pre.pending[q].edges));
        }
    }
    assert(tri_except(mid, Some(p), false)) by {
        assert forall|q: GcPtr, k: int| #![trigger mid.edges[q][k]] isobj(mid, q) && mid.objs[q].color == GcColor::Black && Some(q) != Some(p) && 0 <= k < mid.edges[q].len()
                implies edge_done(mid, mid.edges[q][k]) by {
            assert(isobj(pre, q) && q != p);
            assert(edge_done(pre, pre.edges[q][k]));
        }
        if !mid.root_needs_trace {
            assert forall|k: int| 0 <= k < mid.root_edges.len() implies edge_done(mid, #[trigger] mid.root_edges[k]) by { assert(edge_done(pre, pre.root_edges[k])); }
        }
    }
    assert(prot(pre, l, cur, p));
    assert(edges_safe(mid, l, cur, pre.edges[p])) by { assert(edges_safe(pre, l, cur, pre.edges[p])); }
    lemma_safe_edges_pre(mid, l, cur, pre.edges[p]);
}

pub proof fn lemma_mark_obj_inv(pre: S, post: S, fg: bool, l: Seq<GcPtr>, cur: int)
    requires inv_w(pre, l, cur), pre.phase == Phase::Mark, mark_obj_rel(pre, post, fg),
    ensures inv_w(post, l, cur),
{
    let mid = black_state(pre, fg); let p = taken(pre, fg);
    lemma_black_state(pre, fg, l, cur);
    lemma_marks_inv(mid, post, pre.edges[p], l, cur, Some(p), false);
    // the exempted object has had every edge traced
    assert(i_tri(post)) by {
        assert forall|q: GcPtr, k: int| #![trigger post.edges[q][k]] isobj(post, q) && post.objs[q].color == GcColor::Black && 0 <= k < post.edges[q].len()
                implies edge_done(post, post.edges[q][k]) by {
            if q == p { assert(edge_done(post, pre.edges[p][k])); }
        }
    }
}

pub proof fn lemma_mark_root_inv(pre: S, post: S, l: Seq<GcPtr>, cur: int)
    requires inv_w(pre, l, cur), pre.phase == Phase::Mark, mark_root_rel(pre, post),
    ensures inv_w(post, l, cur),
{
    let mid = S { root_needs_trace: pre.root_needs_trace, ..post };
    lemma_safe_edges_pre(pre, l, cur, pre.root_edges);
    assert(tri_except(pre, None, true));
    lemma_marks_inv(pre, mid, pre.root_edges, l, cur, None, true);
    lemma_parts_flag(mid, post, l, cur);
    assert(i_tri(post)) by {
        assert forall|k: int| 0 <= k < post.root_edges.len() implies edge_done(post, #[trigger] post.root_edges[k]) by {
            assert(edge_done(mid, pre.root_edges[k]));
        }
        assert forall|p: GcPtr, k: int| #![trigger post.edges[p][k]] isobj(post, p) && post.objs[p].color == GcColor::Black && 0 <= k < post.edges[p].len()
                implies edge_done(post, post.edges[p][k]) by {
            assert(isobj(mid, p)); assert(edge_done(mid, mid.edges[p][k]));
        }
    }
}

/// the root flag is not mentioned by the parts of Inv other than I-tri, except `Sleep ==> flag`
pub proof fn lemma_parts_flag(a: S, b: S, l: Seq<GcPtr>, cur: int)
    requires inv_parts(a, l, cur), b == (S { root_needs_trace: b.root_needs_trace, ..a }), a.phase != Phase::Sleep,
    ensures inv_parts(b, l, cur),
{
    assert forall|q: GcPtr| qcount(b, q) == qcount(a, q) by {}
    assert forall|p: GcPtr| prot(b, l, cur, p) <==> prot(a, l, cur, p) by {}
    assert forall|e: Edge| edge_safe(a, l, cur, e) <==> edge_safe(b, l, cur, e) by {}
    assert(i_list(b, l, cur)) by {
        assert forall|p: GcPtr| #[trigger] isobj(b, p) <==> l.contains(p) by { assert(isobj(a, p) <==> l.contains(p)); }
    }
    assert(i_colour(b, l, cur)) by {
        assert forall|p: GcPtr| !isobj(b, p) implies #[trigger] qcount(b, p) == 0 by { assert(!isobj(a, p)); assert(qcount(a, p) == 0); }
        assert forall|p: GcPtr| #[trigger] isobj(b, p) implies (b.phase == Phase::Mark ==> qcount(b, p) == (if b.objs[p].color == GcColor::Gray { 1nat } else { 0nat }))
            && (b.phase != Phase::Mark ==> b.objs[p].color != GcColor::Gray) by { assert(isobj(a, p)); }
    }
    assert(i_live(b)) by {
        assert forall|p: GcPtr| #[trigger] isobj(b, p) implies isobj(a, p) by {}
        assert forall|p: GcPtr| #[trigger] b.pending.dom().contains(p) implies !isobj(b, p) && !b.freed.contains(p) by { assert(a.pending.dom().contains(p)); }
        assert forall|p: GcPtr| #[trigger] b.freed.contains(p) implies !isobj(b, p) by { assert(a.freed.contains(p)); }
    }
    assert(i_safe(b, l, cur)) by {
        assert forall|p: GcPtr| #[trigger] prot(b, l, cur, p) implies edges_safe(b, l, cur, b.edges[p]) by {
            assert(prot(a, l, cur, p)); assert(edges_safe(a, l, cur, a.edges[p]));
        }
        assert forall|p: GcPtr| #[trigger] b.pending.dom().contains(p) implies edges_safe(b, l, cur, b.pending[p].edges) by {
            assert(a.pending.dom().contains(p)); assert(edges_safe(a, l, cur, a.pending[p].edges));
        }
        assert(edges_safe(a, l, cur, a.root_edges));
        assert forall|c: GcPtr| #[trigger] b.stack.contains(c) implies prot(b, l, cur, c) by { assert(a.stack.contains(c)); }
        assert forall|c: GcPtr| #[trigger] b.wstack.contains(c) implies isobj(b, c) && !wcondemned(b, l, cur, c) by { assert(a.wstack.contains(c)); }
    }
}

// ---- C11: a `Collect::trace` that panics part-way (rule X-unwind) leaves the arena consistent
/// re-queueing the object whose trace was interrupted re-establishes the full tri-colour invariant
pub proof fn lemma_requeue_parts(pre: S, post: S, p: GcPtr, l: Seq<GcPtr>, cur: int)
    requires inv_parts(pre, l, cur), tri_except(pre, Some(p), false), pre.phase == Phase::Mark, isobj(pre, p), pre.objs[p].color == GcColor::Black,
        pre.m.traced >= 1, make_gray_again_rel(pre, post, p),
    ensures inv_w(post, l, cur),
{
    lemma_prot_outside_sweep(pre, l, cur);
    assert(post.objs.dom() =~= pre.objs.dom());
    assert forall|q: GcPtr| qcount(post, q) == qcount(pre, q) + (if q == p { 1nat } else { 0nat }) by { lemma_qpush_count(pre, post, p, q); }
    assert(i_list(post, l, cur)) by {
        assert forall|i: int| 0 <= i < l.len() implies (#[trigger] post.objs[l[i]]).next == at(l, i + 1) by { lemma_index_of(l, i); }
    }
    lemma_prot_outside_sweep(post, l, cur);
    assert(i_colour(post, l, cur));
    assert(i_live(post));
    assert forall|q: GcPtr| prot(post, l, cur, q) <==> prot(pre, l, cur, q) by {}
    assert forall|e: Edge| edge_safe(pre, l, cur, e) implies edge_safe(post, l, cur, e) by {}
    assert(i_safe(post, l, cur)) by {
        assert forall|q: GcPtr| #[trigger] prot(post, l, cur, q) implies edges_safe(post, l, cur, post.edges[q]) by {
            assert(prot(pre, l, cur, q)); assert(edges_safe(pre, l, cur, pre.edges[q]));
        }
        assert(edges_safe(pre, l, cur, pre.root_edges));
        assert forall|q: GcPtr| #[trigger] post.pending.dom().contains(q) implies edges_safe(post, l, cur, post.pending[q].edges) by {
            assert(edges_safe(pre, l, cur, pre.pending[q].edges));
        }
    }
    assert(i_tri(post)) by {
        assert forall|q: GcPtr, k: int| #![trigger post.edges[q][k]] isobj(post, q) && post.objs[q].color == GcColor::Black && 0 <= k < post.edges[q].len()
                implies edge_done(post, post.edges[q][k]) by {
            assert(q != p); assert(edge_done(pre, pre.edges[q][k]));
        }
        if !post.root_needs_trace {
            assert forall|k: int| 0 <= k < post.root_edges.len() implies edge_done(post, #[trigger] post.root_edges[k]) by { assert(edge_done(pre, pre.root_edges[k])); }
        }
    }
    assert(i_count(post, l));
}

/// T-inv for the unwind relation of mark_one (both variants): the arena satisfies Inv after the caught panic, so C01-C05 continue to hold
pub proof fn theorem_c11_trace_panic_preserves_inv(pre: S, post: S, l: Seq<GcPtr>, cur: int)
    requires inv_w(pre, l, cur), pre.phase == Phase::Mark, mark_one_unwind_rel(pre, post),
    ensures inv_w(post, l, cur),
{
    if pre.gray.len() > 0 || pre.gray_again.len() > 0 {
        let fg = unwind_obj_rel(pre, post, true);
        let p = taken(pre, fg);
        let mid = black_state(pre, fg);
        let mid2 = choose|mid2: S| #[trigger] make_gray_again_rel(mid2, post, p) && marks_rel(mid, mid2, pre.edges[p]) && mid2.objs[p].color == GcColor::Black;
        lemma_black_state(pre, fg, l, cur);
        lemma_marks_inv(mid, mid2, pre.edges[p], l, cur, Some(p), false);
        assert(mid2.m.traced >= 1);
        lemma_requeue_parts(mid2, post, p, l, cur);
    } else {
        lemma_safe_edges_pre(pre, l, cur, pre.root_edges);
        lemma_tri_full(pre);
        lemma_marks_inv(pre, post, pre.root_edges, l, cur, None, false);
        lemma_tri_full(post);
    }
}

} // mod lem_mark
} // verus!
