use inv::{inv, quiescent, at};
use lem_drop::{wf_from, pos, drop_pre};
use lem_term::{measure, trank};
use lem_exact::{exact_x, exact_final, exact_final_shells, exact_marked, exact_self, dead_exact};
use lem_pace::{pace_x, cycle_const, no_sleep_since};
use lem_dtor::sweep_one_unwind_rel;
broadcast use {axioms::ax_debt_empty, axioms::ax_debt_zero_factors, axioms::ax_debt_reset, bcast::group_driver, lem_drop::group_drop, bcast_x::group_exact, bcast_p::group_pace};
