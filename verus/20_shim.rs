// ---- 20_shim.rs (hand-written, fixed) ---------------------------------------------------------
// The exec-level stand-ins for what Verus cannot take from the crate: the object headers behind raw
// pointers (Heap), the Cell-wrapped counters (Metrics fields), PhaseGuard (enter / switch), the vtable
// calls (drop_in_place, dealloc, trace_value, trace_root) and the float comparison (debt_gt_zero).
// Every `external_body` / axiom below is an assumption listed in DESIGN.md section 7 and counted in the
// evidence; the Kani rows named next to each one check it on the real code.
verus! {

use spec::*;

// ------------------------------------------------------------------------------------------ heap
pub struct HeapGhost {
    pub objs: Map<GcPtr, Obj>,
    pub dropped: Set<GcPtr>, pub freed: Set<GcPtr>,
    pub edges: Map<GcPtr, Seq<Edge>>, pub root_edges: Seq<Edge>,
    pub pending: Map<GcPtr, Pending>,
    pub stack: Set<GcPtr>, pub wstack: Set<GcPtr>,
    pub mutated: bool,
}
pub struct Heap { pub g: Ghost<HeapGhost> }

impl Heap {
    pub open spec fn isobj(&self, p: GcPtr) -> bool { self.g@.objs.dom().contains(p) }
    pub open spec fn get(&self, p: GcPtr) -> Obj { self.g@.objs[p] }

    // header accessors: shim-hdr, checked on the real GcHeader by K.hdr.* (each accessor reads / writes its own bits only)
    #[verifier::external_body]
    pub fn color(&self, p: GcPtr) -> (c: GcColor) requires self.isobj(p) ensures c == self.get(p).color { unimplemented!() }
    #[verifier::external_body]
    pub fn is_live(&self, p: GcPtr) -> (c: bool) requires self.isobj(p) ensures c == self.get(p).live { unimplemented!() }
    #[verifier::external_body]
    pub fn needs_trace(&self, p: GcPtr) -> (c: bool) requires self.isobj(p) ensures c == self.get(p).needs_trace { unimplemented!() }
    #[verifier::external_body]
    pub fn next(&self, p: GcPtr) -> (c: Option<GcPtr>) requires self.isobj(p) ensures c == self.get(p).next { unimplemented!() }
    #[verifier::external_body]
    pub fn set_color(&mut self, p: GcPtr, c: GcColor) requires old(self).isobj(p)
        ensures final(self).g@ == (HeapGhost { objs: old(self).g@.objs.insert(p, Obj { color: c, ..old(self).get(p) }), ..old(self).g@ }) { unimplemented!() }
    #[verifier::external_body]
    pub fn set_live(&mut self, p: GcPtr, c: bool) requires old(self).isobj(p)
        ensures final(self).g@ == (HeapGhost { objs: old(self).g@.objs.insert(p, Obj { live: c, ..old(self).get(p) }), ..old(self).g@ }) { unimplemented!() }
    #[verifier::external_body]
    pub fn set_next(&mut self, p: GcPtr, c: Option<GcPtr>) requires old(self).isobj(p)
        ensures final(self).g@ == (HeapGhost { objs: old(self).g@.objs.insert(p, Obj { next: c, ..old(self).get(p) }), ..old(self).g@ }) { unimplemented!() }

    // vtable calls.  A destructor is a ghost event (A-dtor): the value's pointers cease to exist.
    // Preconditions make double drop / double free / use after free FAILED OBLIGATIONS.
    #[verifier::external_body]
    pub fn drop_in_place(&mut self, p: GcPtr) requires old(self).isobj(p), !old(self).g@.dropped.contains(p)
        ensures final(self).g@ == (HeapGhost { dropped: old(self).g@.dropped.insert(p), edges: old(self).g@.edges.insert(p, Seq::empty()), ..old(self).g@ }) { unimplemented!() }
    #[verifier::external_body]
    pub fn dealloc(&mut self, p: GcPtr) requires old(self).isobj(p)
        ensures final(self).g@ == (HeapGhost { objs: old(self).g@.objs.remove(p), freed: old(self).g@.freed.insert(p), ..old(self).g@ }) { unimplemented!() }

    // the pointers a value / the root holds, in the order a correct `Collect::trace` reports them (A-collect)
    #[verifier::external_body]
    pub fn edge_count(&self, p: GcPtr) -> (n: usize) requires self.isobj(p) ensures n == self.g@.edges[p].len() { unimplemented!() }
    #[verifier::external_body]
    pub fn edge(&self, p: GcPtr, i: usize) -> (e: (bool, GcPtr)) requires self.isobj(p), i < self.g@.edges[p].len()
        ensures e.0 == self.g@.edges[p][i as int].weak, e.1 == self.g@.edges[p][i as int].to { unimplemented!() }
    #[verifier::external_body]
    pub fn root_edge_count(&self) -> (n: usize) ensures n == self.g@.root_edges.len() { unimplemented!() }
    #[verifier::external_body]
    pub fn root_edge(&self, i: usize) -> (e: (bool, GcPtr)) requires i < self.g@.root_edges.len()
        ensures e.0 == self.g@.root_edges[i as int].weak, e.1 == self.g@.root_edges[i as int].to { unimplemented!() }
    /// how far a panicking `Collect::trace` gets before it unwinds: any prefix (X-unwind)
    #[verifier::external_body]
    pub fn panic_point(&self, n: usize) -> (k: usize) ensures k <= n { unimplemented!() }
}

/// ghost prologue of `link` (rule X-link): the block a builder prepared becomes a heap object.
/// K.builder.assume_init proves on the real code that it is white, flagged live and handed to `link` exactly once.
pub open spec fn materialized(g: HeapGhost, p: GcPtr) -> HeapGhost {
    HeapGhost {
        objs: g.objs.insert(p, Obj { color: GcColor::White, live: true, needs_trace: g.pending[p].needs_trace, next: None }),
        edges: g.edges.insert(p, g.pending[p].edges),
        pending: g.pending.remove(p), ..g }
}

// ------------------------------------------------------------------------------------------ metrics
/// A-addr: a usize event counter is never incremented 2^64 times (increments are assumed not to wrap);
/// decrements are genuine obligations (`requires a >= b`): an underflow is a failed precondition.
#[verifier::external_body]
pub fn counter_add(a: usize, b: usize) -> (r: usize) ensures r == a + b { a + b }
/// X-unwind: the value "returned" by an unwinding exit (never observed)
#[verifier::external_body]
pub fn unwound<T>() -> T { unimplemented!() }
pub fn counter_sub(a: usize, b: usize) -> (r: usize) requires a >= b ensures r == a - b { a - b }

pub struct Metrics {
    pub total_gcs: usize, pub allocated_gcs: usize, pub dropped_gcs: usize, pub freed_gcs: usize,
    pub marked_gcs: usize, pub traced_gcs: usize, pub remembered_gcs: usize,
    pub fl: Ghost<Fl>,
}
impl Metrics {
    pub open spec fn view(&self) -> MV {
        MV { total: self.total_gcs as int, allocated: self.allocated_gcs as int, dropped: self.dropped_gcs as int, freed: self.freed_gcs as int,
             marked: self.marked_gcs as int, traced: self.traced_gcs as int, remembered: self.remembered_gcs as int, fl: self.fl@ }
    }
    /// X-f64: stands for the expression `self.allocation_debt() > 0.0`
    #[verifier::external_body]
    pub fn debt_gt_zero(&self) -> (r: bool) ensures r == debt_pos(self@) { unimplemented!() }
    /// X-f64: the float statements of `finish_cycle` (wake-up amount, carried debt); K.debt.finish_cycle_*
    #[verifier::external_body]
    pub fn finish_cycle_floats(&mut self, reset_debt: bool)
        ensures final(self)@ == (MV { fl: final(self)@.fl, ..old(self)@ }),
            zero_work_factors(final(self)@.fl) == zero_work_factors(old(self)@.fl),
            finish_floats(old(self)@, final(self)@.fl, reset_debt),
    { unimplemented!() }
}
} // verus!
verus! {
// Facts about the debt formula used by the driver proof.  Each is proved bit-precisely by a Kani row on the
// real `Metrics::allocation_debt` / `finish_cycle`; here they are axioms (listed as assumptions A-debt.*).
pub mod axioms {
use vstd::prelude::*;
use super::spec::*;
pub broadcast axiom fn ax_debt_empty(m: MV)
    ensures m.total == 0 ==> !#[trigger] debt_pos(m);                                  // K.debt.empty_arena
pub broadcast axiom fn ax_debt_zero_factors(a: MV, b: MV)
    ensures zero_work_factors(a.fl) && a.fl == b.fl && a.allocated == b.allocated && a.total > 0 && b.total > 0
        ==> (#[trigger] debt_pos(a) == #[trigger] debt_pos(b));                          // K.debt.zero_factors_work_never_pays
pub broadcast axiom fn ax_debt_reset(pre: MV, post: MV)
    ensures #[trigger] finish_floats(pre, post.fl, true) && post.allocated == 0 ==> !#[trigger] debt_pos(post);   // K.debt.finish_cycle_reset
}
use spec::*;

// ------------------------------------------------------------------------------------------ context
pub struct Context {
    pub metrics: Metrics,
    pub phase: Phase,
    pub all: Option<GcPtr>,
    pub sweep: Option<GcPtr>,
    pub sweep_prev: Option<GcPtr>,
    pub root_needs_trace: bool,
    pub gray: Vec<GcPtr>,
    pub gray_again: Vec<GcPtr>,
    pub heap: Heap,
    pub hist: Ghost<Seq<Phase>>,      // shim-owned: phases entered, appended only by `switch` / `enter`
    pub unwinding: Ghost<bool>,       // shim-owned: set when an X-unwind variant takes its unwinding exit
}

impl Context {
    pub open spec fn view(&self) -> S {
        S { objs: self.heap.g@.objs, all: self.all, sweep: self.sweep, sweep_prev: self.sweep_prev, phase: self.phase,
            root_needs_trace: self.root_needs_trace, gray: self.gray@, gray_again: self.gray_again@, m: self.metrics@,
            dropped: self.heap.g@.dropped, freed: self.heap.g@.freed, edges: self.heap.g@.edges, root_edges: self.heap.g@.root_edges,
            pending: self.heap.g@.pending, stack: self.heap.g@.stack, wstack: self.heap.g@.wstack, hist: self.hist@,
            mutated: self.heap.g@.mutated, unwinding: self.unwinding@ }
    }
}

} // verus!
