// ---- 50_lem_traced.rs (hand-written, fixed; proof only) ----------------------------------------
// I-traced: every Black object that needs tracing has been traced and not re-queued since, i.e. the trace-credit counter is at
// least the number of such objects.  This is what makes `mark_gc_untraced(1)` in a backward barrier safe (finding F1) - it is the
// part of I-count behind the precondition `backward_barrier_pre`.  Kept apart from inv_w: nothing else depends on it.
verus! {
pub mod lem_traced {
use vstd::prelude::*;
use vstd::set_lib::*;
use core::ops::ControlFlow;
use super::spec::*;
use super::inv::*;
use super::lem_basic::*;
use super::{GcPtr, GcColor, Phase};

/// the Black objects whose type needs tracing
pub open spec fn bt(s: S) -> Set<GcPtr> { s.objs.dom().filter(|p: GcPtr| s.objs[p].color == GcColor::Black && s.objs[p].needs_trace) }
pub open spec fn i_traced(s: S) -> bool { bt(s).len() <= s.m.traced }

pub proof fn lemma_bt_finite(s: S)
    ensures bt(s).subset_of(s.objs.dom())
{
}

/// the projection K rows assume: a Black parent that needs tracing has its credit to give back
pub proof fn theorem_traced_credit_available(s: S, parent: GcPtr, child: Option<GcPtr>)
    requires i_traced(s), isobj(s, parent), (child matches Some(c) ==> isobj(s, c))
    ensures backward_barrier_pre(s, parent, child)
{
    lemma_bt_finite(s);
    if s.objs[parent].color == GcColor::Black && s.objs[parent].needs_trace {
        assert(bt(s).contains(parent));
        if bt(s).len() == 0 { bt(s).lemma_len0_is_empty(); assert(false); }
    }
}

/// general step: the Black-and-tracing set of `post` is within that of `pre` plus at most `plus`, and the counter moved accordingly
pub proof fn lemma_traced_step(pre: S, post: S, plus: Set<GcPtr>)
    requires i_traced(pre), bt(post).subset_of(bt(pre).union(plus)), post.m.traced >= pre.m.traced + plus.len(),
    ensures i_traced(post)
{
    lemma_bt_finite(pre); lemma_bt_finite(post);
    lemma_len_subset(bt(post), bt(pre).union(plus));
    lemma_len_union(bt(pre), plus);
}
pub proof fn lemma_traced_requeue(pre: S, post: S, p: GcPtr)
    requires i_traced(pre), isobj(pre, p), pre.objs[p].color == GcColor::Black, pre.objs[p].needs_trace, make_gray_again_rel(pre, post, p),
    ensures i_traced(post)
{
    lemma_bt_finite(pre);
    assert(post.objs.dom() =~= pre.objs.dom());
    lemma_bt_finite(post);
    assert(bt(pre).contains(p));
    assert(bt(post).subset_of(bt(pre).remove(p))) by {
        assert forall|q: GcPtr| bt(post).contains(q) implies bt(pre).remove(p).contains(q) by { assert(q != p); }
    }
    lemma_len_subset(bt(post), bt(pre).remove(p));
}

// ---- one lemma per relation
pub proof fn lemma_traced_marks(pre: S, post: S, es: Seq<Edge>)
    requires i_traced(pre), marks_rel(pre, post, es)
    ensures i_traced(post)
{
    assert(post.objs.dom() =~= pre.objs.dom());
    assert(bt(post).subset_of(bt(pre).union(Set::empty()))) by {
        assert forall|q: GcPtr| bt(post).contains(q) implies bt(pre).contains(q) by { assert(isobj(pre, q)); }
    }
    lemma_traced_step(pre, post, Set::empty());
}
pub proof fn lemma_traced_mark_one(pre: S, post: S, r: ControlFlow<()>)
    requires i_traced(pre), mark_one_rel(pre, post, r)
    ensures i_traced(post)
{
    if pre.gray.len() > 0 || pre.gray_again.len() > 0 {
        let fg = mark_obj_rel(pre, post, true);
        let p = taken(pre, fg); let mid = black_state(pre, fg);
        assert(mid.objs.dom() =~= pre.objs.dom().insert(p));
        assert(post.objs.dom() =~= mid.objs.dom());
        assert(bt(post).subset_of(bt(pre).union(set![p]))) by {
            assert forall|q: GcPtr| bt(post).contains(q) implies bt(pre).union(set![p]).contains(q) by {
                assert(isobj(mid, q));
                if q != p { assert(mid.objs[q] == pre.objs[q]); }
            }
        }
        lemma_traced_step(pre, post, set![p]);
    } else if pre.root_needs_trace {
        let mid = S { root_needs_trace: pre.root_needs_trace, ..post };
        lemma_traced_marks(pre, mid, pre.root_edges);
        assert(bt(post) =~= bt(mid));
    } else {
        assert(bt(post) =~= bt(pre));
    }
}
pub proof fn lemma_traced_unwind(pre: S, post: S)
    requires i_traced(pre), mark_one_unwind_rel(pre, post)
    ensures i_traced(post)
{
    if pre.gray.len() > 0 || pre.gray_again.len() > 0 {
        let fg = unwind_obj_rel(pre, post, true);
        let p = taken(pre, fg); let mid = black_state(pre, fg);
        let mid2 = choose|mid2: S| #[trigger] make_gray_again_rel(mid2, post, p) && marks_rel(mid, mid2, pre.edges[p]) && mid2.objs[p].color == GcColor::Black;
        assert(mid.objs.dom() =~= pre.objs.dom().insert(p));
        assert(mid2.objs.dom() =~= mid.objs.dom());
        assert(post.objs.dom() =~= mid2.objs.dom());
        assert(bt(post).subset_of(bt(pre).union(Set::empty()))) by {
            assert forall|q: GcPtr| bt(post).contains(q) implies bt(pre).contains(q) by {
                assert(q != p); assert(isobj(mid2, q)); assert(isobj(mid, q)); assert(mid.objs[q] == pre.objs[q]);
            }
        }
        lemma_traced_step(pre, post, Set::empty());
    } else {
        lemma_traced_marks(pre, post, pre.root_edges);
    }
}
pub proof fn lemma_traced_sweep(pre: S, post: S, r: ControlFlow<()>)
    requires i_traced(pre), sweep_one_pre(pre), sweep_one_rel(pre, post, r)
    ensures i_traced(post)
{
    lemma_bt_finite(pre);
    assert(post.objs.dom().subset_of(pre.objs.dom())) by {}
    assert(bt(post).subset_of(bt(pre).union(Set::empty()))) by {
        assert forall|q: GcPtr| bt(post).contains(q) implies bt(pre).contains(q) by {}
    }
    lemma_traced_step(pre, post, Set::empty());
}
pub proof fn lemma_traced_link(pre: S, post: S, p: GcPtr)
    requires i_traced(pre), link_pre(pre, p), link_rel(pre, post, p)
    ensures i_traced(post)
{
    assert(post.objs.dom() =~= pre.objs.dom().insert(p));
    assert(bt(post).subset_of(bt(pre).union(Set::empty()))) by {
        assert forall|q: GcPtr| bt(post).contains(q) implies bt(pre).contains(q) by { assert(q != p); }
    }
    lemma_traced_step(pre, post, Set::empty());
}
pub proof fn lemma_traced_resurrect(pre: S, post: S, p: GcPtr)
    requires i_traced(pre), isobj(pre, p), resurrect_rel(pre, post, p)
    ensures i_traced(post)
{
    assert(post.objs.dom() =~= pre.objs.dom());
    assert(bt(post).subset_of(bt(pre).union(Set::empty()))) by {
        assert forall|q: GcPtr| bt(post).contains(q) implies bt(pre).contains(q) by {}
    }
    lemma_traced_step(pre, post, Set::empty());
}
/// finish of a cycle: the counter is reset to 0 and nothing is Black (everything behind an exhausted cursor is White)
pub proof fn lemma_traced_finish(pre: S, post: S, l: Seq<GcPtr>, cur: int)
    requires inv_w(pre, l, cur), pre.phase == Phase::Sweep, pre.sweep is None, post.objs =~= pre.objs, post.m.traced >= 0,
    ensures i_traced(post)
{
    lemma_index_all(l);
    assert(bt(post) =~= Set::<GcPtr>::empty()) by {
        assert forall|q: GcPtr| !bt(post).contains(q) by {
            if isobj(pre, q) { assert(l.contains(q)); let i = l.index_of(q); assert(pre.objs[l[i]].color == GcColor::White); }
        }
    }
}
/// switches, barriers that do nothing, upgrade, root_barrier: objects and counter untouched
pub proof fn lemma_traced_same_objs(pre: S, post: S)
    requires i_traced(pre), post.objs =~= pre.objs, post.m.traced >= pre.m.traced
    ensures i_traced(post)
{
    assert(bt(post) =~= bt(pre));
}
/// a fresh arena
pub proof fn lemma_traced_initial(s: S)
    requires s.objs =~= Map::<GcPtr, Obj>::empty(), s.m.traced >= 0
    ensures i_traced(s)
{
    assert(bt(s) =~= Set::<GcPtr>::empty());
}

} // mod lem_traced
} // verus!
