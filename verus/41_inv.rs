// ---- 41_inv.rs (hand-written, fixed; spec only) ------------------------------------------------
// The global invariant Inv (DESIGN.md section 3).  The abstract `all` list `l` and the sweep cursor `cur`
// are existential witnesses, not stored state.
verus! {
pub mod inv {
use vstd::prelude::*;
use super::spec::*;
use super::{GcPtr, GcColor, Phase};

pub open spec fn at(l: Seq<GcPtr>, i: int) -> Option<GcPtr> { if 0 <= i < l.len() { Some(l[i]) } else { None } }

// ---- I-list: the chain of `next` links is exactly the set of objects; the sweep cursor sits on it
pub open spec fn i_list(s: S, l: Seq<GcPtr>, cur: int) -> bool {
    &&& l.no_duplicates()
    &&& forall|p: GcPtr| #[trigger] isobj(s, p) <==> l.contains(p)
    &&& forall|i: int| 0 <= i < l.len() ==> (#[trigger] s.objs[l[i]]).next == at(l, i + 1)
    &&& s.all == at(l, 0)
    &&& 0 <= cur <= l.len()
    &&& (s.phase == Phase::Sweep ==> s.sweep == at(l, cur) && (cur < l.len() ==> s.sweep_prev == at(l, cur - 1)))
    &&& (s.phase != Phase::Sweep ==> cur == l.len() && s.sweep is None && s.sweep_prev is None)
    &&& s.phase != Phase::Drop
}

// ---- I-colour (queues and colours per phase)
pub open spec fn i_colour(s: S, l: Seq<GcPtr>, cur: int) -> bool {
    &&& forall|p: GcPtr| !isobj(s, p) ==> #[trigger] qcount(s, p) == 0
    &&& (s.phase == Phase::Mark ==> forall|p: GcPtr| #[trigger] isobj(s, p) ==> qcount(s, p) == (if s.objs[p].color == GcColor::Gray { 1nat } else { 0nat }))
    &&& (s.phase != Phase::Mark ==> s.gray.len() == 0 && s.gray_again.len() == 0
            && forall|p: GcPtr| #[trigger] isobj(s, p) ==> s.objs[p].color != GcColor::Gray)
    &&& (s.phase == Phase::Sleep ==> s.root_needs_trace && forall|p: GcPtr| #[trigger] isobj(s, p) ==> s.objs[p].color == GcColor::White)
    &&& (s.phase == Phase::Sweep ==> forall|i: int| 0 <= i < cur ==> (#[trigger] s.objs[l[i]]).color == GcColor::White)
}

// ---- I-live: the live flag is the destructor history; marked objects are live; ghost edges are those of live values
pub open spec fn i_live(s: S) -> bool {
    &&& forall|p: GcPtr| #[trigger] isobj(s, p) ==> (s.objs[p].live <==> !s.dropped.contains(p))
    &&& forall|p: GcPtr| #[trigger] isobj(s, p) && is_marked(s.objs[p].color) ==> s.objs[p].live
    &&& forall|p: GcPtr| #[trigger] s.freed.contains(p) ==> !isobj(s, p)
    &&& forall|p: GcPtr| #[trigger] isobj(s, p) ==> s.edges.dom().contains(p)
    &&& forall|p: GcPtr| #[trigger] isobj(s, p) && !s.objs[p].live ==> s.edges[p].len() == 0
    &&& forall|p: GcPtr| #[trigger] isobj(s, p) && s.edges[p].len() > 0 ==> s.objs[p].needs_trace
    &&& forall|p: GcPtr| #[trigger] s.pending.dom().contains(p) ==> !isobj(s, p) && !s.freed.contains(p) && !s.dropped.contains(p)
            && (s.pending[p].edges.len() > 0 ==> s.pending[p].needs_trace)
}

// ---- I-tri (Mark): a fully traced object has no untraced pointer
pub open spec fn i_tri(s: S) -> bool {
    s.phase == Phase::Mark ==> {
        &&& forall|p: GcPtr, k: int| #![trigger s.edges[p][k]] isobj(s, p) && s.objs[p].color == GcColor::Black && 0 <= k < s.edges[p].len()
                ==> edge_done(s, s.edges[p][k])
        &&& (!s.root_needs_trace ==> forall|k: int| 0 <= k < s.root_edges.len() ==> edge_done(s, #[trigger] s.root_edges[k]))
    }
}

// ---- I-safe: what the running sweep will destruct / release is not pointed to by anything that stays
pub open spec fn idx(l: Seq<GcPtr>, p: GcPtr) -> int { l.index_of(p) }
/// the value of p will be destructed by the running sweep
pub open spec fn condemned(s: S, l: Seq<GcPtr>, cur: int, p: GcPtr) -> bool {
    isobj(s, p) && idx(l, p) >= cur && is_white(s.objs[p].color)
}
/// the block of p will be released by the running sweep
pub open spec fn wcondemned(s: S, l: Seq<GcPtr>, cur: int, p: GcPtr) -> bool {
    isobj(s, p) && idx(l, p) >= cur && s.objs[p].color == GcColor::White
}
pub open spec fn prot(s: S, l: Seq<GcPtr>, cur: int, p: GcPtr) -> bool { isobj(s, p) && s.objs[p].live && !condemned(s, l, cur, p) }
pub open spec fn edge_safe(s: S, l: Seq<GcPtr>, cur: int, e: Edge) -> bool {
    if e.weak { isobj(s, e.to) && !wcondemned(s, l, cur, e.to) } else { prot(s, l, cur, e.to) }
}
pub open spec fn edges_safe(s: S, l: Seq<GcPtr>, cur: int, es: Seq<Edge>) -> bool {
    forall|k: int| 0 <= k < es.len() ==> edge_safe(s, l, cur, #[trigger] es[k])
}
pub open spec fn i_safe(s: S, l: Seq<GcPtr>, cur: int) -> bool {
    &&& forall|p: GcPtr| #[trigger] prot(s, l, cur, p) ==> edges_safe(s, l, cur, s.edges[p])
    &&& edges_safe(s, l, cur, s.root_edges)
    &&& forall|c: GcPtr| #[trigger] s.stack.contains(c) ==> prot(s, l, cur, c)
    &&& forall|c: GcPtr| #[trigger] s.wstack.contains(c) ==> isobj(s, c) && !wcondemned(s, l, cur, c)
    &&& forall|p: GcPtr| #[trigger] s.pending.dom().contains(p) ==> edges_safe(s, l, cur, s.pending[p].edges)
}

// ---- I-count
pub open spec fn i_count(s: S, l: Seq<GcPtr>) -> bool {
    &&& s.m.total == l.len()
    &&& s.m.allocated >= 0 && s.m.dropped >= 0 && s.m.freed >= 0 && s.m.marked >= 0 && s.m.traced >= 0 && s.m.remembered >= 0
}

pub open spec fn inv_w(s: S, l: Seq<GcPtr>, cur: int) -> bool {
    i_list(s, l, cur) && i_colour(s, l, cur) && i_live(s) && i_tri(s) && i_safe(s, l, cur) && i_count(s, l)
}
#[verifier::opaque]
pub open spec fn inv(s: S) -> bool { exists|l: Seq<GcPtr>, cur: int| #[trigger] inv_w(s, l, cur) }

/// no callback is running: nothing is held on a stack, no builder is alive (A-borrowck: collection methods
/// take `&mut Arena`, callbacks and builders borrow it)
pub open spec fn quiescent(s: S) -> bool { s.stack =~= Set::empty() && s.wstack =~= Set::empty() && s.pending =~= Map::empty() }

} // mod inv
} // verus!
