// ---- 51_lem_term.rs (hand-written, fixed; proof only) ------------------------------------------
// Termination measure of the driver loop (C02: finish_cycle terminates from every phase; C09: a debt-driven call returns).
//   rank  = (has the call slept?, phase): strictly decreases at every phase switch of one call;
//   measure = Mark: 2*#unmarked + #Gray + root flag;  Sweep: #objects + #not-White;  each Continue step decreases it.
verus! {
pub mod lem_term {
use vstd::prelude::*;
use vstd::set_lib::*;
use core::ops::ControlFlow;
use super::spec::*;
use super::inv::*;
use super::lem_basic::*;
use super::{GcPtr, GcColor, Phase};

pub open spec fn whites(s: S) -> Set<GcPtr> { s.objs.dom().filter(|p: GcPtr| is_white(s.objs[p].color)) }
pub open spec fn grays(s: S) -> Set<GcPtr> { s.objs.dom().filter(|p: GcPtr| s.objs[p].color == GcColor::Gray) }
pub open spec fn nonwhite(s: S) -> Set<GcPtr> { s.objs.dom().filter(|p: GcPtr| s.objs[p].color != GcColor::White) }
pub open spec fn mark_measure(s: S) -> int { 2 * whites(s).len() + grays(s).len() + (if s.root_needs_trace { 1int } else { 0int }) }
pub open spec fn sweep_measure(s: S) -> int { (s.objs.dom().len() + nonwhite(s).len()) as int }
pub open spec fn measure(s: S) -> int {
    match s.phase { Phase::Mark => mark_measure(s), Phase::Sweep => sweep_measure(s), _ => 0 }
}
pub open spec fn trank(has_slept: bool, ph: Phase) -> int {
    (if has_slept { 0int } else { 3int }) + (match ph { Phase::Mark => 3int, Phase::Sweep => 2int, Phase::Sleep => 1int, Phase::Drop => 0int })
}

pub proof fn lemma_marks_measure(a: S, b: S, es: Seq<Edge>)
    requires marks_rel(a, b, es)
    ensures 2 * whites(b).len() + grays(b).len() <= 2 * whites(a).len() + grays(a).len()
{
    let (wa, wb, ga, gb) = (whites(a), whites(b), grays(a), grays(b));
    assert(b.objs.dom() =~= a.objs.dom());
    assert(wb.subset_of(wa)) by { assert forall|q: GcPtr| wb.contains(q) implies wa.contains(q) by { assert(isobj(a, q)); } }
    let newly = wa.difference(wb);
    assert(gb.subset_of(ga.union(newly))) by {
        assert forall|q: GcPtr| gb.contains(q) implies ga.union(newly).contains(q) by { assert(isobj(a, q)); }
    }
    lemma_len_subset(gb, ga.union(newly));
    assert(gb.len() <= ga.union(newly).len());
    lemma_len_union(ga, newly);
    assert(ga.union(newly).len() <= ga.len() + newly.len());
    assert(wb.disjoint(newly));
    lemma_set_disjoint_lens(wb, newly);
    assert(wb + newly =~= wa);
    assert(newly.len() == wa.len() - wb.len());
    lemma_len_subset(wb, wa);
    assert(wb.len() <= wa.len());
}

pub proof fn lemma_mark_one_decreases(pre: S, post: S, r: ControlFlow<()>, l: Seq<GcPtr>, cur: int)
    requires inv_w(pre, l, cur), pre.phase == Phase::Mark, mark_one_rel(pre, post, r), r is Continue
    ensures 0 <= mark_measure(post) < mark_measure(pre)
{
    if pre.gray.len() > 0 || pre.gray_again.len() > 0 {
        let fg = mark_obj_rel(pre, post, true);
        let p = taken(pre, fg); let mid = black_state(pre, fg);
        if fg { lemma_elem_count(pre.gray, pre.gray.len() - 1); } else { lemma_elem_count(pre.gray_again, pre.gray_again.len() - 1); }
        assert(qcount(pre, p) >= 1);
        assert(isobj(pre, p) && pre.objs[p].color == GcColor::Gray);
        assert(mid.objs.dom() =~= pre.objs.dom());
        assert(whites(mid) =~= whites(pre));
        assert(grays(mid) =~= grays(pre).remove(p));
        assert(grays(pre).contains(p));
        lemma_marks_measure(mid, post, pre.edges[p]);
    } else {
        let mid = S { root_needs_trace: pre.root_needs_trace, ..post };
        lemma_marks_measure(pre, mid, pre.root_edges);
        assert(whites(post) =~= whites(mid) && grays(post) =~= grays(mid));
    }
}

pub proof fn lemma_sweep_one_decreases(pre: S, post: S, r: ControlFlow<()>, l: Seq<GcPtr>, cur: int)
    requires inv_w(pre, l, cur), pre.phase == Phase::Sweep, sweep_one_pre(pre), sweep_one_rel(pre, post, r), r is Continue
    ensures 0 <= sweep_measure(post) < sweep_measure(pre)
{
    let o = pre.sweep->Some_0;
    let ob = pre.objs[o];
    if ob.color == GcColor::White {
        assert(post.objs.dom() =~= pre.objs.dom().remove(o));
        assert(nonwhite(post).subset_of(nonwhite(pre))) by { assert forall|q: GcPtr| nonwhite(post).contains(q) implies nonwhite(pre).contains(q) by {} }
        lemma_len_subset(nonwhite(post), nonwhite(pre));
    } else {
        assert(post.objs.dom() =~= pre.objs.dom());
        assert(nonwhite(pre).contains(o));
        assert(nonwhite(post).subset_of(nonwhite(pre).remove(o))) by { assert forall|q: GcPtr| nonwhite(post).contains(q) implies nonwhite(pre).remove(o).contains(q) by {} }
        lemma_len_subset(nonwhite(post), nonwhite(pre).remove(o));
    }
}

} // mod lem_term
} // verus!
