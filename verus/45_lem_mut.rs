// ---- 45_lem_mut.rs (hand-written, fixed; proof only) -------------------------------------------
// T-inv for the mutator-side collector functions (link, barriers, resurrect, root_barrier) and for the three
// phase switches of the driver.
verus! {
pub mod lem_mut {
use vstd::prelude::*;
use core::ops::ControlFlow;
use super::spec::*;
use super::inv::*;
use super::lem_basic::*;
use super::lem_mark::*;
use super::lemmas::*;
use super::{GcPtr, GcColor, Phase};

/// a step that only changes colours of objects (and queues / counters) and leaves `prot` of every object alone
pub open spec fn colour_step(pre: S, post: S) -> bool {
    &&& recolour_only(pre, post) && same_list(pre, post) && post.phase != Phase::Sweep && post.phase != Phase::Drop
    &&& post.dropped =~= pre.dropped && post.freed =~= pre.freed && post.edges =~= pre.edges && post.root_edges =~= pre.root_edges
    &&& post.pending =~= pre.pending && post.stack =~= pre.stack && post.wstack =~= pre.wstack
}

pub proof fn lemma_push_front_props(l: Seq<GcPtr>, p: GcPtr)
    requires l.no_duplicates(), !l.contains(p)
    ensures
        (seq![p] + l).no_duplicates(), (seq![p] + l).len() == l.len() + 1, (seq![p] + l)[0] == p,
        forall|q: GcPtr| (seq![p] + l).contains(q) <==> (q == p || l.contains(q)),
        forall|i: int| 0 <= i < l.len() ==> (seq![p] + l)[i + 1] == l[i],
{
    let n = seq![p] + l;
    assert forall|q: GcPtr| n.contains(q) <==> (q == p || l.contains(q)) by {
        if n.contains(q) { let i = choose|i: int| 0 <= i < n.len() && n[i] == q; if i > 0 { assert(l[i - 1] == q); } }
        if q == p { assert(n[0] == q); }
        if l.contains(q) { let i = choose|i: int| 0 <= i < l.len() && l[i] == q; assert(n[i + 1] == q); }
    }
    assert forall|i: int, j: int| 0 <= i < n.len() && 0 <= j < n.len() && i != j implies n[i] != n[j] by {
        if i == 0 { assert(l[j - 1] == n[j]); assert(l.contains(n[j])); }
        else if j == 0 { assert(l[i - 1] == n[i]); assert(l.contains(n[i])); }
        else { assert(l[i - 1] == n[i] && l[j - 1] == n[j]); }
    }
}

// ---- Context::link  (ghost mutator op `alloc`).  New list = [p] + l, cursor shifts by one.
pub proof fn lemma_link_inv(pre: S, post: S, p: GcPtr, l: Seq<GcPtr>, cur: int)
    requires inv_w(pre, l, cur), link_pre(pre, p), link_rel(pre, post, p),
    ensures inv_w(post, seq![p] + l, cur + 1),
        prot(post, seq![p] + l, cur + 1, p),
        forall|q: GcPtr| prot(pre, l, cur, q) ==> prot(post, seq![p] + l, cur + 1, q),
{
    let nl = seq![p] + l; let nc = cur + 1;
    assert(!l.contains(p)) by { assert(isobj(pre, p) <==> l.contains(p)); }
    lemma_push_front_props(l, p);
    lemma_index_all(l); lemma_index_all(nl);
    assert forall|q: GcPtr| #[trigger] isobj(post, q) <==> nl.contains(q) by { assert(isobj(pre, q) <==> l.contains(q)); }
    assert forall|q: GcPtr| isobj(pre, q) implies idx(nl, q) == idx(l, q) + 1 && q != p && post.objs[q] == pre.objs[q] by {
        assert(l.contains(q)); let i = l.index_of(q); assert(nl[i + 1] == q);
    }
    assert(idx(nl, p) == 0);
    assert(i_list(post, nl, nc)) by {
        assert forall|i: int| 0 <= i < nl.len() implies (#[trigger] post.objs[nl[i]]).next == at(nl, i + 1) by {
            if i == 0 { assert(pre.all == at(l, 0)); if l.len() > 0 { assert(nl[1] == l[0]); } }
            else { assert(nl[i] == l[i - 1]); assert(l.contains(l[i - 1])); assert(pre.objs[l[i - 1]].next == at(l, i)); if i < l.len() { assert(nl[i + 1] == l[i]); } }
        }
        if pre.phase == Phase::Sweep {
            assert(post.sweep == at(nl, nc)) by { if cur < l.len() { assert(nl[cur + 1] == l[cur]); } }
            if nc < nl.len() {
                if cur == 0 { assert(pre.sweep_prev is None); } else { assert(nl[cur] == l[cur - 1]); }
            }
        }
    }
    assert forall|q: GcPtr| qcount(post, q) == qcount(pre, q) by {}
    assert(i_colour(post, nl, nc)) by {
        assert(qcount(pre, p) == 0);
        assert forall|q: GcPtr| #[trigger] isobj(post, q) implies (post.phase == Phase::Mark ==> qcount(post, q) == (if post.objs[q].color == GcColor::Gray { 1nat } else { 0nat }))
            && (post.phase != Phase::Mark ==> post.objs[q].color != GcColor::Gray) && (post.phase == Phase::Sleep ==> post.objs[q].color == GcColor::White) by {
            if q != p { assert(isobj(pre, q)); }
        }
        assert forall|q: GcPtr| !isobj(post, q) implies #[trigger] qcount(post, q) == 0 by { assert(!isobj(pre, q)); }
        if post.phase == Phase::Sweep {
            assert forall|i: int| 0 <= i < nc implies (#[trigger] post.objs[nl[i]]).color == GcColor::White by {
                if i > 0 { assert(nl[i] == l[i - 1]); assert(l.contains(l[i - 1])); assert(pre.objs[l[i - 1]].color == GcColor::White); }
            }
        }
    }
    assert(i_live(post)) by {
        assert(!pre.freed.contains(p) && !pre.dropped.contains(p)) by { assert(pre.pending.dom().contains(p)); lemma_pending_fresh(pre, p); }
        assert forall|q: GcPtr| #[trigger] isobj(post, q) implies (post.objs[q].live <==> !post.dropped.contains(q)) && post.edges.dom().contains(q)
            && (is_marked(post.objs[q].color) ==> post.objs[q].live) && (!post.objs[q].live ==> post.edges[q].len() == 0)
            && (post.edges[q].len() > 0 ==> post.objs[q].needs_trace) by {
            if q != p { assert(isobj(pre, q)); } else { lemma_pending_fresh(pre, p); }
        }
        assert forall|q: GcPtr| #[trigger] post.freed.contains(q) implies !isobj(post, q) by { assert(pre.freed.contains(q)); }
        assert forall|q: GcPtr| #[trigger] post.pending.dom().contains(q) implies !isobj(post, q) && !post.freed.contains(q) by { assert(pre.pending.dom().contains(q)); }
    }
    assert forall|q: GcPtr| q != p implies (prot(post, nl, nc, q) <==> prot(pre, l, cur, q)) && (wcondemned(post, nl, nc, q) <==> wcondemned(pre, l, cur, q))
        && (isobj(post, q) <==> isobj(pre, q)) by { if isobj(pre, q) {} }
    assert(prot(post, nl, nc, p) && !wcondemned(post, nl, nc, p));
    assert forall|e: Edge| edge_safe(pre, l, cur, e) implies edge_safe(post, nl, nc, e) by { assert(e.to != p); }
    assert(i_safe(post, nl, nc)) by {
        assert forall|q: GcPtr| #[trigger] prot(post, nl, nc, q) implies edges_safe(post, nl, nc, post.edges[q]) by {
            if q == p { assert(edges_safe(pre, l, cur, pre.pending[p].edges)); }
            else { assert(prot(pre, l, cur, q)); assert(edges_safe(pre, l, cur, pre.edges[q])); assert(post.edges[q] == pre.edges[q]); }
        }
        assert(edges_safe(pre, l, cur, pre.root_edges));
        assert forall|c: GcPtr| #[trigger] post.stack.contains(c) implies prot(post, nl, nc, c) by { assert(pre.stack.contains(c)); }
        assert forall|c: GcPtr| #[trigger] post.wstack.contains(c) implies isobj(post, c) && !wcondemned(post, nl, nc, c) by { assert(pre.wstack.contains(c)); }
        assert forall|q: GcPtr| #[trigger] post.pending.dom().contains(q) implies edges_safe(post, nl, nc, post.pending[q].edges) by {
            assert(pre.pending.dom().contains(q)); assert(edges_safe(pre, l, cur, pre.pending[q].edges));
        }
    }
    assert(i_tri(post)) by {
        if post.phase == Phase::Mark {
            assert forall|q: GcPtr, k: int| #![trigger post.edges[q][k]] isobj(post, q) && post.objs[q].color == GcColor::Black && 0 <= k < post.edges[q].len()
                    implies edge_done(post, post.edges[q][k]) by {
                assert(q != p); assert(isobj(pre, q));
                lemma_prot_outside_sweep(pre, l, cur);
                assert(prot(pre, l, cur, q)); assert(edge_safe(pre, l, cur, pre.edges[q][k]));
                assert(edge_done(pre, pre.edges[q][k]));
                assert(pre.edges[q][k].to != p);
            }
            if !post.root_needs_trace {
                assert forall|k: int| 0 <= k < post.root_edges.len() implies edge_done(post, #[trigger] post.root_edges[k]) by {
                    assert(edge_safe(pre, l, cur, pre.root_edges[k])); assert(edge_done(pre, pre.root_edges[k])); assert(pre.root_edges[k].to != p);
                }
            }
        }
    }
}

pub proof fn lemma_pending_fresh(s: S, p: GcPtr)
    requires i_live(s), s.pending.dom().contains(p)
    ensures !isobj(s, p), !s.freed.contains(p), !s.dropped.contains(p)
{
}

// ---- a pure colour step during Mark that keeps the queue bookkeeping: make_gray_again, resurrect
pub proof fn lemma_make_gray_again_inv(pre: S, post: S, p: GcPtr, l: Seq<GcPtr>, cur: int)
    requires inv_w(pre, l, cur), pre.phase == Phase::Mark, make_gray_again_pre(pre, p), make_gray_again_rel(pre, post, p),
    ensures inv_w(post, l, cur),
{
    lemma_prot_outside_sweep(pre, l, cur);
    assert(post.objs.dom() =~= pre.objs.dom());
    assert forall|q: GcPtr| qcount(post, q) == qcount(pre, q) + (if q == p { 1nat } else { 0nat }) by { lemma_qpush_count(pre, post, p, q); }
    lemma_colour_step_parts(pre, post, l, cur);
    assert(i_colour(post, l, cur)) by {
        assert forall|q: GcPtr| #[trigger] isobj(post, q) implies qcount(post, q) == (if post.objs[q].color == GcColor::Gray { 1nat } else { 0nat }) by { assert(isobj(pre, q)); }
        assert forall|q: GcPtr| !isobj(post, q) implies #[trigger] qcount(post, q) == 0 by { assert(!isobj(pre, q)); assert(q != p); }
    }
    assert(i_live(post)) by {
        assert forall|q: GcPtr| #[trigger] isobj(post, q) implies isobj(pre, q) by {}
    }
    assert(i_tri(post)) by {
        assert forall|q: GcPtr, k: int| #![trigger post.edges[q][k]] isobj(post, q) && post.objs[q].color == GcColor::Black && 0 <= k < post.edges[q].len()
                implies edge_done(post, post.edges[q][k]) by {
            assert(isobj(pre, q) && q != p); assert(edge_done(pre, pre.edges[q][k]));
        }
        if !post.root_needs_trace {
            assert forall|k: int| 0 <= k < post.root_edges.len() implies edge_done(post, #[trigger] post.root_edges[k]) by { assert(edge_done(pre, pre.root_edges[k])); }
        }
    }
}

/// the list, liveness, safety and counting parts of Inv do not look at colours outside a sweep
pub proof fn lemma_colour_step_parts(pre: S, post: S, l: Seq<GcPtr>, cur: int)
    requires inv_w(pre, l, cur), pre.phase != Phase::Sweep, colour_step(pre, post), post.m.total == pre.m.total,
        post.m.allocated >= 0 && post.m.dropped >= 0 && post.m.freed >= 0 && post.m.marked >= 0 && post.m.traced >= 0 && post.m.remembered >= 0,
    ensures i_list(post, l, cur), i_safe(post, l, cur), i_count(post, l),
        forall|q: GcPtr| #[trigger] isobj(post, q) ==> (post.objs[q].live <==> !post.dropped.contains(q)) && post.edges.dom().contains(q)
            && (!post.objs[q].live ==> post.edges[q].len() == 0) && (post.edges[q].len() > 0 ==> post.objs[q].needs_trace),
        forall|q: GcPtr| #[trigger] post.freed.contains(q) ==> !isobj(post, q),
        forall|q: GcPtr| #[trigger] post.pending.dom().contains(q) ==> !isobj(post, q) && !post.freed.contains(q),
{
    lemma_prot_outside_sweep(pre, l, cur);
    assert(post.objs.dom() =~= pre.objs.dom());
    assert(i_list(post, l, cur)) by {
        assert forall|i: int| 0 <= i < l.len() implies (#[trigger] post.objs[l[i]]).next == at(l, i + 1) by { lemma_index_of(l, i); assert(isobj(pre, l[i])); }
        assert forall|q: GcPtr| #[trigger] isobj(post, q) <==> l.contains(q) by { assert(isobj(pre, q) <==> l.contains(q)); }
    }
    lemma_prot_outside_sweep(post, l, cur);
    assert forall|q: GcPtr| prot(post, l, cur, q) <==> prot(pre, l, cur, q) by { if isobj(pre, q) {} }
    assert forall|e: Edge| edge_safe(pre, l, cur, e) implies edge_safe(post, l, cur, e) by { if isobj(pre, e.to) {} }
    assert(i_safe(post, l, cur)) by {
        assert forall|q: GcPtr| #[trigger] prot(post, l, cur, q) implies edges_safe(post, l, cur, post.edges[q]) by {
            assert(prot(pre, l, cur, q)); assert(edges_safe(pre, l, cur, pre.edges[q]));
        }
        assert(edges_safe(pre, l, cur, pre.root_edges));
        assert forall|c: GcPtr| #[trigger] post.stack.contains(c) implies prot(post, l, cur, c) by { assert(pre.stack.contains(c)); }
        assert forall|c: GcPtr| #[trigger] post.wstack.contains(c) implies isobj(post, c) && !wcondemned(post, l, cur, c) by { assert(pre.wstack.contains(c)); }
        assert forall|q: GcPtr| #[trigger] post.pending.dom().contains(q) implies edges_safe(post, l, cur, post.pending[q].edges) by {
            assert(pre.pending.dom().contains(q)); assert(edges_safe(pre, l, cur, pre.pending[q].edges));
        }
    }
    assert forall|q: GcPtr| #[trigger] isobj(post, q) implies (post.objs[q].live <==> !post.dropped.contains(q)) && post.edges.dom().contains(q)
            && (!post.objs[q].live ==> post.edges[q].len() == 0) && (post.edges[q].len() > 0 ==> post.objs[q].needs_trace) by { assert(isobj(pre, q)); }
    assert forall|q: GcPtr| #[trigger] post.freed.contains(q) implies !isobj(post, q) by { assert(pre.freed.contains(q)); }
    assert forall|q: GcPtr| #[trigger] post.pending.dom().contains(q) implies !isobj(post, q) && !post.freed.contains(q) by { assert(pre.pending.dom().contains(q)); }
}

pub proof fn lemma_resurrect_inv(pre: S, post: S, p: GcPtr, l: Seq<GcPtr>, cur: int)
    requires inv_w(pre, l, cur), resurrect_pre(pre, p), resurrect_rel(pre, post, p),
    ensures inv_w(post, l, cur),
{
    lemma_prot_outside_sweep(pre, l, cur);
    assert(post.objs.dom() =~= pre.objs.dom());
    if is_white(pre.objs[p].color) {
        assert forall|q: GcPtr| qcount(post, q) == qcount(pre, q) + (if q == p { 1nat } else { 0nat }) by { lemma_qpush_count(pre, post, p, q); }
    } else {
        assert forall|q: GcPtr| qcount(post, q) == qcount(pre, q) by {}
    }
    lemma_colour_step_parts(pre, post, l, cur);
    assert(i_colour(post, l, cur)) by {
        assert forall|q: GcPtr| #[trigger] isobj(post, q) implies qcount(post, q) == (if post.objs[q].color == GcColor::Gray { 1nat } else { 0nat }) by { assert(isobj(pre, q)); }
        assert forall|q: GcPtr| !isobj(post, q) implies #[trigger] qcount(post, q) == 0 by { assert(!isobj(pre, q)); assert(q != p); }
    }
    assert(i_live(post)) by {
        assert forall|q: GcPtr| #[trigger] isobj(post, q) && is_marked(post.objs[q].color) implies post.objs[q].live by { assert(isobj(pre, q)); }
    }
    assert(i_tri(post)) by {
        assert forall|q: GcPtr, k: int| #![trigger post.edges[q][k]] isobj(post, q) && post.objs[q].color == GcColor::Black && 0 <= k < post.edges[q].len()
                implies edge_done(post, post.edges[q][k]) by {
            assert(isobj(pre, q)); assert(edge_done(pre, pre.edges[q][k]));
        }
        if !post.root_needs_trace {
            assert forall|k: int| 0 <= k < post.root_edges.len() implies edge_done(post, #[trigger] post.root_edges[k]) by { assert(edge_done(pre, pre.root_edges[k])); }
        }
    }
}

pub proof fn lemma_root_barrier_inv(pre: S, post: S, l: Seq<GcPtr>, cur: int)
    requires inv_w(pre, l, cur), root_barrier_rel(pre, post),
    ensures inv_w(post, l, cur),
{
    if pre.phase == Phase::Mark && !pre.root_needs_trace {
        assert(inv_parts(pre, l, cur));
        lemma_parts_flag(pre, post, l, cur);
        assert(i_tri(post)) by {
            assert forall|q: GcPtr, k: int| #![trigger post.edges[q][k]] isobj(post, q) && post.objs[q].color == GcColor::Black && 0 <= k < post.edges[q].len()
                    implies edge_done(post, post.edges[q][k]) by { assert(isobj(pre, q)); assert(edge_done(pre, pre.edges[q][k])); }
        }
    } else {
        assert(post == pre);
    }
}

/// `same` states satisfy the same invariant (upgrade, gray_remaining, barriers that do nothing)
pub proof fn lemma_same_inv(pre: S, post: S, l: Seq<GcPtr>, cur: int)
    requires inv_w(pre, l, cur), same(pre, post),
    ensures inv_w(post, l, cur),
{
    assert(post == pre);
}

// ---- the three phase switches of the driver
/// Sleep -> Mark
pub proof fn lemma_wake_inv(pre: S, post: S, l: Seq<GcPtr>, cur: int)
    requires inv_w(pre, l, cur), pre.phase == Phase::Sleep, switch_rel(pre, post, Phase::Mark),
    ensures inv_w(post, l, cur),
{
    lemma_prot_outside_sweep(pre, l, cur);
    assert forall|q: GcPtr| qcount(post, q) == qcount(pre, q) by {}
    assert forall|q: GcPtr| qcount(pre, q) == 0 by { lemma_count_empty(pre.gray, q); lemma_count_empty(pre.gray_again, q); }
    lemma_colour_step_parts(pre, post, l, cur);
    assert(i_colour(post, l, cur)) by {
        assert forall|q: GcPtr| #[trigger] isobj(post, q) implies qcount(post, q) == (if post.objs[q].color == GcColor::Gray { 1nat } else { 0nat }) by { assert(isobj(pre, q)); }
    }
    assert(i_live(post)) by {
        assert forall|q: GcPtr| #[trigger] isobj(post, q) && is_marked(post.objs[q].color) implies post.objs[q].live by { assert(isobj(pre, q)); }
    }
    assert(i_tri(post)) by {
        assert forall|q: GcPtr, k: int| #![trigger post.edges[q][k]] isobj(post, q) && post.objs[q].color == GcColor::Black && 0 <= k < post.edges[q].len()
                implies edge_done(post, post.edges[q][k]) by { assert(isobj(pre, q)); }
    }
}

/// Mark -> Sweep (`switch(Sweep); sweep = all`): everything marked is protected, everything else is condemned
pub proof fn lemma_enter_sweep_inv(pre: S, mid: S, post: S, l: Seq<GcPtr>, cur: int)
    requires inv_w(pre, l, cur), pre.phase == Phase::Mark, !gray_remaining_spec(pre), quiescent(pre),
        switch_rel(pre, mid, Phase::Sweep), post == (S { sweep: mid.all, ..mid }),
    ensures inv_w(post, l, 0),
{
    lemma_prot_outside_sweep(pre, l, cur);
    lemma_index_all(l);
    assert forall|q: GcPtr| qcount(post, q) == qcount(pre, q) by {}
    assert forall|q: GcPtr| qcount(pre, q) == 0 by { lemma_count_empty(pre.gray, q); lemma_count_empty(pre.gray_again, q); }
    assert(post.objs =~= pre.objs);
    assert forall|q: GcPtr| #[trigger] isobj(post, q) implies post.objs[q].color != GcColor::Gray by { assert(isobj(pre, q)); assert(qcount(pre, q) == 0); }
    assert(i_list(post, l, 0));
    assert(i_colour(post, l, 0));
    assert(i_live(post));
    assert(i_tri(post));
    assert(i_count(post, l));
    // marked == Black here; Black objects are protected and so is everything they point to
    assert forall|q: GcPtr| prot(post, l, 0, q) <==> isobj(pre, q) && pre.objs[q].color == GcColor::Black by {
        if isobj(pre, q) { assert(l.contains(q)); assert(idx(l, q) >= 0); }
    }
    assert forall|q: GcPtr| wcondemned(post, l, 0, q) <==> isobj(pre, q) && pre.objs[q].color == GcColor::White by {
        if isobj(pre, q) { assert(l.contains(q)); assert(idx(l, q) >= 0); }
    }
    assert(i_safe(post, l, 0)) by {
        assert forall|q: GcPtr| #[trigger] prot(post, l, 0, q) implies edges_safe(post, l, 0, post.edges[q]) by {
            assert forall|k: int| 0 <= k < post.edges[q].len() implies edge_safe(post, l, 0, #[trigger] post.edges[q][k]) by {
                let e = pre.edges[q][k];
                assert(prot(pre, l, cur, q)); assert(edge_safe(pre, l, cur, e)); assert(edge_done(pre, e));
                assert(isobj(pre, e.to));
            }
        }
        assert forall|k: int| 0 <= k < post.root_edges.len() implies edge_safe(post, l, 0, #[trigger] post.root_edges[k]) by {
            let e = pre.root_edges[k];
            assert(edge_safe(pre, l, cur, e)); assert(edge_done(pre, e)); assert(isobj(pre, e.to));
        }
    }
}

/// Sweep -> Sleep (`finish_cycle; root_needs_trace = true; switch(Sleep)`) after the cursor is exhausted
pub proof fn lemma_finish_inv(pre: S, post: S, l: Seq<GcPtr>, cur: int)
    requires inv_w(pre, l, cur), pre.phase == Phase::Sweep, pre.sweep is None,
        post.objs =~= pre.objs, same_queues(pre, post), post.all == pre.all, post.sweep is None, post.sweep_prev is None,
        post.phase == Phase::Sleep, post.root_needs_trace, post.m.total == pre.m.total,
        post.m.allocated >= 0 && post.m.dropped >= 0 && post.m.freed >= 0 && post.m.marked >= 0 && post.m.traced >= 0 && post.m.remembered >= 0,
        post.dropped =~= pre.dropped, post.freed =~= pre.freed, post.edges =~= pre.edges, post.root_edges =~= pre.root_edges, post.pending =~= pre.pending,
        post.stack =~= pre.stack, post.wstack =~= pre.wstack,
    ensures inv_w(post, l, l.len() as int),
{
    let n = l.len() as int;
    assert(cur == n);
    lemma_index_all(l);
    assert forall|q: GcPtr| qcount(post, q) == qcount(pre, q) by {}
    assert forall|q: GcPtr| #[trigger] isobj(post, q) implies post.objs[q].color == GcColor::White by {
        assert(isobj(pre, q)); assert(l.contains(q)); let i = l.index_of(q); assert(pre.objs[l[i]].color == GcColor::White);
    }
    assert forall|q: GcPtr| !condemned(pre, l, cur, q) && !wcondemned(pre, l, cur, q) by { if isobj(pre, q) { assert(l.contains(q)); } }
    assert forall|q: GcPtr| !condemned(post, l, n, q) && !wcondemned(post, l, n, q) by { if isobj(post, q) { assert(l.contains(q)); } }
    assert forall|q: GcPtr| prot(post, l, n, q) <==> prot(pre, l, cur, q) by {}
    assert forall|e: Edge| edge_safe(pre, l, cur, e) implies edge_safe(post, l, n, e) by {}
    assert(i_list(post, l, n));
    assert(i_colour(post, l, n));
    assert(i_live(post));
    assert(i_safe(post, l, n)) by {
        assert forall|q: GcPtr| #[trigger] prot(post, l, n, q) implies edges_safe(post, l, n, post.edges[q]) by {
            assert(prot(pre, l, cur, q)); assert(edges_safe(pre, l, cur, pre.edges[q]));
        }
        assert(edges_safe(pre, l, cur, pre.root_edges));
        assert forall|q: GcPtr| #[trigger] post.pending.dom().contains(q) implies edges_safe(post, l, n, post.pending[q].edges) by {
            assert(edges_safe(pre, l, cur, pre.pending[q].edges));
        }
    }
}

} // mod lem_mut
} // verus!
