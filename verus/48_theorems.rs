// ---- 48_theorems.rs (hand-written, fixed; proof only) ------------------------------------------
// The ghost mutator model (what a callback can do to the graph, with the preconditions the K.path.* rows establish
// on the real API) and the property theorems: each is "Inv ==> statement of the property".
verus! {
pub mod theorems {
use vstd::prelude::*;
use super::spec::*;
use super::inv::*;
use super::lem_basic::*;
use super::lem_mark::*;
use super::lem_mut::*;
use super::lemmas::*;
use super::{GcPtr, GcColor, Phase};

// ------------------------------------------------------------------------------------------ reachability
/// p is reachable by a strong path of length <= n from the root value or from a pointer held by the running callback
pub open spec fn reach_n(s: S, p: GcPtr, n: nat) -> bool
    decreases n
{
    if n == 0 {
        s.stack.contains(p) || exists|k: int| 0 <= k < s.root_edges.len() && !(#[trigger] s.root_edges[k]).weak && s.root_edges[k].to == p
    } else {
        reach_n(s, p, (n - 1) as nat)
        || exists|q: GcPtr, k: int| #![trigger s.edges[q][k]] reach_n(s, q, (n - 1) as nat) && 0 <= k < s.edges[q].len() && !s.edges[q][k].weak && s.edges[q][k].to == p
    }
}
pub open spec fn reach(s: S, p: GcPtr) -> bool { exists|n: nat| reach_n(s, p, n) }

pub proof fn lemma_reach_prot(s: S, l: Seq<GcPtr>, cur: int, p: GcPtr, n: nat)
    requires inv_w(s, l, cur), reach_n(s, p, n)
    ensures prot(s, l, cur, p)
    decreases n
{
    if n == 0 {
        if !s.stack.contains(p) {
            let k = choose|k: int| 0 <= k < s.root_edges.len() && !(#[trigger] s.root_edges[k]).weak && s.root_edges[k].to == p;
            assert(edge_safe(s, l, cur, s.root_edges[k]));
        }
    } else if reach_n(s, p, (n - 1) as nat) {
        lemma_reach_prot(s, l, cur, p, (n - 1) as nat);
    } else {
        let (q, k) = choose|q: GcPtr, k: int| #![trigger s.edges[q][k]] reach_n(s, q, (n - 1) as nat) && 0 <= k < s.edges[q].len() && !s.edges[q][k].weak && s.edges[q][k].to == p;
        lemma_reach_prot(s, l, cur, q, (n - 1) as nat);
        assert(edges_safe(s, l, cur, s.edges[q]));
        assert(edge_safe(s, l, cur, s.edges[q][k]));
    }
}

/// T-safe / C01: in every state satisfying Inv, whatever is strongly reachable from the root (or held by the running
/// callback) is an allocated block whose value has not been destructed and whose memory has not been released.
/// Since Inv holds after every mutator operation and every collector increment (T-inv), this is the statement
/// "never destructed or released while strongly reachable", for every interleaving and granularity.
pub proof fn theorem_c01_reachable_is_alive(s: S, p: GcPtr)
    requires inv(s), reach(s, p)
    ensures isobj(s, p), s.objs[p].live, !s.dropped.contains(p), !s.freed.contains(p)
{
    reveal(inv);
    let (l, cur) = choose|l: Seq<GcPtr>, cur: int| #[trigger] inv_w(s, l, cur);
    let n = choose|n: nat| reach_n(s, p, n);
    lemma_reach_prot(s, l, cur, p, n);
}

/// C01, second sentence / C17 "intact": no collector step writes a value: the ghost edges (= the pointers a value holds)
/// of every object that stays live are unchanged by every collector relation.  (Payload bytes: row K.step.payload_frame.)
pub proof fn theorem_values_untouched_by_sweep(pre: S, post: S, r: core::ops::ControlFlow<()>, p: GcPtr)
    requires sweep_one_rel(pre, post, r), isobj(post, p), post.objs[p].live
    ensures post.edges[p] == pre.edges[p], pre.objs[p].live
{
}
pub proof fn theorem_values_untouched_by_marking(pre: S, post: S, es: Seq<Edge>)
    requires marks_rel(pre, post, es)
    ensures post.edges == pre.edges, post.root_edges == pre.root_edges
{
}

// ------------------------------------------------------------------------------------------ C03
/// every function a callback can reach reclaims nothing: no destructor runs, no block is released, no object disappears
pub proof fn theorem_c03_mutator_side_reclaims_nothing(pre: S, post: S, p: GcPtr, c: Option<GcPtr>, b: bool)
    requires ({
        ||| link_rel(pre, post, p)
        ||| backward_barrier_rel(pre, post, p, c)
        ||| forward_barrier_rel(pre, post, c, p)
        ||| forward_barrier_weak_rel(pre, post, c, p)
        ||| upgrade_rel(pre, post, p, b)
        ||| (isobj(pre, p) && resurrect_rel(pre, post, p))
        ||| root_barrier_rel(pre, post)
        ||| (isobj(pre, p) && trace_rel(pre, post, p))
        ||| (isobj(pre, p) && trace_weak_rel(pre, post, p))
    }),
    ensures no_reclaim(pre, post)
{
}

// ------------------------------------------------------------------------------------------ C05
/// a weak pointer held by a protected object (or by the callback) points to a block that is still allocated: it can be
/// queried in every phase; `is_dropped` (= !live) is exactly "the destructor has run"
pub proof fn theorem_c05_weak_target_allocated(s: S, holder: GcPtr, k: int)
    requires inv(s), reach(s, holder), 0 <= k < s.edges[holder].len(), s.edges[holder][k].weak
    ensures isobj(s, s.edges[holder][k].to), s.objs[s.edges[holder][k].to].live <==> !s.dropped.contains(s.edges[holder][k].to)
{
    reveal(inv);
    let (l, cur) = choose|l: Seq<GcPtr>, cur: int| #[trigger] inv_w(s, l, cur);
    let n = choose|n: nat| reach_n(s, holder, n);
    lemma_reach_prot(s, l, cur, holder, n);
    assert(edges_safe(s, l, cur, s.edges[holder]));
    assert(edge_safe(s, l, cur, s.edges[holder][k]));
}
/// upgrade never fails for a strongly reachable target
pub proof fn theorem_c05_upgrade_succeeds_for_reachable(s: S, c: GcPtr)
    requires inv(s), reach(s, c)
    ensures upgrade_ok(s, c)
{
    reveal(inv);
    let (l, cur) = choose|l: Seq<GcPtr>, cur: int| #[trigger] inv_w(s, l, cur);
    let n = choose|n: nat| reach_n(s, c, n);
    lemma_reach_prot(s, l, cur, c, n);
    if s.phase == Phase::Sweep && s.objs[c].color == GcColor::WhiteWeak {
        lemma_index_all(l);
        assert(l.contains(c));
        let i = l.index_of(c);
        assert(i < cur);
        assert(s.objs[l[i]].color == GcColor::White);
    }
}
/// a successful upgrade yields a pointer that is safe to hold and store: it is protected, i.e. adding it to the callback's
/// stack keeps Inv (and with it everything reachable from it, by T-safe)
pub proof fn theorem_c05_upgraded_pointer_is_protected(s: S, post: S, l: Seq<GcPtr>, cur: int, c: GcPtr)
    requires inv_w(s, l, cur), isobj(s, c), !wcondemned(s, l, cur, c), upgrade_ok(s, c), post == (S { stack: s.stack.insert(c), ..s })
    ensures prot(s, l, cur, c), inv_w(post, l, cur)
{
    assert(prot(s, l, cur, c));
    lemma_stack_change(s, post, l, cur);
}

/// Inv does not depend on the callback's stack except through "everything on it is protected"
pub proof fn lemma_stack_change(s: S, post: S, l: Seq<GcPtr>, cur: int)
    requires inv_w(s, l, cur), post == (S { stack: post.stack, wstack: post.wstack, ..s }),
        forall|c: GcPtr| #[trigger] post.stack.contains(c) ==> prot(s, l, cur, c),
        forall|c: GcPtr| #[trigger] post.wstack.contains(c) ==> isobj(s, c) && !wcondemned(s, l, cur, c),
    ensures inv_w(post, l, cur)
{
    assert forall|q: GcPtr| qcount(post, q) == qcount(s, q) by {}
    assert forall|q: GcPtr| prot(post, l, cur, q) <==> prot(s, l, cur, q) by {}
    assert forall|e: Edge| edge_safe(s, l, cur, e) <==> edge_safe(post, l, cur, e) by {}
    assert(i_safe(post, l, cur)) by {
        assert forall|q: GcPtr| #[trigger] prot(post, l, cur, q) implies edges_safe(post, l, cur, post.edges[q]) by {
            assert(prot(s, l, cur, q)); assert(edges_safe(s, l, cur, s.edges[q]));
        }
        assert forall|q: GcPtr| #[trigger] post.pending.dom().contains(q) implies edges_safe(post, l, cur, post.pending[q].edges) by {
            assert(edges_safe(s, l, cur, s.pending[q].edges));
        }
        assert(edges_safe(s, l, cur, s.root_edges));
    }
    assert(i_tri(post)) by {
        if post.phase == Phase::Mark {
            assert forall|q: GcPtr, k: int| #![trigger post.edges[q][k]] isobj(post, q) && post.objs[q].color == GcColor::Black && 0 <= k < post.edges[q].len()
                    implies edge_done(post, post.edges[q][k]) by { assert(edge_done(s, s.edges[q][k])); }
        }
    }
}

// ------------------------------------------------------------------------------------------ C06: the ghost mutator operations
/// reading a pointer out of an object the callback holds: the target joins the stack
pub proof fn ghost_read_edge(s: S, post: S, l: Seq<GcPtr>, cur: int, holder: GcPtr, k: int)
    requires inv_w(s, l, cur), s.stack.contains(holder), 0 <= k < s.edges[holder].len(),
        post == (if s.edges[holder][k].weak { S { wstack: s.wstack.insert(s.edges[holder][k].to), ..s } } else { S { stack: s.stack.insert(s.edges[holder][k].to), ..s } }),
    ensures inv_w(post, l, cur)
{
    assert(prot(s, l, cur, holder));
    assert(edges_safe(s, l, cur, s.edges[holder]));
    assert(edge_safe(s, l, cur, s.edges[holder][k]));
    lemma_stack_change(s, post, l, cur);
}

/// ADOPTION: an already allocated object `p` held by the callback comes to hold a pointer to `c`.  The precondition is exactly what
/// the barrier contracts (V rows *.adopt) and the path rows (K.path.*) establish: can_adopt / can_adopt_weak.
pub proof fn ghost_adopt(s: S, post: S, l: Seq<GcPtr>, cur: int, p: GcPtr, c: GcPtr, weak: bool)
    requires inv_w(s, l, cur), s.stack.contains(p), s.objs[p].needs_trace,
        if weak { s.wstack.contains(c) || s.stack.contains(c) } else { s.stack.contains(c) },
        if weak { can_adopt_weak(s, p, c) } else { can_adopt(s, p, c) },
        post == (S { edges: s.edges.insert(p, s.edges[p].push(Edge { weak: weak, to: c })), mutated: true, ..s }),
    ensures inv_w(post, l, cur)
{
    let e = Edge { weak: weak, to: c };
    assert(prot(s, l, cur, p));
    assert(edge_safe(s, l, cur, e));
    assert forall|q: GcPtr| qcount(post, q) == qcount(s, q) by {}
    assert forall|q: GcPtr| prot(post, l, cur, q) <==> prot(s, l, cur, q) by {}
    assert forall|x: Edge| edge_safe(s, l, cur, x) <==> edge_safe(post, l, cur, x) by {}
    assert(i_live(post)) by {
        assert forall|q: GcPtr| #[trigger] isobj(post, q) implies post.edges.dom().contains(q) && (!post.objs[q].live ==> post.edges[q].len() == 0)
            && (post.edges[q].len() > 0 ==> post.objs[q].needs_trace) by {
            if q != p { assert(post.edges[q] == s.edges[q]); }
        }
    }
    assert(i_safe(post, l, cur)) by {
        assert forall|q: GcPtr| #[trigger] prot(post, l, cur, q) implies edges_safe(post, l, cur, post.edges[q]) by {
            assert(prot(s, l, cur, q)); assert(edges_safe(s, l, cur, s.edges[q]));
            if q == p {
                assert forall|k: int| 0 <= k < post.edges[p].len() implies edge_safe(post, l, cur, #[trigger] post.edges[p][k]) by {
                    if k < s.edges[p].len() { assert(post.edges[p][k] == s.edges[p][k]); assert(edge_safe(s, l, cur, s.edges[p][k])); }
                }
            }
        }
        assert forall|q: GcPtr| #[trigger] post.pending.dom().contains(q) implies edges_safe(post, l, cur, post.pending[q].edges) by {
            assert(edges_safe(s, l, cur, s.pending[q].edges));
        }
        assert(edges_safe(s, l, cur, s.root_edges));
    }
    assert(i_tri(post)) by {
        if post.phase == Phase::Mark {
            assert forall|q: GcPtr, k: int| #![trigger post.edges[q][k]] isobj(post, q) && post.objs[q].color == GcColor::Black && 0 <= k < post.edges[q].len()
                    implies edge_done(post, post.edges[q][k]) by {
                if q != p { assert(post.edges[q] == s.edges[q]); assert(edge_done(s, s.edges[q][k])); }
                else if k < s.edges[p].len() { assert(post.edges[p][k] == s.edges[p][k]); assert(edge_done(s, s.edges[p][k])); }
                else { assert(post.edges[p][k] == e); }
            }
        }
    }
}

/// T-barrier: the general (parent-only) backward barrier keeps its strength: "p may adopt anything" is stable under any amount of
/// marking work done on behalf of the callback (forward barriers, resurrection), allocation and the other barriers
pub proof fn theorem_c06_parent_only_barrier_is_stable(pre: S, post: S, es: Seq<Edge>, p: GcPtr)
    requires isobj(pre, p), pre.objs[p].needs_trace, can_adopt_any(pre, p), marks_rel(pre, post, es)
    ensures can_adopt_any(post, p)
{
}
pub proof fn theorem_c06_parent_only_barrier_stable_under_requeue(pre: S, post: S, q: GcPtr, p: GcPtr)
    requires isobj(pre, p), can_adopt_any(pre, p), make_gray_again_rel(pre, post, q)
    ensures can_adopt_any(post, p)
{
}
/// ... and the general (child-only) forward barrier: "c may be adopted by anything" is stable too
pub proof fn theorem_c06_child_only_barrier_is_stable(pre: S, post: S, es: Seq<Edge>, c: GcPtr)
    requires isobj(pre, c), adoptable_by_any(pre, c), marks_rel(pre, post, es)
    ensures adoptable_by_any(post, c)
{
}
pub proof fn theorem_c06_child_only_barrier_stable_under_requeue(pre: S, post: S, q: GcPtr, c: GcPtr)
    requires isobj(pre, c), adoptable_by_any(pre, c), make_gray_again_rel(pre, post, q)
    ensures adoptable_by_any(post, c)
{
}

/// root replacement (mutate_root / map_root): after root_barrier the root may come to hold anything the callback holds
pub proof fn ghost_write_root(s: S, post: S, l: Seq<GcPtr>, cur: int, new_edges: Seq<Edge>)
    requires inv_w(s, l, cur), s.phase != Phase::Mark || s.root_needs_trace,
        forall|k: int| 0 <= k < new_edges.len() ==> if (#[trigger] new_edges[k]).weak { s.wstack.contains(new_edges[k].to) || s.stack.contains(new_edges[k].to) } else { s.stack.contains(new_edges[k].to) },
        post == (S { root_edges: new_edges, mutated: true, ..s }),
    ensures inv_w(post, l, cur)
{
    assert forall|q: GcPtr| qcount(post, q) == qcount(s, q) by {}
    assert forall|q: GcPtr| prot(post, l, cur, q) <==> prot(s, l, cur, q) by {}
    assert forall|x: Edge| edge_safe(s, l, cur, x) <==> edge_safe(post, l, cur, x) by {}
    assert(i_safe(post, l, cur)) by {
        assert forall|q: GcPtr| #[trigger] prot(post, l, cur, q) implies edges_safe(post, l, cur, post.edges[q]) by {
            assert(prot(s, l, cur, q)); assert(edges_safe(s, l, cur, s.edges[q]));
        }
        assert forall|q: GcPtr| #[trigger] post.pending.dom().contains(q) implies edges_safe(post, l, cur, post.pending[q].edges) by {
            assert(edges_safe(s, l, cur, s.pending[q].edges));
        }
        assert forall|k: int| 0 <= k < new_edges.len() implies edge_safe(post, l, cur, #[trigger] new_edges[k]) by {
            let e = new_edges[k];
            if s.stack.contains(e.to) { assert(prot(s, l, cur, e.to)); }
        }
    }
    assert(i_tri(post)) by {
        if post.phase == Phase::Mark {
            assert forall|q: GcPtr, k: int| #![trigger post.edges[q][k]] isobj(post, q) && post.objs[q].color == GcColor::Black && 0 <= k < post.edges[q].len()
                    implies edge_done(post, post.edges[q][k]) by { assert(edge_done(s, s.edges[q][k])); }
        }
    }
}

/// dropping a pointer (overwriting a field, clearing a slot) never hurts
pub proof fn ghost_remove_edge(s: S, post: S, l: Seq<GcPtr>, cur: int, p: GcPtr, k: int)
    requires inv_w(s, l, cur), isobj(s, p), 0 <= k < s.edges[p].len(),
        post == (S { edges: s.edges.insert(p, s.edges[p].remove(k)), mutated: true, ..s }),
    ensures inv_w(post, l, cur)
{
    assert forall|q: GcPtr| qcount(post, q) == qcount(s, q) by {}
    assert forall|q: GcPtr| prot(post, l, cur, q) <==> prot(s, l, cur, q) by {}
    assert forall|x: Edge| edge_safe(s, l, cur, x) <==> edge_safe(post, l, cur, x) by {}
    let ne = s.edges[p].remove(k);
    assert forall|j: int| 0 <= j < ne.len() implies ne[j] == s.edges[p][if j < k { j } else { j + 1 }] by {}
    assert(i_live(post)) by {
        assert forall|q: GcPtr| #[trigger] isobj(post, q) implies post.edges.dom().contains(q) && (!post.objs[q].live ==> post.edges[q].len() == 0)
            && (post.edges[q].len() > 0 ==> post.objs[q].needs_trace) by {
            if q != p { assert(post.edges[q] == s.edges[q]); }
        }
    }
    assert(i_safe(post, l, cur)) by {
        assert forall|q: GcPtr| #[trigger] prot(post, l, cur, q) implies edges_safe(post, l, cur, post.edges[q]) by {
            assert(prot(s, l, cur, q)); assert(edges_safe(s, l, cur, s.edges[q]));
            if q == p {
                assert forall|j: int| 0 <= j < ne.len() implies edge_safe(post, l, cur, #[trigger] ne[j]) by {
                    assert(edge_safe(s, l, cur, s.edges[p][if j < k { j } else { j + 1 }]));
                }
            }
        }
        assert forall|q: GcPtr| #[trigger] post.pending.dom().contains(q) implies edges_safe(post, l, cur, post.pending[q].edges) by {
            assert(edges_safe(s, l, cur, s.pending[q].edges));
        }
        assert(edges_safe(s, l, cur, s.root_edges));
    }
    assert(i_tri(post)) by {
        if post.phase == Phase::Mark {
            assert forall|q: GcPtr, j: int| #![trigger post.edges[q][j]] isobj(post, q) && post.objs[q].color == GcColor::Black && 0 <= j < post.edges[q].len()
                    implies edge_done(post, post.edges[q][j]) by {
                if q != p { assert(post.edges[q] == s.edges[q]); assert(edge_done(s, s.edges[q][j])); }
                else { assert(edge_done(s, s.edges[p][if j < k { j } else { j + 1 }])); }
            }
        }
    }
}

/// the callback returns: nothing is held on the stack any more (what it stored is reachable through the graph)
pub proof fn ghost_callback_end(s: S, post: S, l: Seq<GcPtr>, cur: int)
    requires inv_w(s, l, cur), s.pending =~= Map::empty(), post == (S { stack: Set::empty(), wstack: Set::empty(), ..s }),
    ensures inv_w(post, l, cur), quiescent(post)
{
    lemma_stack_change(s, post, l, cur);
}

// ------------------------------------------------------------------------------------------ C07
/// T-mark: when a MarkedArena is handed out (Mark, nothing gray, root traced) every object strongly reachable from the root is
/// Black, so neither it nor a weak pointer to it reports is_dead (is_dead = White or WhiteWeak)
pub proof fn lemma_marked_reach(s: S, l: Seq<GcPtr>, cur: int, p: GcPtr, n: nat)
    requires inv_w(s, l, cur), s.phase == Phase::Mark, !gray_remaining_spec(s), s.stack =~= Set::empty(), reach_n(s, p, n)
    ensures isobj(s, p), s.objs[p].color == GcColor::Black
    decreases n
{
    lemma_reach_prot(s, l, cur, p, n);
    assert forall|q: GcPtr| qcount(s, q) == 0 by { lemma_count_empty(s.gray, q); lemma_count_empty(s.gray_again, q); }
    if n == 0 {
        let k = choose|k: int| 0 <= k < s.root_edges.len() && !(#[trigger] s.root_edges[k]).weak && s.root_edges[k].to == p;
        assert(edge_done(s, s.root_edges[k]));
    } else if reach_n(s, p, (n - 1) as nat) {
        lemma_marked_reach(s, l, cur, p, (n - 1) as nat);
    } else {
        let (q, k) = choose|q: GcPtr, k: int| #![trigger s.edges[q][k]] reach_n(s, q, (n - 1) as nat) && 0 <= k < s.edges[q].len() && !s.edges[q][k].weak && s.edges[q][k].to == p;
        lemma_marked_reach(s, l, cur, q, (n - 1) as nat);
        assert(edge_done(s, s.edges[q][k]));
    }
    assert(qcount(s, p) == 0);
}
pub proof fn theorem_c07_reachable_is_not_dead(s: S, p: GcPtr)
    requires inv(s), s.phase == Phase::Mark, !gray_remaining_spec(s), s.stack =~= Set::empty(), reach(s, p)
    ensures isobj(s, p), !is_white(s.objs[p].color)
{
    reveal(inv);
    let (l, cur) = choose|l: Seq<GcPtr>, cur: int| #[trigger] inv_w(s, l, cur);
    let n = choose|n: nat| reach_n(s, p, n);
    lemma_marked_reach(s, l, cur, p, n);
}
/// resurrection: the object is Gray and queued, so the arena reports Marking (gray_remaining) ...
pub proof fn theorem_c07_resurrect_reports_marking(pre: S, post: S, p: GcPtr)
    requires isobj(pre, p), is_white(pre.objs[p].color), resurrect_rel(pre, post, p)
    ensures gray_remaining_spec(post), post.objs[p].color == GcColor::Gray
{
}
/// ... and once marking is finished again every marked object, resurrected or not, has a fully marked strong closure, all of
/// which the sweep that follows protects (lemma_enter_sweep_inv: protected == Black at the start of a sweep)
pub proof fn theorem_c07_marked_closure_is_marked(s: S, q: GcPtr, k: int)
    requires inv(s), s.phase == Phase::Mark, !gray_remaining_spec(s), isobj(s, q), is_marked(s.objs[q].color), 0 <= k < s.edges[q].len(), !s.edges[q][k].weak
    ensures isobj(s, s.edges[q][k].to), s.objs[s.edges[q][k].to].color == GcColor::Black
{
    reveal(inv);
    let (l, cur) = choose|l: Seq<GcPtr>, cur: int| #[trigger] inv_w(s, l, cur);
    lemma_prot_outside_sweep(s, l, cur);
    assert forall|x: GcPtr| qcount(s, x) == 0 by { lemma_count_empty(s.gray, x); lemma_count_empty(s.gray_again, x); }
    assert(qcount(s, q) == 0);
    assert(s.objs[q].color == GcColor::Black);
    assert(prot(s, l, cur, q));
    assert(edges_safe(s, l, cur, s.edges[q]));
    assert(edge_safe(s, l, cur, s.edges[q][k]));
    assert(edge_done(s, s.edges[q][k]));
    assert(qcount(s, s.edges[q][k].to) == 0);
}

// ------------------------------------------------------------------------------------------ seam 4: local projections vs Inv
/// Every K.step / K.path harness assumes only a local projection of Inv on its footprint.  These lemmas prove that Inv gives each of
/// them for pointers a callback can hold (stack / wstack), so Kani never assumes more than the invariant provides.
pub proof fn theorem_projection_of_held_pointers(s: S, p: GcPtr, w: GcPtr)
    requires inv(s), s.stack.contains(p), s.wstack.contains(w)
    ensures
        // a strongly held pointer: allocated, live, hence a valid argument of trace / barriers / resurrect; Gray only while marking
        isobj(s, p), s.objs[p].live, trace_pre(s, p), trace_weak_pre(s, p), upgrade_pre(s, p),
        s.phase != Phase::Mark ==> s.objs[p].color != GcColor::Gray,
        s.phase == Phase::Mark ==> resurrect_pre(s, p),
        forward_barrier_pre(s, None, p), forward_barrier_pre(s, Some(p), p),
        // a weakly held pointer: still allocated
        isobj(s, w), trace_weak_pre(s, w), upgrade_pre(s, w),
        s.phase != Phase::Mark ==> s.objs[w].color != GcColor::Gray,
{
    reveal(inv);
    let (l, cur) = choose|l: Seq<GcPtr>, cur: int| #[trigger] inv_w(s, l, cur);
    assert(prot(s, l, cur, p));
}
/// the cursor positions K.step.link and K.step.sweep_one enumerate are the ones Inv allows
pub proof fn theorem_projection_of_cursor(s: S)
    requires inv(s)
    ensures s.phase != Phase::Sweep ==> s.sweep is None && s.sweep_prev is None,
        s.phase == Phase::Sweep ==> sweep_one_pre(s),
        s.phase == Phase::Mark ==> mark_one_pre(s),
        s.phase == Phase::Sleep ==> s.root_needs_trace,
{
    reveal(inv);
    let (l, cur) = choose|l: Seq<GcPtr>, cur: int| #[trigger] inv_w(s, l, cur);
    if s.phase == Phase::Sweep { lemma_inv_sweep_one_pre(s, l, cur); }
    if s.phase == Phase::Mark { lemma_inv_mark_one_pre(s, l, cur); }
}

} // mod theorems
} // verus!
