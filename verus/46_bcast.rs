// ---- 46_bcast.rs (hand-written, fixed; proof only) ---------------------------------------------
// Broadcast forms of the preservation lemmas: implications triggered on terms that occur in the verification
// conditions of the extracted driver (`do_collection`) and of `Drop for Context`, so that NOTHING has to be
// injected into the extracted bodies.  `inv` is opaque outside the lemma layer.
verus! {
pub mod bcast {
use vstd::prelude::*;
use core::ops::ControlFlow;
use super::spec::*;
use super::inv::*;
use super::lem_basic::*;
use super::lem_mark::*;
use super::lem_sweep::*;
use super::lem_mut::*;
use super::lem_term::*;
use super::{GcPtr, GcColor, Phase};

pub proof fn lemma_inv_unfold(s: S) -> (w: (Seq<GcPtr>, int))
    requires inv(s)
    ensures inv_w(s, w.0, w.1)
{
    reveal(inv);
    choose|l: Seq<GcPtr>, cur: int| #[trigger] inv_w(s, l, cur)
}
pub proof fn lemma_inv_fold(s: S, l: Seq<GcPtr>, cur: int)
    requires inv_w(s, l, cur)
    ensures inv(s)
{
    reveal(inv);
}

// ---- preconditions of the steps
pub broadcast proof fn b_mark_one_pre(s: S)
    ensures inv(s) && s.phase == Phase::Mark ==> #[trigger] mark_one_pre(s)
{
    if inv(s) && s.phase == Phase::Mark { let w = lemma_inv_unfold(s); lemma_inv_mark_one_pre(s, w.0, w.1); }
}
pub broadcast proof fn b_sweep_one_pre(s: S)
    ensures inv(s) && s.phase == Phase::Sweep ==> #[trigger] sweep_one_pre(s)
{
    if inv(s) && s.phase == Phase::Sweep { let w = lemma_inv_unfold(s); lemma_inv_sweep_one_pre(s, w.0, w.1); }
}

// ---- the steps
pub broadcast proof fn b_mark_one(pre: S, post: S, r: ControlFlow<()>)
    ensures inv(pre) && pre.phase == Phase::Mark && #[trigger] mark_one_rel(pre, post, r) ==> {
        &&& inv(post) && post.phase == Phase::Mark && quiescent(post) == quiescent(pre) && post.hist == pre.hist
        &&& (r is Break <==> !gray_remaining_spec(pre))
        &&& (r is Break ==> same(pre, post))
        // marking neither allocates nor releases, and does not touch the float state
        &&& post.m.total == pre.m.total && post.m.allocated == pre.m.allocated && post.m.fl == pre.m.fl
        // every marking step that does something decreases the termination measure
        &&& (r is Continue ==> 0 <= measure(post) < measure(pre))
    }
{
    if inv(pre) && pre.phase == Phase::Mark && mark_one_rel(pre, post, r) {
        let w = lemma_inv_unfold(pre);
        if pre.gray.len() > 0 || pre.gray_again.len() > 0 {
            let fg = mark_obj_rel(pre, post, true);
            lemma_mark_obj_inv(pre, post, fg, w.0, w.1);
        } else if pre.root_needs_trace {
            lemma_mark_root_inv(pre, post, w.0, w.1);
        } else {
            lemma_same_inv(pre, post, w.0, w.1);
        }
        if r is Continue { lemma_mark_one_decreases(pre, post, r, w.0, w.1); }
        lemma_inv_fold(post, w.0, w.1);
    }
}

pub broadcast proof fn b_sweep_one(pre: S, post: S, r: ControlFlow<()>)
    ensures inv(pre) && pre.phase == Phase::Sweep && #[trigger] sweep_one_rel(pre, post, r) ==> {
        &&& inv(post) && post.phase == Phase::Sweep && quiescent(post) == quiescent(pre) && post.hist == pre.hist
        &&& post.root_needs_trace == pre.root_needs_trace
        &&& (r is Break <==> pre.sweep is None)
        &&& (r is Break ==> post.sweep is None && post.sweep_prev is None && post.m == pre.m)
        // a sweep step may release a block; it never allocates and does not touch the float state
        &&& post.m.total <= pre.m.total && post.m.allocated == pre.m.allocated && post.m.fl == pre.m.fl
        &&& (r is Continue ==> 0 <= measure(post) < measure(pre))
    }
{
    if inv(pre) && pre.phase == Phase::Sweep && sweep_one_rel(pre, post, r) {
        let w = lemma_inv_unfold(pre);
        lemma_sweep_inv(pre, post, r, w.0, w.1);
        if r is Continue { lemma_inv_sweep_one_pre(pre, w.0, w.1); lemma_sweep_one_decreases(pre, post, r, w.0, w.1); }
        lemma_inv_fold(post, sweep_l(pre, w.0, w.1), sweep_cur(pre, w.1));
    }
}

/// an arena without objects has nothing left to sweep
pub broadcast proof fn b_empty_swept(s: S)
    ensures #[trigger] inv(s) && s.phase == Phase::Sweep && s.m.total == 0 ==> s.sweep is None
{
    if inv(s) && s.phase == Phase::Sweep && s.m.total == 0 { let w = lemma_inv_unfold(s); }
}
pub broadcast proof fn b_inv_facts(s: S)
    ensures #[trigger] inv(s) ==> s.phase != Phase::Drop && s.m.total >= 0
        && (s.phase != Phase::Mark ==> s.gray.len() == 0 && s.gray_again.len() == 0)
        && (s.phase == Phase::Sleep ==> s.root_needs_trace)
        && (s.phase != Phase::Sweep ==> s.sweep is None)
{
    if inv(s) { let w = lemma_inv_unfold(s); }
}

// ---- the phase switches
pub broadcast proof fn b_wake(pre: S, post: S)
    ensures inv(pre) && pre.phase == Phase::Sleep && #[trigger] switch_rel(pre, post, Phase::Mark) ==> inv(post)
{
    if inv(pre) && pre.phase == Phase::Sleep && switch_rel(pre, post, Phase::Mark) {
        let w = lemma_inv_unfold(pre); lemma_wake_inv(pre, post, w.0, w.1); lemma_inv_fold(post, w.0, w.1);
    }
}
pub broadcast proof fn b_enter_sweep(pre: S, mid: S, post: S)
    ensures #![trigger switch_rel(pre, mid, Phase::Sweep), inv(post)]
        inv(pre) && pre.phase == Phase::Mark && !gray_remaining_spec(pre) && quiescent(pre)
            && switch_rel(pre, mid, Phase::Sweep) && post == (S { sweep: mid.all, ..mid }) ==> inv(post)
{
    if inv(pre) && pre.phase == Phase::Mark && !gray_remaining_spec(pre) && quiescent(pre)
        && switch_rel(pre, mid, Phase::Sweep) && post == (S { sweep: mid.all, ..mid }) {
        let w = lemma_inv_unfold(pre); lemma_enter_sweep_inv(pre, mid, post, w.0, w.1); lemma_inv_fold(post, w.0, 0);
    }
}
pub broadcast proof fn b_finish(pre: S, mid: S, post: S)
    ensures #![trigger inv(pre), switch_rel(mid, post, Phase::Sleep)]
        inv(pre) && pre.phase == Phase::Sweep && pre.sweep is None && pre.sweep_prev is None
            && mid == (S { root_needs_trace: true, m: mid.m, ..pre }) && mid.m.total == pre.m.total
            && mid.m.allocated >= 0 && mid.m.dropped >= 0 && mid.m.freed >= 0 && mid.m.marked >= 0 && mid.m.traced >= 0 && mid.m.remembered >= 0
            && switch_rel(mid, post, Phase::Sleep) ==> inv(post)
{
    if inv(pre) && pre.phase == Phase::Sweep && pre.sweep is None && pre.sweep_prev is None
        && mid == (S { root_needs_trace: true, m: mid.m, ..pre }) && mid.m.total == pre.m.total
        && mid.m.allocated >= 0 && mid.m.dropped >= 0 && mid.m.freed >= 0 && mid.m.marked >= 0 && mid.m.traced >= 0 && mid.m.remembered >= 0
        && switch_rel(mid, post, Phase::Sleep) {
        let w = lemma_inv_unfold(pre);
        assert(pre.sweep_prev is None || true);
        lemma_finish_inv2(pre, post, w.0, w.1);
        lemma_inv_fold(post, w.0, w.0.len() as int);
    }
}
pub proof fn lemma_finish_inv2(pre: S, post: S, l: Seq<GcPtr>, cur: int)
    requires inv_w(pre, l, cur), pre.phase == Phase::Sweep, pre.sweep is None,
        post.objs =~= pre.objs, same_queues(pre, post), post.all == pre.all, post.sweep is None, post.sweep_prev == pre.sweep_prev,
        post.phase == Phase::Sleep, post.root_needs_trace, post.m.total == pre.m.total,
        post.m.allocated >= 0 && post.m.dropped >= 0 && post.m.freed >= 0 && post.m.marked >= 0 && post.m.traced >= 0 && post.m.remembered >= 0,
        post.dropped =~= pre.dropped, post.freed =~= pre.freed, post.edges =~= pre.edges, post.root_edges =~= pre.root_edges, post.pending =~= pre.pending,
        post.stack =~= pre.stack, post.wstack =~= pre.wstack,
        pre.sweep_prev is None,
    ensures inv_w(post, l, l.len() as int),
{
    lemma_finish_inv(pre, post, l, cur);
}

pub broadcast group group_driver {
    b_mark_one_pre, b_sweep_one_pre, b_mark_one, b_sweep_one, b_empty_swept, b_inv_facts, b_wake, b_enter_sweep, b_finish,
}

} // mod bcast
} // verus!
