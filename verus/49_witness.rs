// ---- 49_witness.rs (hand-written, fixed; proof only) -------------------------------------------
// Vacuity guard for the lemma layer: Inv is satisfiable in every phase, with non-empty heaps
// (otherwise every "Inv ==> ..." theorem above would hold for no state at all).
verus! {
pub mod witness {
use vstd::prelude::*;
use super::spec::*;
use super::inv::*;
use super::{GcPtr, GcColor, Phase};

pub open spec fn base() -> S {
    S {
        objs: Map::empty(), all: None, sweep: None, sweep_prev: None, phase: Phase::Sleep, root_needs_trace: true,
        gray: Seq::empty(), gray_again: Seq::empty(),
        m: MV { total: 0, allocated: 0, dropped: 0, freed: 0, marked: 0, traced: 0, remembered: 0, fl: Fl { pacing: 0, wakeup: 0, artificial: 0 } },
        dropped: Set::empty(), freed: Set::empty(), edges: Map::empty(), root_edges: Seq::empty(), pending: Map::empty(),
        stack: Set::empty(), wstack: Set::empty(), hist: Seq::empty(), mutated: false, unwinding: false,
    }
}
pub proof fn lemma_counts_empty(s: S)
    requires s.gray =~= Seq::<GcPtr>::empty(), s.gray_again =~= Seq::<GcPtr>::empty()
    ensures forall|p: GcPtr| #[trigger] qcount(s, p) == 0
{
    broadcast use vstd::seq_lib::group_to_multiset_ensures;
    assert(Seq::<GcPtr>::empty().to_multiset() =~= vstd::multiset::Multiset::<GcPtr>::empty());
}

/// a freshly created arena (Context::new): Sleep, no objects
pub proof fn witness_sleep_empty()
    ensures inv(base()), quiescent(base())
{
    reveal(inv);
    let s = base();
    lemma_counts_empty(s);
    assert(inv_w(s, Seq::<GcPtr>::empty(), 0));
}

/// Mark: the root holds a strong pointer to a Black object `a` that holds a strong pointer to a Gray, queued object `b`
pub proof fn witness_mark_two_objects()
    ensures exists|s: S| #[trigger] inv(s) && s.phase == Phase::Mark && s.gray.len() == 1 && s.m.total == 2
{
    reveal(inv);
    broadcast use vstd::seq_lib::group_to_multiset_ensures;
    let a = GcPtr { id: 1 }; let b = GcPtr { id: 2 };
    let s = S {
        objs: Map::empty().insert(a, Obj { color: GcColor::Black, live: true, needs_trace: true, next: Some(b) })
                          .insert(b, Obj { color: GcColor::Gray, live: true, needs_trace: true, next: None }),
        all: Some(a), phase: Phase::Mark, root_needs_trace: false,
        gray: seq![b],
        edges: Map::empty().insert(a, seq![Edge { weak: false, to: b }]).insert(b, Seq::empty()),
        root_edges: seq![Edge { weak: false, to: a }],
        m: MV { total: 2, traced: 1, marked: 2, ..base().m },
        ..base()
    };
    let l = seq![a, b];
    assert(l.no_duplicates());
    assert(s.objs.dom() =~= set![a, b]);
    assert(s.gray.to_multiset() =~= vstd::multiset::Multiset::<GcPtr>::empty().insert(b)) by {
        assert(s.gray =~= Seq::<GcPtr>::empty().push(b));
    }
    assert(s.gray_again.to_multiset() =~= vstd::multiset::Multiset::<GcPtr>::empty());
    assert forall|p: GcPtr| qcount(s, p) == (if p == b { 1nat } else { 0nat }) by {}
    assert(l.index_of(a) == 0 && l.index_of(b) == 1) by { assert(l[0] == a && l[1] == b); assert(l.contains(a) && l.contains(b)); }
    assert(i_list(s, l, 2)) by {
        assert forall|p: GcPtr| #[trigger] isobj(s, p) <==> l.contains(p) by {
            if l.contains(p) { let i = choose|i: int| 0 <= i < l.len() && l[i] == p; }
            if p == a { assert(l[0] == a); } if p == b { assert(l[1] == b); }
        }
    }
    assert(i_colour(s, l, 2));
    assert(i_live(s));
    assert(i_tri(s)) by {
        assert forall|p: GcPtr, k: int| #![trigger s.edges[p][k]] isobj(s, p) && s.objs[p].color == GcColor::Black && 0 <= k < s.edges[p].len()
                implies edge_done(s, s.edges[p][k]) by { assert(p == a && k == 0); }
    }
    assert(i_safe(s, l, 2)) by {
        assert forall|p: GcPtr| #[trigger] prot(s, l, 2, p) implies edges_safe(s, l, 2, s.edges[p]) by {
            if p == a { assert(prot(s, l, 2, b)); }
        }
        assert(prot(s, l, 2, a));
    }
    assert(i_count(s, l));
    assert(inv_w(s, l, 2));
    assert(inv(s));
}

/// Sweep, cursor at the start: a Black survivor `a` followed by a White (condemned) object `b`
pub proof fn witness_sweep_two_objects()
    ensures exists|s: S, l: Seq<GcPtr>| inv_w(s, l, 0) && s.phase == Phase::Sweep && l.len() == 2 && condemned(s, l, 0, l[1]) && prot(s, l, 0, l[0])
{
    let a = GcPtr { id: 1 }; let b = GcPtr { id: 2 };
    let s = S {
        objs: Map::empty().insert(a, Obj { color: GcColor::Black, live: true, needs_trace: true, next: Some(b) })
                          .insert(b, Obj { color: GcColor::White, live: true, needs_trace: true, next: None }),
        all: Some(a), sweep: Some(a), phase: Phase::Sweep, root_needs_trace: false,
        edges: Map::empty().insert(a, Seq::empty()).insert(b, seq![Edge { weak: false, to: a }]),
        root_edges: seq![Edge { weak: false, to: a }],
        m: MV { total: 2, ..base().m },
        ..base()
    };
    let l = seq![a, b];
    lemma_counts_empty(s);
    assert(l.no_duplicates());
    assert(l.index_of(a) == 0 && l.index_of(b) == 1) by { assert(l[0] == a && l[1] == b); assert(l.contains(a) && l.contains(b)); }
    assert(i_list(s, l, 0)) by {
        assert forall|p: GcPtr| #[trigger] isobj(s, p) <==> l.contains(p) by {
            if l.contains(p) { let i = choose|i: int| 0 <= i < l.len() && l[i] == p; }
            if p == a { assert(l[0] == a); } if p == b { assert(l[1] == b); }
        }
    }
    assert(prot(s, l, 0, a) && condemned(s, l, 0, b) && !prot(s, l, 0, b));
    assert(i_safe(s, l, 0)) by {
        assert forall|p: GcPtr| #[trigger] prot(s, l, 0, p) implies edges_safe(s, l, 0, s.edges[p]) by { assert(p == a); }
    }
    assert(inv_w(s, l, 0));
}

} // mod witness
} // verus!
