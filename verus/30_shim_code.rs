// ---- 30_shim_code.rs (hand-written, fixed) ----------------------------------------------------
// Shim METHODS of Context: PhaseGuard::{enter, switch} (rule X-guard) and the two calls that run user
// `Collect::trace` code (rule X-vt): loops over the ghost edge list that call the EXTRACTED real
// `trace` / `trace_weak`.  The `_prefix` variants stop after an arbitrary number of edges: they model a
// `Collect::trace` that panics part-way (rule X-unwind).
verus! {

impl Context {
    /// PhaseGuard::switch.  Every phase change of the real driver is one of these calls (the inventory checks
    /// that `.phase =` occurs nowhere else); the precondition is C08's allowed-successor relation.
    pub fn switch(&mut self, p: Phase)
        requires switch_allowed(old(self)@, p),
        ensures switch_rel(old(self)@, final(self)@, p),
    {
        self.phase = p;
        proof {
            self.hist@ = self.hist@.push(p);
            if p == Phase::Mark { self.heap.g@ = HeapGhost { mutated: false, ..self.heap.g@ }; }
        }
    }

    /// PhaseGuard::enter(self, Some(phase)) - only used by `Drop for Context` (phase Drop)
    pub fn enter(&mut self, p: Phase)
        requires p == Phase::Drop,
        ensures final(self)@ == (S { phase: p, hist: old(self)@.hist.push(p), ..old(self)@ }),
    {
        self.phase = p;
        proof { self.hist@ = self.hist@.push(p); }
    }

    /// `gc_ptr.trace_value(cx)`: the value's `Collect::trace` reports every pointer it holds (A-collect)
    pub fn trace_value(&mut self, p: GcPtr)
        requires isobj(old(self)@, p), old(self)@.edges.dom().contains(p), edges_pre(old(self)@, old(self)@.edges[p]),
        ensures marks_rel(old(self)@, final(self)@, old(self)@.edges[p]), all_done(final(self)@, old(self)@.edges[p]),
    {
        let n = self.heap.edge_count(p);
        self.trace_edges(Some(p), n);
    }
    pub fn trace_value_prefix(&mut self, p: GcPtr)
        requires isobj(old(self)@, p), old(self)@.edges.dom().contains(p), edges_pre(old(self)@, old(self)@.edges[p]),
        ensures marks_rel(old(self)@, final(self)@, old(self)@.edges[p]),
            // (consequences of marks_rel, stated as ground facts for the guard code that runs next)
            isobj(final(self)@, p), final(self)@.m.traced == old(self)@.m.traced,
            old(self)@.objs[p].color == GcColor::Black ==> final(self)@.objs[p].color == GcColor::Black,
    {
        let n = self.heap.edge_count(p);
        let k = self.heap.panic_point(n);
        self.trace_edges(Some(p), k);
    }
    /// `root.trace(self)`
    pub fn trace_root(&mut self)
        requires edges_pre(old(self)@, old(self)@.root_edges),
        ensures marks_rel(old(self)@, final(self)@, old(self)@.root_edges), all_done(final(self)@, old(self)@.root_edges),
    {
        let n = self.heap.root_edge_count();
        self.trace_edges(None, n);
    }
    pub fn trace_root_prefix(&mut self)
        requires edges_pre(old(self)@, old(self)@.root_edges),
        ensures marks_rel(old(self)@, final(self)@, old(self)@.root_edges),
    {
        let n = self.heap.root_edge_count();
        let k = self.heap.panic_point(n);
        self.trace_edges(None, k);
    }

    /// X-unwind: marks the unwinding exit of a generated unwind variant
    pub fn begin_unwind(&mut self)
        ensures final(self)@ == (S { unwinding: true, ..old(self)@ }),
    {
        proof { self.unwinding@ = true; }
    }

    pub open spec fn src_edges(s: S, src: Option<GcPtr>) -> Seq<Edge> { match src { Some(p) => s.edges[p], None => s.root_edges } }

    /// trace the first `upto` edges of the value `src` (None = the root) with the extracted `trace` / `trace_weak`
    fn trace_edges(&mut self, src: Option<GcPtr>, upto: usize)
        requires
            src matches Some(p) ==> isobj(old(self)@, p) && old(self)@.edges.dom().contains(p),
            edges_pre(old(self)@, Self::src_edges(old(self)@, src)),
            upto <= Self::src_edges(old(self)@, src).len(),
        ensures
            marks_rel(old(self)@, final(self)@, Self::src_edges(old(self)@, src)),
            forall|k: int| 0 <= k < upto ==> edge_done(final(self)@, #[trigger] Self::src_edges(old(self)@, src)[k]),
    {
        let ghost s0 = self@;
        let ghost es = Self::src_edges(s0, src);
        let mut i: usize = 0;
        proof { lemmas::lemma_marks_refl(s0, es); }
        while i < upto
            invariant
                i <= upto <= es.len(), es == Self::src_edges(s0, src),
                src matches Some(p) ==> isobj(s0, p) && s0.edges.dom().contains(p),
                edges_pre(s0, es),
                marks_rel(s0, self@, es),
                self@.m.marked <= s0.m.marked + i,
                forall|k: int| 0 <= k < i ==> edge_done(self@, #[trigger] es[k]),
            decreases upto - i
        {
            let ghost s1 = self@;
            let e = match src { Some(p) => self.heap.edge(p, i), None => self.heap.root_edge(i) };
            proof {
                assert(es[i as int].weak == e.0 && es[i as int].to == e.1);
                lemmas::lemma_marks_pre(s0, s1, es, i as int);
            }
            if e.0 { self.trace_weak(e.1); } else { self.trace(e.1); }
            proof { lemmas::lemma_marks_step(s0, s1, self@, es, i as int); }
            i = i + 1;
        }
    }
}

} // verus!
