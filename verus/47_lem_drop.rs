// ---- 47_lem_drop.rs (hand-written, fixed; proof only) ------------------------------------------
// `Drop for Context`: the loop walks the remaining suffix of the list witness; every block is released once,
// every value still alive is destructed once (T-once, C04).
verus! {
pub mod lem_drop {
use vstd::prelude::*;
use super::spec::*;
use super::inv::*;
use super::lem_basic::*;
use super::{GcPtr, GcColor, Phase};

/// the part of Inv the drop loop needs, with the list as an explicit parameter: objects = suffix of `l` from `k`
pub open spec fn wf_from(objs: Map<GcPtr, Obj>, dropped: Set<GcPtr>, l: Seq<GcPtr>, k: int) -> bool {
    &&& l.no_duplicates()
    &&& 0 <= k <= l.len()
    &&& forall|p: GcPtr| #[trigger] objs.dom().contains(p) <==> (l.contains(p) && l.index_of(p) >= k)
    &&& forall|i: int| k <= i < l.len() ==> (#[trigger] objs[l[i]]).next == at(l, i + 1)
    &&& forall|i: int| k <= i < l.len() ==> ((#[trigger] objs[l[i]]).live <==> !dropped.contains(l[i]))
}
pub open spec fn pos(l: Seq<GcPtr>, c: Option<GcPtr>) -> int { match c { Some(p) => l.index_of(p), None => l.len() as int } }

pub open spec fn drop_pre(s: S, l: Seq<GcPtr>) -> bool {
    wf_from(s.objs, s.dropped, l, 0) && s.all == at(l, 0) && s.m.total == l.len() && s.phase != Phase::Drop
}
pub proof fn lemma_inv_drop_pre(s: S, l: Seq<GcPtr>, cur: int)
    requires inv_w(s, l, cur)
    ensures drop_pre(s, l)
{
    lemma_index_all(l);
    assert forall|i: int| 0 <= i < l.len() implies ((#[trigger] s.objs[l[i]]).live <==> !s.dropped.contains(l[i])) by { assert(l.contains(l[i])); assert(s.objs.dom().contains(l[i])); }
}

pub proof fn lemma_drop_step(objs: Map<GcPtr, Obj>, dropped: Set<GcPtr>, l: Seq<GcPtr>, k: int, objs2: Map<GcPtr, Obj>, dropped2: Set<GcPtr>)
    requires
        wf_from(objs, dropped, l, k), k < l.len(),
        objs2 == objs.remove(l[k]),
        dropped2 == (if objs[l[k]].live { dropped.insert(l[k]) } else { dropped }),
    ensures
        wf_from(objs2, dropped2, l, k + 1),
        pos(l, objs[l[k]].next) == k + 1,
{
    lemma_index_all(l);
    assert forall|p: GcPtr| #[trigger] objs2.dom().contains(p) <==> (l.contains(p) && l.index_of(p) >= k + 1) by {
        if l.contains(p) { let i = l.index_of(p); assert(l[i] == p); }
    }
    assert forall|i: int| k + 1 <= i < l.len() implies (#[trigger] objs2[l[i]]).next == at(l, i + 1) by { assert(l[i] != l[k]); }
    assert forall|i: int| k + 1 <= i < l.len() implies ((#[trigger] objs2[l[i]]).live <==> !dropped2.contains(l[i])) by { assert(l[i] != l[k]); }
    assert(objs[l[k]].next == at(l, k + 1));
}

// broadcast forms: implications triggered on pairs of terms that occur in the loop's verification condition
pub broadcast proof fn b_drop_step_pos(objs: Map<GcPtr, Obj>, dropped: Set<GcPtr>, l: Seq<GcPtr>, k: int, c: Option<GcPtr>)
    ensures #![trigger wf_from(objs, dropped, l, k), pos(l, c)]
        (wf_from(objs, dropped, l, k) && k < l.len() && c == objs[l[k]].next) ==> pos(l, c) == k + 1
{
    if wf_from(objs, dropped, l, k) && k < l.len() && c == objs[l[k]].next {
        lemma_drop_step(objs, dropped, l, k, objs.remove(l[k]), if objs[l[k]].live { dropped.insert(l[k]) } else { dropped });
    }
}
pub broadcast proof fn b_drop_step_wf(objs: Map<GcPtr, Obj>, dropped: Set<GcPtr>, l: Seq<GcPtr>, k: int, objs2: Map<GcPtr, Obj>, dropped2: Set<GcPtr>, k2: int)
    ensures #![trigger wf_from(objs, dropped, l, k), wf_from(objs2, dropped2, l, k2)]
        (wf_from(objs, dropped, l, k) && k < l.len() && k2 == k + 1 && objs2 =~= objs.remove(l[k])
            && dropped2 =~= (if objs[l[k]].live { dropped.insert(l[k]) } else { dropped })) ==> wf_from(objs2, dropped2, l, k2)
{
    if wf_from(objs, dropped, l, k) && k < l.len() && k2 == k + 1 && objs2 =~= objs.remove(l[k])
        && dropped2 =~= (if objs[l[k]].live { dropped.insert(l[k]) } else { dropped }) {
        lemma_drop_step(objs, dropped, l, k, objs2, dropped2);
    }
}
pub broadcast proof fn b_at_pos(l: Seq<GcPtr>, c: Option<GcPtr>, k: int)
    ensures #![trigger at(l, k), pos(l, c)]
        (l.no_duplicates() && c == at(l, k) && 0 <= k <= l.len()) ==> pos(l, c) == k
{
    if l.no_duplicates() && c == at(l, k) && 0 <= k < l.len() { lemma_index_of(l, k); }
}
pub broadcast group group_drop { b_drop_step_pos, b_drop_step_wf, b_at_pos }

} // mod lem_drop
} // verus!
