// ---- 55_bcast_pace.rs (hand-written, fixed; proof only) ----------------------------------------
// Broadcast forms of the I-credit lemmas (54_lem_pace.rs) for the extracted driver (see 46_bcast.rs for the device).
verus! {
pub mod bcast_p {
use vstd::prelude::*;
use core::ops::ControlFlow;
use super::spec::*;
use super::inv::*;
use super::bcast::*;
use super::lem_basic::*;
use super::lem_mark::*;
use super::lem_sweep::*;
use super::lem_mut::*;
use super::lem_pace::*;
use super::{GcPtr, GcColor, Phase};

pub proof fn lemma_p_unfold(s: S) -> (w: (Seq<GcPtr>, int))
    requires pace_x(s)
    ensures inv_w(s, w.0, w.1), pace_w(s, w.1)
{
    choose|l: Seq<GcPtr>, cur: int| #[trigger] inv_w(s, l, cur) && pace_w(s, cur)
}

pub broadcast proof fn b_p_wake(pre: S, post: S)
    ensures #![trigger pace_x(pre), switch_rel(pre, post, Phase::Mark)]
        pace_x(pre) && pre.phase == Phase::Sleep && switch_rel(pre, post, Phase::Mark) ==> pace_x(post)
{
    if pace_x(pre) && pre.phase == Phase::Sleep && switch_rel(pre, post, Phase::Mark) {
        let w = lemma_p_unfold(pre); lemma_wake_inv(pre, post, w.0, w.1); lemma_p_wake(pre, post, w.1);
    }
}
pub broadcast proof fn b_p_mark(pre: S, post: S, r: ControlFlow<()>)
    ensures #![trigger pace_x(pre), mark_one_rel(pre, post, r)]
        pace_x(pre) && pre.phase == Phase::Mark && mark_one_rel(pre, post, r) ==> pace_x(post) && cycle_const(pre.m, post.m)
{
    if pace_x(pre) && pre.phase == Phase::Mark && mark_one_rel(pre, post, r) {
        let w = lemma_p_unfold(pre);
        if pre.gray.len() > 0 || pre.gray_again.len() > 0 {
            let fg = mark_obj_rel(pre, post, true);
            lemma_mark_obj_inv(pre, post, fg, w.0, w.1);
        } else if pre.root_needs_trace {
            lemma_mark_root_inv(pre, post, w.0, w.1);
        } else {
            lemma_same_inv(pre, post, w.0, w.1);
        }
        lemma_p_mark_one(pre, post, r, w.0, w.1);
        lemma_cc_steps(pre, post, r, arbitrary(), Seq::empty());
    }
}
pub broadcast proof fn b_p_enter(pre: S, mid: S, post: S)
    ensures #![trigger pace_x(pre), switch_rel(pre, mid, Phase::Sweep), pace_x(post)]
        pace_x(pre) && pre.phase == Phase::Mark && !gray_remaining_spec(pre) && quiescent(pre)
            && switch_rel(pre, mid, Phase::Sweep) && post == (S { sweep: mid.all, ..mid }) ==> pace_x(post)
{
    if pace_x(pre) && pre.phase == Phase::Mark && !gray_remaining_spec(pre) && quiescent(pre)
        && switch_rel(pre, mid, Phase::Sweep) && post == (S { sweep: mid.all, ..mid }) {
        let w = lemma_p_unfold(pre); lemma_enter_sweep_inv(pre, mid, post, w.0, w.1); lemma_p_enter_sweep(pre, mid, post, w.1);
    }
}
pub broadcast proof fn b_p_sweep(pre: S, post: S, r: ControlFlow<()>)
    ensures #![trigger pace_x(pre), sweep_one_rel(pre, post, r)]
        pace_x(pre) && pre.phase == Phase::Sweep && sweep_one_rel(pre, post, r) ==> pace_x(post) && cycle_const(pre.m, post.m)
{
    if pace_x(pre) && pre.phase == Phase::Sweep && sweep_one_rel(pre, post, r) {
        let w = lemma_p_unfold(pre);
        lemma_sweep_inv(pre, post, r, w.0, w.1);
        lemma_p_sweep(pre, post, r, w.0, w.1);
        lemma_cc_steps(pre, post, r, arbitrary(), Seq::empty());
    }
}
pub broadcast proof fn b_p_finish(pre: S, mid: S, post: S)
    ensures #![trigger pace_x(pre), switch_rel(mid, post, Phase::Sleep)]
        pace_x(pre) && pre.phase == Phase::Sweep && pre.sweep is None && pre.sweep_prev is None
            && mid == (S { root_needs_trace: true, m: mid.m, ..pre }) && mid.m.total == pre.m.total && mid.m.allocated >= 0
            && mid.m.dropped == 0 && mid.m.freed == 0 && mid.m.marked == 0 && mid.m.traced == 0 && mid.m.remembered == 0
            && switch_rel(mid, post, Phase::Sleep) ==> pace_x(post)
{
    if pace_x(pre) && pre.phase == Phase::Sweep && pre.sweep is None && pre.sweep_prev is None
        && mid == (S { root_needs_trace: true, m: mid.m, ..pre }) && mid.m.total == pre.m.total && mid.m.allocated >= 0
        && mid.m.dropped == 0 && mid.m.freed == 0 && mid.m.marked == 0 && mid.m.traced == 0 && mid.m.remembered == 0
        && switch_rel(mid, post, Phase::Sleep) {
        let w = lemma_p_unfold(pre);
        lemma_finish_inv2(pre, post, w.0, w.1);
        lemma_p_finish(mid, post, w.0, w.0.len() as int);
    }
}
/// the history is only ever extended by one phase: no quantifier instantiation is left to the driver's verification condition
pub broadcast proof fn b_no_sleep_push(h: Seq<Phase>, p: Phase, n: int)
    ensures #![trigger no_sleep_since(h.push(p), n)]
        0 <= n <= h.len() ==> (no_sleep_since(h.push(p), n) <==> (no_sleep_since(h, n) && p != Phase::Sleep))
{
    if 0 <= n <= h.len() {
        let h2 = h.push(p);
        if no_sleep_since(h2, n) {
            assert(h2[h.len() as int] == p);
            assert forall|i: int| n <= i < h.len() implies #[trigger] h[i] != Phase::Sleep by { assert(h2[i] == h[i]); }
        }
        if no_sleep_since(h, n) && p != Phase::Sleep {
            assert forall|i: int| n <= i < h2.len() implies #[trigger] h2[i] != Phase::Sleep by { if i < h.len() { assert(h2[i] == h[i]); } }
        }
    }
}
pub broadcast group group_pace { b_p_wake, b_p_mark, b_p_enter, b_p_sweep, b_p_finish, b_no_sleep_push }

} // mod bcast_p
} // verus!
