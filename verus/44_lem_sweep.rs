// ---- 44_lem_sweep.rs (hand-written, fixed; proof only) -----------------------------------------
// T-inv and T-safe for the sweep step: it destructs only condemned values, releases only weakly-condemned
// blocks, keeps the list well formed and leaves every protected object protected.
verus! {
pub mod lem_sweep {
use vstd::prelude::*;
use core::ops::ControlFlow;
use super::spec::*;
use super::inv::*;
use super::lem_basic::*;
use super::{GcPtr, GcColor, Phase};

pub proof fn lemma_remove_props(l: Seq<GcPtr>, k: int)
    requires l.no_duplicates(), 0 <= k < l.len()
    ensures
        l.remove(k).no_duplicates(), l.remove(k).len() == l.len() - 1,
        forall|p: GcPtr| l.remove(k).contains(p) <==> (l.contains(p) && p != l[k]),
        forall|i: int| 0 <= i < k ==> l.remove(k)[i] == l[i],
        forall|i: int| k <= i < l.len() - 1 ==> l.remove(k)[i] == l[i + 1],
{
    let r = l.remove(k);
    assert forall|p: GcPtr| r.contains(p) <==> (l.contains(p) && p != l[k]) by {
        if r.contains(p) {
            let i = choose|i: int| 0 <= i < r.len() && r[i] == p;
            if i < k { assert(l[i] == p); } else { assert(l[i + 1] == p); }
        }
        if l.contains(p) && p != l[k] {
            let i = choose|i: int| 0 <= i < l.len() && l[i] == p;
            if i < k { assert(r[i] == p); } else { assert(r[i - 1] == p); }
        }
    }
    assert(r.no_duplicates()) by {
        assert forall|i: int, j: int| 0 <= i < r.len() && 0 <= j < r.len() && i != j implies r[i] != r[j] by {
            let ii = if i < k { i } else { i + 1 };
            let jj = if j < k { j } else { j + 1 };
            assert(r[i] == l[ii] && r[j] == l[jj]);
        }
    }
}

/// witnesses of the post state
pub open spec fn sweep_l(pre: S, l: Seq<GcPtr>, cur: int) -> Seq<GcPtr> {
    if pre.sweep is Some && pre.objs[pre.sweep->Some_0].color == GcColor::White { l.remove(cur) } else { l }
}
pub open spec fn sweep_cur(pre: S, cur: int) -> int {
    if pre.sweep is Some && pre.objs[pre.sweep->Some_0].color != GcColor::White { cur + 1 } else { cur }
}

pub proof fn lemma_sweep_none(pre: S, post: S, r: ControlFlow<()>, l: Seq<GcPtr>, cur: int)
    requires inv_w(pre, l, cur), pre.phase == Phase::Sweep, sweep_one_rel(pre, post, r), pre.sweep is None,
    ensures
        inv_w(post, sweep_l(pre, l, cur), sweep_cur(pre, cur)),
        // T-safe (C01, C04, C05): only condemned values are destructed, only weakly-condemned blocks released
        forall|p: GcPtr| post.dropped.contains(p) && !pre.dropped.contains(p) ==> condemned(pre, l, cur, p),
        forall|p: GcPtr| post.freed.contains(p) && !pre.freed.contains(p) ==> wcondemned(pre, l, cur, p),
        forall|p: GcPtr| prot(pre, l, cur, p) ==> prot(post, sweep_l(pre, l, cur), sweep_cur(pre, cur), p),
        forall|p: GcPtr| isobj(pre, p) && !wcondemned(pre, l, cur, p) ==> isobj(post, p) && !wcondemned(post, sweep_l(pre, l, cur), sweep_cur(pre, cur), p),
        r is Break <==> cur == l.len(),
{
    let ql = sweep_l(pre, l, cur); let qc = sweep_cur(pre, cur);
    lemma_index_all(l);
    {
        assert(cur == l.len());
        assert(post.objs =~= pre.objs);
        assert forall|q: GcPtr| qcount(post, q) == qcount(pre, q) by {}
        assert forall|p: GcPtr| prot(post, l, cur, p) <==> prot(pre, l, cur, p) by {}
        assert forall|e: Edge| edge_safe(pre, l, cur, e) <==> edge_safe(post, l, cur, e) by {}
        assert(i_safe(post, l, cur)) by {
            assert forall|p: GcPtr| #[trigger] prot(post, l, cur, p) implies edges_safe(post, l, cur, post.edges[p]) by {
                assert(prot(pre, l, cur, p)); assert(edges_safe(pre, l, cur, pre.edges[p]));
            }
            assert forall|p: GcPtr| #[trigger] post.pending.dom().contains(p) implies edges_safe(post, l, cur, post.pending[p].edges) by {
                assert(edges_safe(pre, l, cur, pre.pending[p].edges));
            }
            assert(edges_safe(pre, l, cur, pre.root_edges));
        }
        assert(i_live(post)) by { assert forall|p: GcPtr| #[trigger] isobj(post, p) implies isobj(pre, p) by {} }
        assert(i_colour(post, l, cur)) by { assert forall|p: GcPtr| #[trigger] isobj(post, p) implies isobj(pre, p) by {} }
        assert(i_list(post, l, cur)) by { assert forall|p: GcPtr| #[trigger] isobj(post, p) <==> l.contains(p) by { assert(isobj(pre, p) <==> l.contains(p)); } }
    }
}

pub proof fn lemma_sweep_white(pre: S, post: S, r: ControlFlow<()>, l: Seq<GcPtr>, cur: int)
    requires inv_w(pre, l, cur), pre.phase == Phase::Sweep, sweep_one_rel(pre, post, r), pre.sweep is Some && pre.objs[pre.sweep->Some_0].color == GcColor::White,
    ensures
        inv_w(post, sweep_l(pre, l, cur), sweep_cur(pre, cur)),
        // T-safe (C01, C04, C05): only condemned values are destructed, only weakly-condemned blocks released
        forall|p: GcPtr| post.dropped.contains(p) && !pre.dropped.contains(p) ==> condemned(pre, l, cur, p),
        forall|p: GcPtr| post.freed.contains(p) && !pre.freed.contains(p) ==> wcondemned(pre, l, cur, p),
        forall|p: GcPtr| prot(pre, l, cur, p) ==> prot(post, sweep_l(pre, l, cur), sweep_cur(pre, cur), p),
        forall|p: GcPtr| isobj(pre, p) && !wcondemned(pre, l, cur, p) ==> isobj(post, p) && !wcondemned(post, sweep_l(pre, l, cur), sweep_cur(pre, cur), p),
        r is Break <==> cur == l.len(),
{
    let ql = sweep_l(pre, l, cur); let qc = sweep_cur(pre, cur);
    lemma_index_all(l);
    let o = pre.sweep->Some_0;
    let k = cur;
    assert(k < l.len() && l[k] == o);
    assert(isobj(pre, o)) by { assert(l.contains(o)); }
    let ob = pre.objs[o];
    assert(ob.color != GcColor::Gray);
    assert(ob.next == at(l, k + 1));
    assert forall|q: GcPtr| qcount(post, q) == qcount(pre, q) by {}
            lemma_remove_props(l, k);
            lemma_index_all(ql);
            assert(condemned(pre, l, cur, o) && wcondemned(pre, l, cur, o));
            // membership / domain
            assert forall|p: GcPtr| #[trigger] isobj(post, p) <==> ql.contains(p) by {
                assert(ql.contains(p) <==> (l.contains(p) && p != o));
                assert(isobj(pre, p) <==> l.contains(p));
            }
            // every surviving object keeps colour / live flag and its side of the cursor
            assert forall|p: GcPtr| #[trigger] isobj(post, p) implies
                (idx(ql, p) >= qc <==> idx(l, p) >= cur) && post.objs[p].color == pre.objs[p].color && post.objs[p].live == pre.objs[p].live
                && post.objs[p].needs_trace == pre.objs[p].needs_trace && isobj(pre, p) && p != o by {
                assert(ql.contains(p)); assert(l.contains(p));
                let i = l.index_of(p);
                assert(l[i] == p);
                if i < k { assert(ql[i] == p); } else { assert(i > k); assert(ql[i - 1] == p); }
            }
            assert forall|i: int| 0 <= i < ql.len() implies (#[trigger] post.objs[ql[i]]).next == at(ql, i + 1) by {
                if i < k - 1 {
                    assert(ql[i] == l[i]); assert(ql[i + 1] == l[i + 1]);
                    assert(pre.objs[l[i]].next == at(l, i + 1));
                    assert(l[i] != o);
                    if pre.sweep_prev is Some { assert(pre.sweep_prev == Some(l[k - 1])); assert(l[i] != l[k - 1]); }
                } else if i == k - 1 {
                    assert(ql[i] == l[i]);
                    assert(pre.sweep_prev == Some(l[k - 1]));
                    if k + 1 < l.len() { assert(ql[k] == l[k + 1]); }
                } else {
                    assert(ql[i] == l[i + 1]);
                    assert(pre.objs[l[i + 1]].next == at(l, i + 2));
                    if i + 2 < l.len() { assert(ql[i + 1] == l[i + 2]); }
                    assert(l[i + 1] != o);
                    if pre.sweep_prev is Some { assert(pre.sweep_prev == Some(l[k - 1])); assert(l[i + 1] != l[k - 1]); }
                }
            }
            assert(post.all == at(ql, 0)) by {
                if k == 0 { assert(pre.sweep_prev is None); if l.len() > 1 { assert(ql[0] == l[1]); } }
                else { assert(pre.sweep_prev is Some); assert(ql[0] == l[0]); }
            }
            assert(post.sweep == at(ql, qc)) by { if k + 1 < l.len() { assert(ql[k] == l[k + 1]); } }
            assert(qc < ql.len() ==> post.sweep_prev == at(ql, qc - 1)) by { if k > 0 { assert(ql[k - 1] == l[k - 1]); } }
            assert(i_list(post, ql, qc));
            assert(i_colour(post, ql, qc)) by {
                assert forall|p: GcPtr| !isobj(post, p) implies #[trigger] qcount(post, p) == 0 by {
                    if p == o { assert(pre.objs[o].color != GcColor::Gray); assert(qcount(pre, o) == 0) by { lemma_count_empty(pre.gray, o); lemma_count_empty(pre.gray_again, o); } }
                    else { assert(!isobj(pre, p)); }
                }
                assert forall|i: int| 0 <= i < qc implies (#[trigger] post.objs[ql[i]]).color == GcColor::White by {
                    assert(ql[i] == l[i]); assert(isobj(post, ql[i])) by { assert(ql.contains(ql[i])); }
                    assert(pre.objs[l[i]].color == GcColor::White);
                }
            }
            assert(i_live(post)) by {
                assert forall|p: GcPtr| #[trigger] isobj(post, p) implies post.edges.dom().contains(p) && post.edges[p] == pre.edges[p] by {}
                assert forall|p: GcPtr| #[trigger] post.pending.dom().contains(p) implies !isobj(post, p) && !post.freed.contains(p) by { assert(pre.pending.dom().contains(p)); }
            }
            // safety
            assert forall|p: GcPtr| prot(post, ql, qc, p) <==> (prot(pre, l, cur, p) && p != o) by {
                if isobj(post, p) { assert(isobj(pre, p)); }
                if isobj(pre, p) && p != o { assert(l.contains(p)); assert(ql.contains(p)); assert(isobj(post, p)); }
            }
            assert forall|p: GcPtr| isobj(post, p) implies (wcondemned(post, ql, qc, p) <==> wcondemned(pre, l, cur, p)) by {}
            assert forall|e: Edge| edge_safe(pre, l, cur, e) && e.to != o implies edge_safe(post, ql, qc, e) by {
                if e.weak { assert(l.contains(e.to)); assert(ql.contains(e.to)); assert(isobj(post, e.to)); }
            }
            assert forall|e: Edge| edge_safe(pre, l, cur, e) implies e.to != o by {}
            assert(i_safe(post, ql, qc)) by {
                assert forall|p: GcPtr| #[trigger] prot(post, ql, qc, p) implies edges_safe(post, ql, qc, post.edges[p]) by {
                    assert(prot(pre, l, cur, p)); assert(edges_safe(pre, l, cur, pre.edges[p]));
                    assert(post.edges[p] == pre.edges[p]);
                }
                assert(edges_safe(pre, l, cur, pre.root_edges));
                assert forall|c: GcPtr| #[trigger] post.wstack.contains(c) implies isobj(post, c) && !wcondemned(post, ql, qc, c) by {
                    assert(pre.wstack.contains(c)); assert(c != o); assert(l.contains(c)); assert(ql.contains(c));
                }
                assert forall|c: GcPtr| #[trigger] post.stack.contains(c) implies prot(post, ql, qc, c) by { assert(pre.stack.contains(c)); }
                assert forall|p: GcPtr| #[trigger] post.pending.dom().contains(p) implies edges_safe(post, ql, qc, post.pending[p].edges) by {
                    assert(edges_safe(pre, l, cur, pre.pending[p].edges));
                }
            }
            assert(i_tri(post));
            assert(i_count(post, ql));
            assert forall|p: GcPtr| isobj(pre, p) && !wcondemned(pre, l, cur, p) implies isobj(post, p) && !wcondemned(post, ql, qc, p) by {
                assert(p != o); assert(l.contains(p)); assert(ql.contains(p));
            }
        }

pub proof fn lemma_sweep_keep(pre: S, post: S, r: ControlFlow<()>, l: Seq<GcPtr>, cur: int)
    requires inv_w(pre, l, cur), pre.phase == Phase::Sweep, sweep_one_rel(pre, post, r), pre.sweep is Some && pre.objs[pre.sweep->Some_0].color != GcColor::White,
    ensures
        inv_w(post, sweep_l(pre, l, cur), sweep_cur(pre, cur)),
        // T-safe (C01, C04, C05): only condemned values are destructed, only weakly-condemned blocks released
        forall|p: GcPtr| post.dropped.contains(p) && !pre.dropped.contains(p) ==> condemned(pre, l, cur, p),
        forall|p: GcPtr| post.freed.contains(p) && !pre.freed.contains(p) ==> wcondemned(pre, l, cur, p),
        forall|p: GcPtr| prot(pre, l, cur, p) ==> prot(post, sweep_l(pre, l, cur), sweep_cur(pre, cur), p),
        forall|p: GcPtr| isobj(pre, p) && !wcondemned(pre, l, cur, p) ==> isobj(post, p) && !wcondemned(post, sweep_l(pre, l, cur), sweep_cur(pre, cur), p),
        r is Break <==> cur == l.len(),
{
    let ql = sweep_l(pre, l, cur); let qc = sweep_cur(pre, cur);
    lemma_index_all(l);
    let o = pre.sweep->Some_0;
    let k = cur;
    assert(k < l.len() && l[k] == o);
    assert(isobj(pre, o)) by { assert(l.contains(o)); }
    let ob = pre.objs[o];
    assert(ob.color != GcColor::Gray);
    assert(ob.next == at(l, k + 1));
    assert forall|q: GcPtr| qcount(post, q) == qcount(pre, q) by {}
            // WhiteWeak or Black: the object stays, turns White, moves behind the cursor
            assert(ql == l && qc == cur + 1);
            assert(post.objs.dom() =~= pre.objs.dom());
            assert forall|p: GcPtr| #[trigger] isobj(pre, p) && p != o implies post.objs[p] == pre.objs[p] && idx(l, p) != k by {
                assert(l.contains(p));
            }
            assert(i_list(post, l, qc)) by {
                assert forall|i: int| 0 <= i < l.len() implies (#[trigger] post.objs[l[i]]).next == at(l, i + 1) by { if i != k { assert(l[i] != o); } }
                assert forall|p: GcPtr| #[trigger] isobj(post, p) <==> l.contains(p) by { assert(isobj(pre, p) <==> l.contains(p)); }
            }
            assert(i_colour(post, l, qc)) by {
                assert forall|p: GcPtr| #[trigger] isobj(post, p) implies post.objs[p].color != GcColor::Gray by { assert(isobj(pre, p)); }
                assert forall|i: int| 0 <= i < qc implies (#[trigger] post.objs[l[i]]).color == GcColor::White by { if i != k { assert(l[i] != o); } }
                assert forall|p: GcPtr| !isobj(post, p) implies #[trigger] qcount(post, p) == 0 by { assert(!isobj(pre, p)); }
            }
            assert(i_live(post)) by {
                assert forall|p: GcPtr| #[trigger] isobj(post, p) implies isobj(pre, p) by {}
                assert forall|p: GcPtr| #[trigger] post.pending.dom().contains(p) implies !isobj(post, p) && !post.freed.contains(p) by { assert(pre.pending.dom().contains(p)); }
                assert forall|p: GcPtr| #[trigger] post.freed.contains(p) implies !isobj(post, p) by { assert(pre.freed.contains(p)); }
            }
            if ob.color == GcColor::WhiteWeak { assert(condemned(pre, l, cur, o)); }
            assert forall|p: GcPtr| p != o implies (prot(post, l, qc, p) <==> prot(pre, l, cur, p))
                && (wcondemned(post, l, qc, p) <==> wcondemned(pre, l, cur, p)) by {
                if isobj(pre, p) { assert(idx(l, p) != k); }
            }
            assert(!wcondemned(post, l, qc, o) && !wcondemned(pre, l, cur, o));
            assert(prot(post, l, qc, o) <==> prot(pre, l, cur, o));
            assert forall|e: Edge| edge_safe(pre, l, cur, e) implies edge_safe(post, l, qc, e) by {}
            assert(i_safe(post, l, qc)) by {
                assert forall|p: GcPtr| #[trigger] prot(post, l, qc, p) implies edges_safe(post, l, qc, post.edges[p]) by {
                    assert(prot(pre, l, cur, p)); assert(edges_safe(pre, l, cur, pre.edges[p]));
                    if p == o { assert(ob.color == GcColor::Black); }
                    assert(post.edges[p] == pre.edges[p]);
                }
                assert(edges_safe(pre, l, cur, pre.root_edges));
                assert forall|c: GcPtr| #[trigger] post.wstack.contains(c) implies isobj(post, c) && !wcondemned(post, l, qc, c) by { assert(pre.wstack.contains(c)); }
                assert forall|c: GcPtr| #[trigger] post.stack.contains(c) implies prot(post, l, qc, c) by { assert(pre.stack.contains(c)); }
                assert forall|p: GcPtr| #[trigger] post.pending.dom().contains(p) implies edges_safe(post, l, qc, post.pending[p].edges) by {
                    assert(edges_safe(pre, l, cur, pre.pending[p].edges));
                }
            }
            assert(i_tri(post));
            assert(i_count(post, l));
        }

pub proof fn lemma_sweep_inv(pre: S, post: S, r: ControlFlow<()>, l: Seq<GcPtr>, cur: int)
    requires inv_w(pre, l, cur), pre.phase == Phase::Sweep, sweep_one_rel(pre, post, r),
    ensures
        inv_w(post, sweep_l(pre, l, cur), sweep_cur(pre, cur)),
        // T-safe (C01, C04, C05): only condemned values are destructed, only weakly-condemned blocks released
        forall|p: GcPtr| post.dropped.contains(p) && !pre.dropped.contains(p) ==> condemned(pre, l, cur, p),
        forall|p: GcPtr| post.freed.contains(p) && !pre.freed.contains(p) ==> wcondemned(pre, l, cur, p),
        forall|p: GcPtr| prot(pre, l, cur, p) ==> prot(post, sweep_l(pre, l, cur), sweep_cur(pre, cur), p),
        forall|p: GcPtr| isobj(pre, p) && !wcondemned(pre, l, cur, p) ==> isobj(post, p) && !wcondemned(post, sweep_l(pre, l, cur), sweep_cur(pre, cur), p),
        r is Break <==> cur == l.len(),
{
    if pre.sweep is None { lemma_sweep_none(pre, post, r, l, cur); }
    else if pre.objs[pre.sweep->Some_0].color == GcColor::White { lemma_sweep_white(pre, post, r, l, cur); }
    else { lemma_sweep_keep(pre, post, r, l, cur); }
}

} // mod lem_sweep
} // verus!
