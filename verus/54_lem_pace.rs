// ---- 54_lem_pace.rs (hand-written, fixed; proof only) ------------------------------------------
// T-pace (C09, third sentence).  I-credit: the work counters of the running cycle never count an object twice on a path, so the credit they
// are worth is at most rho x (objects that existed in this cycle) when every per-object work path (mark + trace + keep for a survivor,
// mark + drop + keep for a weakly referenced value that dies, drop + free for garbage) is worth at most rho.  With the debt formula
// (rows K.debt.*; exact arithmetic: assumption A-real) this gives the completion bound: a cycle that woke with H allocations is still
// unfinished with its debt paid only if fewer than rho x H / (1 - rho) allocations were made since it woke.
//
// The invariant is a set of linear inequalities between counters and two set cardinalities (kept apart from inv_w, like I-traced):
//   nw  = objects that have left White in this cycle (marked, queued or weakly marked);  blk = Black objects
//   marked <= remembered + nw            (an object is counted as marked once, when it leaves White; swept survivors are White again)
//   traced <= remembered + blk           (trace credit is held by Black objects only: make_gray_again gives it back)
//   dropped <= remembered + freed,   traced + dropped <= remembered + blk + freed     (a swept survivor was traced XOR destructed)
//   outside Sweep nothing is remembered / dropped / freed;  in Sweep  remembered <= cursor position
verus! {
pub mod lem_pace {
use vstd::prelude::*;
use vstd::set_lib::*;
use core::ops::ControlFlow;
use super::spec::*;
use super::inv::*;
use super::lem_basic::*;
use super::lemmas::*;
use super::lem_mark::*;
use super::lem_sweep::*;
use super::lem_mut::*;
use super::{GcPtr, GcColor, Phase};

pub open spec fn nw(s: S) -> int { nwset(s.objs).len() as int }
pub open spec fn blk(s: S) -> int { blkset(s.objs).len() as int }

pub open spec fn pace_w(s: S, cur: int) -> bool {
    let m = s.m;
    &&& m.marked <= m.remembered + nw(s)
    &&& m.traced <= m.remembered + blk(s)
    &&& m.dropped <= m.remembered + m.freed
    &&& m.traced + m.dropped <= m.remembered + blk(s) + m.freed
    &&& (s.phase != Phase::Sweep ==> m.remembered == 0 && m.dropped == 0 && m.freed == 0)
    &&& (s.phase == Phase::Sweep ==> m.remembered <= cur)
}
pub open spec fn pace_x(s: S) -> bool { exists|l: Seq<GcPtr>, cur: int| #[trigger] inv_w(s, l, cur) && pace_w(s, cur) }

/// what is conserved between two resets of the per-cycle counters: allocations that existed in this cycle = survivors + allocated
/// no cycle has been finished since the history had length n
pub open spec fn no_sleep_since(h: Seq<Phase>, n: int) -> bool { forall|i: int| n <= i < h.len() ==> #[trigger] h[i] != Phase::Sleep }
pub open spec fn cycle_const(a: MV, b: MV) -> bool { b.total + b.freed - b.allocated == a.total + a.freed - a.allocated && b.fl == a.fl }

// ---------------------------------------------------------------------------------------------- cardinalities
pub proof fn lemma_blk_sub_nw(objs: Map<GcPtr, Obj>)
    ensures blkset(objs).len() <= nwset(objs).len(), nwset(objs).subset_of(objs.dom())
{
    assert(blkset(objs).subset_of(nwset(objs)));
    lemma_len_subset(blkset(objs), nwset(objs));
}
/// objects that are not White all sit at or behind the cursor position (in front of it everything has been swept or is new)
pub proof fn lemma_nw_room(s: S, l: Seq<GcPtr>, cur: int)
    requires inv_w(s, l, cur)
    ensures nw(s) <= l.len() - (if s.phase == Phase::Sweep { cur } else { 0 }), nw(s) >= 0, blk(s) >= 0, blk(s) <= nw(s)
{
    lemma_blk_sub_nw(s.objs);
    let c = if s.phase == Phase::Sweep { cur } else { 0 };
    let tail = l.subrange(c, l.len() as int);
    lemma_index_all(l);
    assert(nwset(s.objs).subset_of(tail.to_set())) by {
        assert forall|q: GcPtr| nwset(s.objs).contains(q) implies tail.to_set().contains(q) by {
            assert(isobj(s, q)); assert(l.contains(q));
            let i = l.index_of(q);
            if s.phase == Phase::Sweep && i < cur { assert(s.objs[l[i]].color == GcColor::White); }
            assert(tail[i - c] == q);
        }
    }
    tail.lemma_cardinality_of_set();
    lemma_len_subset(nwset(s.objs), tail.to_set());
}

// ---------------------------------------------------------------------------------------------- one lemma per relation
/// tracing (any number of trace / trace_weak calls): `marked` moves with nw; Black objects stay Black
pub proof fn lemma_p_marks(pre: S, post: S, es: Seq<Edge>, cur: int)
    requires pace_w(pre, cur), marks_rel(pre, post, es)
    ensures pace_w(post, cur)
{
    assert(post.objs.dom() =~= pre.objs.dom());
    assert(blkset(pre.objs).subset_of(blkset(post.objs))) by {
        assert forall|q: GcPtr| blkset(pre.objs).contains(q) implies blkset(post.objs).contains(q) by { assert(isobj(pre, q)); }
    }
    lemma_len_subset(blkset(pre.objs), blkset(post.objs));
}
pub proof fn lemma_p_trace(pre: S, post: S, p: GcPtr, weak: bool, cur: int)
    requires pace_w(pre, cur), isobj(pre, p), if weak { trace_weak_rel(pre, post, p) } else { trace_rel(pre, post, p) },
    ensures pace_w(post, cur)
{
    lemma_trace_is_marks(pre, post, p, weak);
    lemma_p_marks(pre, post, seq![Edge { weak: weak, to: p }], cur);
}
/// a queued object is taken and blackened: one more Black object, one more trace credit
pub proof fn lemma_p_black(pre: S, fg: bool, l: Seq<GcPtr>, cur: int)
    requires inv_w(pre, l, cur), pace_w(pre, cur), pre.phase == Phase::Mark, can_take(pre, fg)
    ensures pace_w(black_state(pre, fg), cur)
{
    lemma_black_state(pre, fg, l, cur);
    let p = taken(pre, fg); let mid = black_state(pre, fg);
    assert(mid.objs.dom() =~= pre.objs.dom());
    lemma_sets_step(pre.objs, mid.objs, p);
}
pub proof fn lemma_p_requeue(pre: S, post: S, p: GcPtr, cur: int)
    requires pace_w(pre, cur), isobj(pre, p), pre.objs[p].color == GcColor::Black, make_gray_again_rel(pre, post, p)
    ensures pace_w(post, cur)
{
    assert(post.objs.dom() =~= pre.objs.dom());
    lemma_sets_step(pre.objs, post.objs, p);
}
pub proof fn lemma_p_resurrect(pre: S, post: S, p: GcPtr, cur: int)
    requires pace_w(pre, cur), isobj(pre, p), resurrect_rel(pre, post, p)
    ensures pace_w(post, cur)
{
    assert(post.objs.dom() =~= pre.objs.dom());
    lemma_sets_step(pre.objs, post.objs, p);
}
pub proof fn lemma_p_mark_one(pre: S, post: S, r: ControlFlow<()>, l: Seq<GcPtr>, cur: int)
    requires inv_w(pre, l, cur), pace_w(pre, cur), pre.phase == Phase::Mark, mark_one_rel(pre, post, r)
    ensures pace_w(post, cur)
{
    if pre.gray.len() > 0 || pre.gray_again.len() > 0 {
        let fg = mark_obj_rel(pre, post, true);
        lemma_p_black(pre, fg, l, cur);
        lemma_p_marks(black_state(pre, fg), post, pre.edges[taken(pre, fg)], cur);
    } else if pre.root_needs_trace {
        let mid = S { root_needs_trace: pre.root_needs_trace, ..post };
        lemma_p_marks(pre, mid, pre.root_edges, cur);
    } else { }
}
/// a `Collect::trace` that panics: prefix of the marks, then the guard gives the object's trace credit back
pub proof fn lemma_p_unwind(pre: S, post: S, l: Seq<GcPtr>, cur: int)
    requires inv_w(pre, l, cur), pace_w(pre, cur), pre.phase == Phase::Mark, mark_one_unwind_rel(pre, post)
    ensures pace_w(post, cur)
{
    if pre.gray.len() > 0 || pre.gray_again.len() > 0 {
        let fg = unwind_obj_rel(pre, post, true);
        let p = taken(pre, fg); let mid = black_state(pre, fg);
        let mid2 = choose|mid2: S| #[trigger] make_gray_again_rel(mid2, post, p) && marks_rel(mid, mid2, pre.edges[p]) && mid2.objs[p].color == GcColor::Black;
        lemma_p_black(pre, fg, l, cur);
        lemma_p_marks(mid, mid2, pre.edges[p], cur);
        lemma_black_state(pre, fg, l, cur);
        assert(isobj(mid, p)); assert(mid2.objs.dom() =~= mid.objs.dom());
        lemma_p_requeue(mid2, post, p, cur);
    } else {
        lemma_p_marks(pre, post, pre.root_edges, cur);
    }
}
/// one sweep step
pub proof fn lemma_p_sweep(pre: S, post: S, r: ControlFlow<()>, l: Seq<GcPtr>, cur: int)
    requires inv_w(pre, l, cur), pace_w(pre, cur), pre.phase == Phase::Sweep, sweep_one_rel(pre, post, r)
    ensures pace_w(post, sweep_cur(pre, cur))
{
    if pre.sweep is None {
        assert(post.objs =~= pre.objs);
    } else {
        let o = pre.sweep->Some_0;
        assert(l[cur] == o); assert(l.contains(o)); assert(isobj(pre, o));
        let ob = pre.objs[o];
        if ob.color == GcColor::White {
            // the released object was White; its predecessor only has its link rewritten
            assert forall|q: GcPtr| q != o && isobj(pre, q) implies isobj(post, q) && post.objs[q].color == pre.objs[q].color by {}
            assert forall|q: GcPtr| isobj(post, q) implies q != o && isobj(pre, q) by {}
            assert(nwset(post.objs) =~= nwset(pre.objs));
            assert(blkset(post.objs) =~= blkset(pre.objs));
        } else {
            assert(ob.color != GcColor::Gray);
            assert(post.objs.dom() =~= pre.objs.dom());
            lemma_sets_step(pre.objs, post.objs, o);
            // a Black object is live and is not destructed; a weakly marked one was never Black
            if ob.color == GcColor::Black { assert(is_marked(ob.color)); assert(ob.live); }
        }
    }
}
/// allocation: one more (White) object in front of the cursor
pub proof fn lemma_p_link(pre: S, post: S, p: GcPtr, cur: int)
    requires pace_w(pre, cur), link_pre(pre, p), link_rel(pre, post, p)
    ensures pace_w(post, cur + 1)
{
    assert(nwset(post.objs) =~= nwset(pre.objs));
    assert(blkset(post.objs) =~= blkset(pre.objs));
}
/// anything that leaves objects, counters and phase alone (upgrade, root_barrier, barriers that do nothing, ghost edge updates)
pub proof fn lemma_p_same(pre: S, post: S, cur: int)
    requires pace_w(pre, cur), post.objs =~= pre.objs, post.m == pre.m, post.phase == pre.phase
    ensures pace_w(post, cur)
{
}
/// phase switches of the driver
pub proof fn lemma_p_wake(pre: S, post: S, cur: int)
    requires pace_w(pre, cur), pre.phase == Phase::Sleep, switch_rel(pre, post, Phase::Mark)
    ensures pace_w(post, cur)
{
}
pub proof fn lemma_p_enter_sweep(pre: S, mid: S, post: S, cur: int)
    requires pace_w(pre, cur), pre.phase == Phase::Mark, switch_rel(pre, mid, Phase::Sweep), post == (S { sweep: mid.all, ..mid })
    ensures pace_w(post, 0)
{
}
/// end of the cycle: every per-cycle counter is reset
pub proof fn lemma_p_finish(mid: S, post: S, l: Seq<GcPtr>, cur: int)
    requires inv_w(post, l, cur), post.phase == Phase::Sleep,
        post.m.marked == 0 && post.m.traced == 0 && post.m.remembered == 0 && post.m.dropped == 0 && post.m.freed == 0,
    ensures pace_w(post, cur)
{
    lemma_nw_room(post, l, cur);
}
pub proof fn lemma_p_initial(s: S, cur: int)
    requires s.phase == Phase::Sleep, s.m.marked == 0 && s.m.traced == 0 && s.m.remembered == 0 && s.m.dropped == 0 && s.m.freed == 0,
    ensures pace_w(s, cur)
{
}

/// the write barriers: nothing, a re-queue of the Black parent, or a (weak) trace of the child
pub proof fn theorem_c09_barriers_keep_credit_invariant(pre: S, post: S, parent: GcPtr, child: GcPtr, cur: int)
    requires pace_w(pre, cur), isobj(pre, parent), isobj(pre, child),
        backward_barrier_rel(pre, post, parent, Some(child)) || backward_barrier_rel(pre, post, parent, None)
            || forward_barrier_rel(pre, post, Some(parent), child) || forward_barrier_weak_rel(pre, post, Some(parent), child),
    ensures pace_w(post, cur)
{
    if same(pre, post) { lemma_p_same(pre, post, cur); }
    else if pre.phase == Phase::Mark && pre.objs[parent].color == GcColor::Black && make_gray_again_rel(pre, post, parent) { lemma_p_requeue(pre, post, parent, cur); }
    else if pre.phase == Phase::Mark && trace_rel(pre, post, child) { lemma_p_trace(pre, post, child, false, cur); }
    else { lemma_p_trace(pre, post, child, true, cur); }
}

// ---------------------------------------------------------------------------------------------- I-credit
/// Factors are rationals over a common denominator d (numerators mf .. ff, rho = r / d); every per-object work path is worth <= rho.
pub open spec fn paths_ok(mf: int, tf: int, kf: int, df: int, ff: int, r: int) -> bool {
    &&& mf >= 0 && tf >= 0 && kf >= 0 && df >= 0 && ff >= 0
    &&& mf + tf + kf <= r       // a survivor: marked, traced, kept
    &&& mf + df + kf <= r       // a weakly referenced value that dies: weakly marked, destructed, shell kept
    &&& df + ff <= r            // garbage: destructed, released
}
pub open spec fn credit(m: MV, mf: int, tf: int, kf: int, df: int, ff: int) -> int {
    m.marked * mf + m.traced * tf + m.remembered * kf + m.dropped * df + m.freed * ff
}
proof fn lemma_mul_le(a: int, b: int, c: int)
    requires a <= b, c >= 0
    ensures a * c <= b * c
{
    assert(a * c <= b * c) by (nonlinear_arith) requires a <= b, c >= 0;
}
proof fn lemma_dist2(a: int, b: int, f: int) ensures (a + b) * f == a * f + b * f { assert((a + b) * f == a * f + b * f) by (nonlinear_arith); }
proof fn lemma_dist3(a: int, b: int, c: int, f: int) ensures (a + b + c) * f == a * f + b * f + c * f { assert((a + b + c) * f == a * f + b * f + c * f) by (nonlinear_arith); }
proof fn lemma_distr2(a: int, f: int, g: int) ensures a * (f + g) == a * f + a * g { assert(a * (f + g) == a * f + a * g) by (nonlinear_arith); }
proof fn lemma_distr3(a: int, f: int, g: int, h: int) ensures a * (f + g + h) == a * f + a * g + a * h { assert(a * (f + g + h) == a * f + a * g + a * h) by (nonlinear_arith); }
proof fn lemma_comm(a: int, b: int) ensures a * b == b * a { assert(a * b == b * a) by (nonlinear_arith); }
/// I-credit: the credit earned so far in this cycle is at most rho x (objects that existed in this cycle = still allocated + released)
pub proof fn theorem_c09_credit_bound(s: S, l: Seq<GcPtr>, cur: int, mf: int, tf: int, kf: int, df: int, ff: int, r: int)
    requires inv_w(s, l, cur), pace_w(s, cur), paths_ok(mf, tf, kf, df, ff, r)
    ensures credit(s.m, mf, tf, kf, df, ff) <= r * (s.m.total + s.m.freed)
{
    lemma_nw_room(s, l, cur);
    let m = s.m; let n = nw(s); let b = blk(s);
    // the part of the swept survivors that was Black (ghost split, see the header)
    let kb = if m.traced - b > 0 { m.traced - b } else { 0 };
    let kw = m.remembered - kb;
    assert(0 <= kb <= m.remembered && kw >= 0);
    assert(m.traced <= kb + b);
    assert(m.dropped <= kw + m.freed);
    assert(m.marked <= kb + kw + n);
    lemma_mul_le(m.marked, kb + kw + n, mf);
    lemma_mul_le(m.traced, kb + b, tf);
    lemma_mul_le(m.dropped, kw + m.freed, df);
    lemma_mul_le(b, n, tf);
    // expand every product into monomials; what remains is linear in them
    lemma_dist3(kb, kw, n, mf); lemma_dist2(kb, b, tf); lemma_dist2(kw, m.freed, df); lemma_dist2(kb, kw, kf);
    lemma_distr3(kb, mf, tf, kf); lemma_distr3(kw, mf, df, kf); lemma_distr2(n, mf, tf); lemma_distr2(m.freed, df, ff);
    assert(credit(m, mf, tf, kf, df, ff) <= kb * (mf + tf + kf) + kw * (mf + df + kf) + n * (mf + tf) + m.freed * (df + ff));
    lemma_mul_le(mf + tf + kf, r, kb);
    lemma_mul_le(mf + df + kf, r, kw);
    lemma_mul_le(mf + tf, r, n);
    lemma_mul_le(df + ff, r, m.freed);
    lemma_comm(mf + tf + kf, kb); lemma_comm(mf + df + kf, kw); lemma_comm(mf + tf, n); lemma_comm(df + ff, m.freed);
    lemma_comm(r, kb); lemma_comm(r, kw); lemma_comm(r, n); lemma_comm(r, m.freed);
    lemma_distr2(r, kb, kw); lemma_distr2(r, n, m.freed); lemma_distr2(r, kb + kw, n + m.freed);
    assert(kb * (mf + tf + kf) + kw * (mf + df + kf) + n * (mf + tf) + m.freed * (df + ff) <= r * (kb + kw + n + m.freed));
    assert(kb + kw + n <= m.total);
    assert(r >= 0);
    lemma_mul_le(kb + kw + n + m.freed, m.total + m.freed, r);
    lemma_comm(kb + kw + n + m.freed, r); lemma_comm(m.total + m.freed, r);
}

/// T-pace.  `w` = the state in which the cycle woke up (asleep, positive debt), `s` = a later state of the same cycle (cycle_const: the per-cycle
/// counters have not been reset and pacing / wake-up amount / carried debt are the ones of `w`) in which the debt is paid although the cycle is
/// not finished.  Debt formula over exact rationals with denominator d: debt > 0  <=>  d x allocated - wk + art > credit.
/// Then fewer than rho x H / (1 - rho) allocations were made since the cycle woke:  (d - r) x (allocated since) < r x H.
pub proof fn theorem_c09_pace(w: S, s: S, l: Seq<GcPtr>, cur: int, d: int, r: int, mf: int, tf: int, kf: int, df: int, ff: int, wk: int, art: int)
    requires
        inv_w(s, l, cur), pace_w(s, cur), cycle_const(w.m, s.m), w.m.freed == 0,
        paths_ok(mf, tf, kf, df, ff, r), 0 <= r < d,
        // woke by debt (nothing had been credited yet: asleep all work counters are zero)
        d * w.m.allocated - wk + art > 0,
        // now the debt is paid
        d * s.m.allocated - wk + art <= credit(s.m, mf, tf, kf, df, ff),
    ensures
        (d - r) * (s.m.allocated - w.m.allocated) < r * w.m.total
{
    theorem_c09_credit_bound(s, l, cur, mf, tf, kf, df, ff, r);
    let a = s.m.allocated - w.m.allocated;
    assert(s.m.total + s.m.freed == w.m.total + a);
    assert(d * a < r * (w.m.total + a)) by (nonlinear_arith)
        requires d * s.m.allocated - wk + art <= r * (w.m.total + a), d * w.m.allocated - wk + art > 0, a == s.m.allocated - w.m.allocated;
    assert((d - r) * a < r * w.m.total) by (nonlinear_arith) requires d * a < r * (w.m.total + a);
}

// ---------------------------------------------------------------------------------------------- cycle_const per relation (pure arithmetic)
pub proof fn lemma_cc_steps(pre: S, post: S, r: ControlFlow<()>, p: GcPtr, es: Seq<Edge>)
    ensures
        marks_rel(pre, post, es) ==> cycle_const(pre.m, post.m),
        mark_one_rel(pre, post, r) ==> cycle_const(pre.m, post.m),
        mark_one_unwind_rel(pre, post) ==> cycle_const(pre.m, post.m),
        sweep_one_rel(pre, post, r) ==> cycle_const(pre.m, post.m),
        link_rel(pre, post, p) ==> cycle_const(pre.m, post.m),
        make_gray_again_rel(pre, post, p) ==> cycle_const(pre.m, post.m),
        resurrect_rel(pre, post, p) ==> cycle_const(pre.m, post.m),
        trace_rel(pre, post, p) ==> cycle_const(pre.m, post.m),
        trace_weak_rel(pre, post, p) ==> cycle_const(pre.m, post.m),
{
    if mark_one_rel(pre, post, r) {
        if pre.gray.len() > 0 || pre.gray_again.len() > 0 { let fg = mark_obj_rel(pre, post, true); }
    }
    if mark_one_unwind_rel(pre, post) {
        if pre.gray.len() > 0 || pre.gray_again.len() > 0 {
            let fg = unwind_obj_rel(pre, post, true);
            let q = taken(pre, fg); let mid = black_state(pre, fg);
            let mid2 = choose|mid2: S| #[trigger] make_gray_again_rel(mid2, post, q) && marks_rel(mid, mid2, pre.edges[q]) && mid2.objs[q].color == GcColor::Black;
        }
    }
}

} // mod lem_pace
} // verus!
