// ---- 56_lem_dtor.rs (hand-written, fixed; spec + proof) ----------------------------------------
// A destructor that panics during a sweep step (rule X-unwind, destructor variant).  For a weakly marked value the real code clears the
// live flag BEFORE it runs the destructor, so the unwound state is the one of a normal step whose work has not been counted yet; it
// satisfies Inv, hence the value is never destructed a second time (C04), is_dropped is already true (C05) and later collections go on (C11).
verus! {
pub mod lem_dtor {
use vstd::prelude::*;
use core::ops::ControlFlow;
use super::spec::*;
use super::inv::*;
use super::lem_basic::*;
use super::lem_sweep::*;
use super::{GcPtr, GcColor, Phase};

pub open spec fn sweep_one_unwind_rel(pre: S, post: S) -> bool {
    &&& pre.sweep is Some && pre.objs[pre.sweep->Some_0].color == GcColor::WhiteWeak && pre.objs[pre.sweep->Some_0].live
    &&& sweep_one_rel_heap(pre, post, ControlFlow::Continue(())) && sweep_one_rel_list(pre, post, ControlFlow::Continue(())) && sweep_one_rel_frame(pre, post)
    // the step's work (destructor run, object kept) has not been counted
    &&& post.m == pre.m
}

pub proof fn theorem_c04_destructor_panic_keeps_inv(pre: S, post: S, l: Seq<GcPtr>, cur: int)
    requires inv_w(pre, l, cur), pre.phase == Phase::Sweep, sweep_one_unwind_rel(pre, post)
    ensures inv_w(post, l, cur + 1),
        // the value counts as destructed and will not be destructed again: its shell is not live
        !post.objs[pre.sweep->Some_0].live && post.dropped.contains(pre.sweep->Some_0),
{
    let o = pre.sweep->Some_0;
    let r = ControlFlow::<()>::Continue(());
    // the same step with its work counted
    let full = S { m: MV { remembered: pre.m.remembered + 1, dropped: pre.m.dropped + 1, ..pre.m }, ..post };
    assert(sweep_one_rel(pre, full, r));
    lemma_sweep_inv(pre, full, r, l, cur);
    assert(sweep_l(pre, l, cur) == l && sweep_cur(pre, cur) == cur + 1);
    // Inv reads the counters only through I-count: the total is the same, the others are non-negative
    assert(i_list(post, l, cur + 1) && i_colour(post, l, cur + 1) && i_live(post) && i_tri(post) && i_safe(post, l, cur + 1)) by {
        assert(i_list(full, l, cur + 1) && i_colour(full, l, cur + 1) && i_live(full) && i_tri(full) && i_safe(full, l, cur + 1));
        assert forall|p: GcPtr| #[trigger] prot(post, l, cur + 1, p) <==> prot(full, l, cur + 1, p) by {}
        assert forall|e: Edge| #[trigger] edge_safe(post, l, cur + 1, e) <==> edge_safe(full, l, cur + 1, e) by {}
        assert forall|p: GcPtr| #[trigger] qcount(post, p) == qcount(full, p) by {}
    }
    assert(l.contains(o)) by { assert(l[cur] == o); }
}

} // mod lem_dtor
} // verus!
