// ---- 57_lem_more.rs (hand-written, fixed; proof only) ------------------------------------------
// Two monotonicity theorems over the step relations.
//   C05: is_dropped never reverts - no step makes a destructed value live again, and the ghost record of destructor runs only grows.
//   C10: allocation, mutation and the BACKWARD write barriers never decrease the debt (exact rational value of the formula, A-real; the
//        forward barriers are the known finding F3 and are not in the list).
verus! {
pub mod lem_more {
use vstd::prelude::*;
use core::ops::ControlFlow;
use super::spec::*;
use super::inv::*;
use super::lem_pace::credit;
use super::{GcPtr, GcColor, Phase};

pub open spec fn dropped_mono(pre: S, post: S) -> bool {
    &&& pre.dropped.subset_of(post.dropped)
    &&& forall|p: GcPtr| #[trigger] isobj(pre, p) && isobj(post, p) && !pre.objs[p].live ==> !post.objs[p].live
}

pub proof fn theorem_c05_is_dropped_never_reverts(pre: S, post: S, r: ControlFlow<()>, p: GcPtr, c: Option<GcPtr>, es: Seq<Edge>, b: bool, ph: Phase)
    ensures
        marks_rel(pre, post, es) ==> dropped_mono(pre, post),
        mark_one_rel(pre, post, r) ==> dropped_mono(pre, post),
        mark_one_unwind_rel(pre, post) ==> dropped_mono(pre, post),
        sweep_one_rel(pre, post, r) ==> dropped_mono(pre, post),
        make_gray_again_rel(pre, post, p) ==> dropped_mono(pre, post),
        resurrect_rel(pre, post, p) ==> dropped_mono(pre, post),
        isobj(pre, p) && trace_rel(pre, post, p) ==> dropped_mono(pre, post),
        isobj(pre, p) && trace_weak_rel(pre, post, p) ==> dropped_mono(pre, post),
        upgrade_rel(pre, post, p, b) ==> dropped_mono(pre, post),
        root_barrier_rel(pre, post) ==> dropped_mono(pre, post),
        backward_barrier_rel(pre, post, p, c) ==> dropped_mono(pre, post),
        switch_rel(pre, post, ph) ==> dropped_mono(pre, post),
{
    if marks_rel(pre, post, es) { lemma_marks_mono(pre, post, es); }
    if mark_one_rel(pre, post, r) {
        if pre.gray.len() > 0 || pre.gray_again.len() > 0 {
            let fg = mark_obj_rel(pre, post, true);
            let mid = black_state(pre, fg);
            lemma_marks_mono(mid, post, pre.edges[taken(pre, fg)]);
            assert forall|q: GcPtr| #[trigger] isobj(pre, q) && isobj(post, q) && !pre.objs[q].live implies !post.objs[q].live by { assert(isobj(mid, q)); }
        } else if pre.root_needs_trace {
            let mid = S { root_needs_trace: pre.root_needs_trace, ..post };
            lemma_marks_mono(pre, mid, pre.root_edges);
        }
    }
    if mark_one_unwind_rel(pre, post) {
        if pre.gray.len() > 0 || pre.gray_again.len() > 0 {
            let fg = unwind_obj_rel(pre, post, true);
            let q = taken(pre, fg); let mid = black_state(pre, fg);
            let mid2 = choose|mid2: S| #[trigger] make_gray_again_rel(mid2, post, q) && marks_rel(mid, mid2, pre.edges[q]) && mid2.objs[q].color == GcColor::Black;
            lemma_marks_mono(mid, mid2, pre.edges[q]);
            assert forall|x: GcPtr| #[trigger] isobj(pre, x) && isobj(post, x) && !pre.objs[x].live implies !post.objs[x].live by {
                assert(isobj(mid, x)); assert(isobj(mid2, x));
            }
        } else {
            lemma_marks_mono(pre, post, pre.root_edges);
        }
    }
    if backward_barrier_rel(pre, post, p, c) && !same(pre, post) { }
}
proof fn lemma_marks_mono(pre: S, post: S, es: Seq<Edge>)
    requires marks_rel(pre, post, es)
    ensures dropped_mono(pre, post)
{
    assert forall|q: GcPtr| #[trigger] isobj(pre, q) && isobj(post, q) && !pre.objs[q].live implies !post.objs[q].live by {}
}

// ---------------------------------------------------------------------------------------------- C10: the debt never decreases on the mutator side
/// exact value of the debt formula (x denominator d): 0 for an empty arena or non-positive debits, else max(0, debits - credit)
pub open spec fn debt_num(m: MV, d: int, wk: int, art: int, mf: int, tf: int, kf: int, df: int, ff: int) -> int {
    let debits = d * m.allocated - wk + art;
    if m.total == 0 || debits <= 0 { 0 } else if debits - credit(m, mf, tf, kf, df, ff) > 0 { debits - credit(m, mf, tf, kf, df, ff) } else { 0 }
}
pub proof fn theorem_c10_mutator_side_never_decreases_debt(pre: S, post: S, p: GcPtr, c: Option<GcPtr>, b: bool,
                                                           d: int, wk: int, art: int, mf: int, tf: int, kf: int, df: int, ff: int)
    requires d > 0, mf >= 0, tf >= 0, kf >= 0, df >= 0, ff >= 0, pre.m.total >= 0,
        // allocation, a backward barrier (re-queue of a Black parent or nothing), a weak upgrade, the root barrier
        link_rel(pre, post, p) || backward_barrier_rel(pre, post, p, c) || upgrade_rel(pre, post, p, b) || root_barrier_rel(pre, post),
    ensures debt_num(post.m, d, wk, art, mf, tf, kf, df, ff) >= debt_num(pre.m, d, wk, art, mf, tf, kf, df, ff)
{
    let c0 = credit(pre.m, mf, tf, kf, df, ff); let c1 = credit(post.m, mf, tf, kf, df, ff);
    if link_rel(pre, post, p) {
        assert(c1 == c0);
        assert(d * post.m.allocated == d * pre.m.allocated + d) by (nonlinear_arith) requires post.m.allocated == pre.m.allocated + 1;
    } else if backward_barrier_rel(pre, post, p, c) && !same(pre, post) {
        assert(post.m.traced == pre.m.traced - 1);
        assert(post.m.traced * tf == pre.m.traced * tf - tf) by (nonlinear_arith) requires post.m.traced == pre.m.traced - 1;
        assert(c1 == c0 - tf);
    } else {
        assert(post.m == pre.m);
    }
}

} // mod lem_more
} // verus!
