extern crate std;
use crate::arena::Arena;
use crate::Rootable;
use crate::context::Phase;
use crate::dynamic_roots::DynamicRootSet;
use crate::gc::Gc;
use crate::lock::{Lock, RefLock};
use crate::types::GcColor;
use crate::collect::Collect;

fn any_color() -> GcColor {
    match kani::any::<u8>() & 3 { 0 => GcColor::White, 1 => GcColor::WhiteWeak, 2 => GcColor::Gray, _ => GcColor::Black }
}
fn any_phase() -> Phase {
    match kani::any::<u8>() & 3 { 0 => Phase::Mark, 1 => Phase::Sweep, _ => Phase::Sleep }
}

#[derive(crate::Collect)]
#[collect(no_drop)]
struct Node<'gc> { slot: Lock<Option<Gc<'gc, u8>>>, cell: RefLock<Option<Gc<'gc, u8>>> }

#[derive(crate::Collect)]
#[collect(no_drop)]
struct Root<'gc> { node: Gc<'gc, Node<'gc>>, set: DynamicRootSet<'gc> }

// the single-sourced predicate of the design (strong adoption, general parent-only form)
fn can_adopt_general(phase: Phase, parent: GcColor) -> bool { phase != Phase::Mark || parent != GcColor::Black }
fn can_adopt(phase: Phase, parent: GcColor, child: GcColor) -> bool {
    phase != Phase::Mark || parent != GcColor::Black || matches!(child, GcColor::Gray | GcColor::Black)
}

#[kani::proof]
fn path_lock_set_and_borrow_mut_and_stash() {
    let mut arena = Arena::<Rootable![Root<'_>]>::new(|mc| Root {
        node: Gc::new(mc, Node { slot: Lock::new(None), cell: RefLock::new(None) }),
        set: DynamicRootSet::new(mc),
    });
    // a second arena, to observe the frame (C20)
    let other = Arena::<Rootable![Gc<'_, u8>]>::new(|mc| Gc::new(mc, 9u8));
    let other_phase0 = other.context_for_verif().phase();
    let other_debt0 = other.metrics().total_gc_count();

    let phase = any_phase();
    let pc = any_color();
    let sc = any_color();
    // traced counter consistent with a gray/black tracing parent having earned its credit (local projection of I-count)
    let traced: usize = kani::any();
    kani::assume(traced >= 2 && traced < usize::MAX - 4);
    arena.context_mut_for_verif().verif_set(phase, traced);
    let which: u8 = kani::any();
    kani::assume(which < 3);
    arena.mutate(|mc, root| {
        let parent = Gc::erase(root.node).ptr;
        let setp = root.set.inner_for_verif().ptr;
        parent.header().set_color(pc);
        setp.header().set_color(sc);
        kani::assume(phase == Phase::Mark || !matches!(pc, GcColor::Gray)); // I-queue projection: gray only while marking
        kani::assume(phase == Phase::Mark || !matches!(sc, GcColor::Gray));
        let child = Gc::new(mc, 7u8);
        let cc = any_color();
        kani::assume(cc != GcColor::Gray); // a u8 is non-tracing: never gray
        child.ptr.header().set_color(cc);
        match which {
            0 => {
                root.node.write_slot_for_verif(mc, child); // Gc::write + field! + unlock + set
                assert!(can_adopt_general(phase, parent.header().color()));
            }
            1 => {
                *Gc::write(mc, root.node).cell_for_verif().unlock().borrow_mut() = Some(child);
                assert!(can_adopt_general(phase, parent.header().color()));
            }
            _ => {
                let h = root.set.stash::<Rootable![u8]>(mc, child);
                assert!(can_adopt(phase, setp.header().color(), child.ptr.header().color()));
                assert!(Gc::ptr_eq(root.set.fetch(&h), child));
                core::mem::forget(h);
            }
        }
        // child header untouched by backward barriers
        assert!(child.ptr.header().color() == cc);
    });
    assert!(arena.context_for_verif().phase() == phase);
    assert!(other.context_for_verif().phase() == other_phase0 && other.metrics().total_gc_count() == other_debt0);
    core::mem::forget(arena);
    core::mem::forget(other);
}

impl<'gc> Node<'gc> {
    fn cell_ref(&self) -> &RefLock<Option<Gc<'gc, u8>>> { &self.cell }
}
trait VerifExt<'gc> {
    fn write_slot_for_verif(self, mc: &crate::Mutation<'gc>, child: Gc<'gc, u8>);
}
impl<'gc> VerifExt<'gc> for Gc<'gc, Node<'gc>> {
    fn write_slot_for_verif(self, mc: &crate::Mutation<'gc>, child: Gc<'gc, u8>) {
        crate::barrier::unlock!(Gc::write(mc, self), Node, slot).set(Some(child));
    }
}
trait VerifExt2<'gc> { fn cell_for_verif(&self) -> &crate::barrier::Write<RefLock<Option<Gc<'gc, u8>>>>; }
impl<'gc> VerifExt2<'gc> for crate::barrier::Write<Node<'gc>> {
    fn cell_for_verif(&self) -> &crate::barrier::Write<RefLock<Option<Gc<'gc, u8>>>> { crate::barrier::field!(self, Node, cell) }
}

#[kani::proof]
fn path_borrow_mut_non_tracing_parent() {
    let mut arena = Arena::<Rootable![Gc<'_, RefLock<i32>>]>::new(|mc| Gc::new(mc, RefLock::new(1)));
    let phase = any_phase();
    let pc = any_color();
    // local projection of I-count: traced >= number of black *tracing* objects; this parent is non-tracing => no lower bound
    let traced: usize = kani::any();
    kani::assume(traced < usize::MAX - 4);
    arena.context_mut_for_verif().verif_set(phase, traced);
    arena.mutate(|mc, root| {
        let parent = Gc::erase(*root).ptr;
        kani::assume(pc != GcColor::Gray); // non-tracing objects are never gray unless resurrected
        parent.header().set_color(pc);
        *root.borrow_mut(mc) = 2;          // sanctioned path: Gc::write -> backward_barrier(parent, None)
    });
    core::mem::forget(arena);
}

// ---- bounded whole-arena script (thorough tier, labelled bounded): <= 3 objects, 4 symbolic operations
static mut SCRIPT_DROPS: [u8; 4] = [0; 4];
struct Cell3<'gc> { id: u8, next: Lock<Option<Gc<'gc, Cell3<'gc>>>> }
impl<'gc> Drop for Cell3<'gc> { fn drop(&mut self) { unsafe { SCRIPT_DROPS[self.id as usize] += 1; } } }
unsafe impl<'gc> Collect<'gc> for Cell3<'gc> {
    fn trace<T: crate::collect::Trace<'gc>>(&self, cc: &mut T) { cc.trace(&self.next); }
}
#[derive(crate::Collect)]
#[collect(no_drop)]
struct SRoot<'gc> { a: Lock<Option<Gc<'gc, Cell3<'gc>>>> }

#[kani::proof]
#[kani::unwind(6)]
fn script_bounded_c01() {
    let mut arena = Arena::<Rootable![SRoot<'_>]>::new(|_| SRoot { a: Lock::new(None) });
    arena.metrics().set_pacing(crate::metrics::Pacing { min_sleep: 0, sleep_factor: 0.0, ..crate::metrics::Pacing::DEFAULT });
    let mut next_id: u8 = 0;
    let mut k = 0;
    while k < 4 {
        let op: u8 = kani::any();
        kani::assume(op < 5);
        match op {
            0 => if next_id < 3 {
                let id = next_id; next_id += 1;
                // allocate and link in front of the chain (root barrier path: mutate_root)
                arena.mutate_root(|mc, root| {
                    let n = Gc::new(mc, Cell3 { id, next: Lock::new(root.a.get()) });
                    crate::barrier::Write::from_mut(&mut root.a).unlock().set(Some(n));
                });
            },
            1 => arena.mutate_root(|_, root| { // unlink head
                let nx = root.a.get().and_then(|h| h.next.get());
                crate::barrier::Write::from_mut(&mut root.a).unlock().set(nx);
            }),
            2 => { arena.metrics().adjust_debt(0.3); arena.collect_debt(); }
            3 => { let _ = arena.finish_marking(); }
            _ => arena.finish_cycle(),
        }
        // oracle C01: everything reachable from the root has not been destructed
        arena.mutate(|_, root| {
            let mut cur = root.a.get();
            let mut steps = 0;
            while let Some(c) = cur {
                assert!(unsafe { SCRIPT_DROPS[c.id as usize] } == 0);
                cur = c.next.get();
                steps += 1;
                if steps >= 3 { break; }
            }
        });
        k += 1;
    }
    core::mem::forget(arena);
}
