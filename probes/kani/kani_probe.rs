extern crate std;
use std::vec::Vec;
use std::vec;
use crate::context::{Context, Phase};
use crate::gc::Gc;
use crate::gc_ptr::GcPtr;
use crate::types::GcColor;
use crate::collect::Collect;
use core::ops::ControlFlow;

static mut DROPS: [u8; 4] = [0; 4];

struct Tok(u8);
impl Drop for Tok {
    fn drop(&mut self) {
        unsafe { DROPS[self.0 as usize] += 1; }
    }
}
unsafe impl<'gc> Collect<'gc> for Tok {
    const NEEDS_TRACE: bool = false;
}

fn any_color() -> GcColor {
    match kani::any::<u8>() & 3 {
        0 => GcColor::White,
        1 => GcColor::WhiteWeak,
        2 => GcColor::Gray,
        _ => GcColor::Black,
    }
}

#[kani::proof]
fn probe_sweep_one() {
    unsafe {
        let mut cx = Context::new();
        let (a, b, c): (GcPtr, GcPtr, GcPtr) = {
            let mc = cx.mutation_context();
            // list order after linking: all -> a -> b -> c
            let c = Gc::new(mc, Tok(2)).ptr.erase();
            let b = Gc::new(mc, Tok(1)).ptr.erase();
            let a = Gc::new(mc, Tok(0)).ptr.erase();
            (a, b, c)
        };
        // symbolic colours (no gray in the sweep region by invariant), symbolic live flag on b
        let cb = any_color();
        kani::assume(cb != GcColor::Gray);
        b.header().set_color(cb);
        let live_b: bool = kani::any();
        kani::assume(cb == GcColor::Black || true);
        b.header().set_live(live_b);
        kani::assume(live_b || cb != GcColor::Black);
        c.header().set_color(any_color());
        a.header().set_color(any_color());

        let has_prev: bool = kani::any();
        cx.set_phase_for_probe(Phase::Sweep);
        if has_prev {
            cx.probe_set(Some(b), Some(a));
        } else {
            // a was already swept away: all -> b
            cx.probe_set_all(Some(b));
            cx.probe_set(Some(b), None);
        }
        let before_total = cx.metrics().total_gc_count();
        let r = cx.probe_sweep_one();
        assert!(matches!(r, ControlFlow::Continue(())));
        match cb {
            GcColor::White => {
                assert!(cx.metrics().total_gc_count() == before_total - 1);
                assert!(DROPS[1] == if live_b { 1 } else { 0 });
                if has_prev {
                    assert!(a.header().next().unwrap().addr_eq(c));
                } else {
                    assert!(cx.probe_all().unwrap().addr_eq(c));
                }
            }
            GcColor::WhiteWeak => {
                assert!(cx.metrics().total_gc_count() == before_total);
                assert!(DROPS[1] == if live_b { 1 } else { 0 });
                assert!(!b.header().is_live());
                assert!(b.header().color() == GcColor::White);
                assert!(b.header().next().unwrap().addr_eq(c));
            }
            GcColor::Black => {
                assert!(cx.metrics().total_gc_count() == before_total);
                assert!(DROPS[1] == 0);
                assert!(b.header().is_live());
                assert!(b.header().color() == GcColor::White);
            }
            GcColor::Gray => unreachable!(),
        }
        assert!(DROPS[0] == 0 && DROPS[2] == 0);
        core::mem::forget(cx);
    }
}

#[kani::proof]
fn probe_playback() {
    let a: u8 = kani::any();
    let b: u16 = kani::any();
    kani::assume(a > 3);
    assert!(!(a == 77 && b == 4242), "cex wanted");
}

/// Test generated for harness `kani_probe::probe_playback`
///
/// Check for `assertion`: "This is a placeholder message; Kani doesn't support message formatted at runtime"

#[test]
fn kani_concrete_playback_probe_playback_15235140536642406722() {
    let concrete_vals: Vec<Vec<u8>> = vec![
        // 77
        vec![77],
        // 4242
        vec![146, 16],
    ];
    kani::concrete_playback_run(concrete_vals, probe_playback);
}

use crate::lock::Lock;
use crate::gc_weak::GcWeak;

#[derive(crate::Collect)]
#[collect(no_drop, gc_lifetime = 'gc)]
struct N<'gc> {
    s: Lock<Option<Gc<'gc, N<'gc>>>>,
    w: Lock<Option<GcWeak<'gc, N<'gc>>>>,
}

#[kani::proof]
fn probe_mark_one() {
    unsafe {
        let mut cx = Context::new();
        let (p, c, d) = {
            let mc = cx.mutation_context();
            let d = Gc::new(mc, N { s: Lock::new(None), w: Lock::new(None) });
            let c = Gc::new(mc, N { s: Lock::new(None), w: Lock::new(None) });
            let p = Gc::new(mc, N {
                s: Lock::new(if kani::any() { Some(c) } else { None }),
                w: Lock::new(if kani::any() { Some(Gc::downgrade(d)) } else { None }),
            });
            (p, c, d)
        };
        let has_s = p.s.get().is_some();
        let has_w = p.w.get().is_some();
        let (pp, cp, dp) = (p.ptr.erase(), c.ptr.erase(), d.ptr.erase());
        cx.set_phase_for_probe(Phase::Mark);
        // p is gray and queued; c, d arbitrary colour (queued iff gray is not modelled here: exclude gray)
        pp.header().set_color(GcColor::Gray);
        cx.probe_push_gray(pp);
        let cc0 = any_color(); kani::assume(cc0 != GcColor::Gray);
        let dc0 = any_color(); kani::assume(dc0 != GcColor::Gray);
        cp.header().set_color(cc0);
        dp.header().set_color(dc0);
        cx.probe_set_root_flag(false);
        let r = cx.probe_mark_one(&());
        assert!(matches!(r, ControlFlow::Continue(())));
        assert!(pp.header().color() == GcColor::Black);
        if has_s {
            // strong child is never left white / white-weak
            assert!(!matches!(cp.header().color(), GcColor::White | GcColor::WhiteWeak));
            assert!((cp.header().color() == GcColor::Gray) == (cc0 == GcColor::White || cc0 == GcColor::WhiteWeak));
        } else {
            assert!(cp.header().color() == cc0);
        }
        if has_w {
            assert!(dp.header().color() != GcColor::White);
            assert!(dp.header().color() == if dc0 == GcColor::White { GcColor::WhiteWeak } else { dc0 });
        } else {
            assert!(dp.header().color() == dc0);
        }
        assert!(cx.gray_remaining() == (has_s && (cc0 == GcColor::White || cc0 == GcColor::WhiteWeak)));
        core::mem::forget(cx);
    }
}

#[kani::proof]
fn probe_slice_alloc_dealloc_symbolic_len() {
    use crate::slice::GcSliceWithHeaderBuilder;
    let len: usize = kani::any();
    kani::assume(len <= (1usize << 40));
    let b = GcSliceWithHeaderBuilder::<u16, u32>::new(len);
    let mut sb = b.write_header(7u16);
    let p = sb.slice_ptr();
    assert!(p.len() == len);
    assert!((p as *mut u32 as usize) % 4 == 0);
    drop(sb); // abandon: must free with the identical layout (Kani checks size match + base pointer)
}

use crate::collect::Trace;
struct Rec { strong: [usize; 4], ns: usize, weak: [usize; 4], nw: usize }
impl<'gc> Trace<'gc> for Rec {
    fn trace_gc(&mut self, gc: Gc<'gc, ()>) { self.strong[self.ns] = Gc::as_ptr(gc) as usize; self.ns += 1; }
    fn trace_gc_weak(&mut self, gc: GcWeak<'gc, ()>) { self.weak[self.nw] = GcWeak::as_ptr(gc) as usize; self.nw += 1; }
}

#[kani::proof]
#[kani::unwind(4)]
fn probe_collect_vec_tuple_result() {
    unsafe {
        let cx = Context::new();
        let mc = cx.mutation_context();
        let a = Gc::new(mc, Tok(0)); let b = Gc::new(mc, Tok(1)); let c = Gc::new(mc, Tok(2));
        let n: usize = kani::any(); kani::assume(n <= 2);
        let mut v: Vec<Gc<'_, Tok>> = Vec::new();
        if n >= 1 { v.push(a); } if n >= 2 { v.push(b); }
        let val: (Vec<Gc<'_, Tok>>, u8, Result<GcWeak<'_, Tok>, Gc<'_, Tok>>) =
            (v, 3, if kani::any() { Ok(Gc::downgrade(c)) } else { Err(c) });
        let is_ok = val.2.is_ok();
        let mut r = Rec { strong: [0; 4], ns: 0, weak: [0; 4], nw: 0 };
        assert!(<(Vec<Gc<'_, Tok>>, u8, Result<GcWeak<'_, Tok>, Gc<'_, Tok>>) as Collect>::NEEDS_TRACE);
        Collect::trace(&val, &mut r);
        assert!(r.ns == n + if is_ok { 0 } else { 1 });
        assert!(r.nw == if is_ok { 1 } else { 0 });
        if n >= 1 { assert!(r.strong[0] == Gc::as_ptr(a) as usize); }
        if n >= 2 { assert!(r.strong[1] == Gc::as_ptr(b) as usize); }
        if is_ok { assert!(r.weak[0] == Gc::as_ptr(c) as usize); } else { assert!(r.strong[n] == Gc::as_ptr(c) as usize); }
        core::mem::forget(val);
        core::mem::forget(cx);
    }
}

#[kani::proof]
#[kani::unwind(6)]
fn probe_collect_hashmap() {
    use std::collections::HashMap;
    unsafe {
        let cx = Context::new();
        let mc = cx.mutation_context();
        let a = Gc::new(mc, Tok(0));
        let mut m: HashMap<u8, Gc<'_, Tok>> = HashMap::new();
        m.insert(1, a);
        let mut r = Rec { strong: [0; 4], ns: 0, weak: [0; 4], nw: 0 };
        Collect::trace(&m, &mut r);
        assert!(r.ns == 1 && r.strong[0] == Gc::as_ptr(a) as usize);
        core::mem::forget(m);
        core::mem::forget(cx);
    }
}

#[kani::proof]
fn probe_conversions_identity() {
    use crate::slice::{GcSlice, GcStr};
    use crate::zst_cache::ZstCache;
    unsafe {
        let cx = Context::new();
        let mc = cx.mutation_context();
        // slice with symbolic length (<= 3 so copy loops stay tiny), thin/fat round trip reconstructs the length
        let n: usize = kani::any();
        kani::assume(n <= 3);
        let src = [7u32, 8, 9];
        let s = GcSlice::new_slice(mc, &src[..n]);
        let thin = Gc::as_thin(s);
        let fat = Gc::as_fat(thin);
        assert!(Gc::ptr_eq(fat, s));
        assert!(Gc::as_ptr(fat) as *const u8 == Gc::as_ptr(s) as *const u8);
        assert!(fat.len() == n && thin.len() == n);
        if n > 0 { assert!(fat[n - 1] == src[n - 1]); }
        // erase / downgrade / upgrade / as_ptr / from_ptr keep the address
        let e = Gc::erase(s);
        assert!(Gc::as_ptr(e) as *const u8 == Gc::as_ptr(s) as *const u8);
        let w = Gc::downgrade(s);
        let u = w.upgrade(mc).unwrap();
        assert!(Gc::ptr_eq(u, s));
        let back = Gc::<[u32], _>::from_ptr_with_kind(Gc::as_ptr(s));
        let back: GcSlice<'_, u32> = back;
        assert!(Gc::ptr_eq(back, s) && back.len() == n);
        // unsize to a trait object keeps the address
        let g = Gc::new(mc, 5u64);
        let d = crate::unsize!(g => dyn core::any::Any);
        assert!(Gc::as_ptr(d) as *const u8 == Gc::as_ptr(g) as *const u8);
        // ZstCache: shared pointer only for ZSTs whose alignment fits
        #[repr(align(8))] struct A8; #[repr(align(32))] struct A32;
        let c = ZstCache::<16>::new(mc);
        let p8 = c.alloc_static(mc, A8);
        let p32 = c.alloc_static(mc, A32);
        let pn = c.alloc_static(mc, 3u8);
        assert!(c.is_cached(p8) && !c.is_cached(p32) && !c.is_cached(pn));
        assert!((Gc::as_ptr(p32) as usize) % 32 == 0);
        core::mem::forget(cx);
    }
}
