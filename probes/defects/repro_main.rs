use gc_arena::{Arena, Gc, Rootable, Collect, lock::RefLock, lock::Lock, barrier::Write, arena::CollectionPhase};
use std::rc::Rc;

fn c10() {
    let mut arena = Arena::<Rootable![Gc<'_, RefLock<i32>>]>::new(|mc| Gc::new(mc, RefLock::new(1)));
    let _ = arena.finish_marking();
    println!("phase after tiny debt: {:?} debt={}", arena.collection_phase(), arena.metrics().allocation_debt());
    arena.metrics().adjust_debt(1000.0);
    let before = arena.metrics().allocation_debt();
    let r = std::panic::catch_unwind(std::panic::AssertUnwindSafe(|| {
        arena.mutate(|mc, root| { *root.borrow_mut(mc) = 2; });
    }));
    println!("C10: barrier on non-tracing black object: panicked={} debt before={} after={}", r.is_err(), before, arena.metrics().allocation_debt());
}

#[derive(Collect)]
#[collect(no_drop)]
struct Node<'gc> { slot: Lock<Option<Gc<'gc, Tok>>> }
#[derive(Collect)]
#[collect(require_static)]
struct Tok(u32);
impl Drop for Tok { fn drop(&mut self) { println!("  drop Tok({})", self.0); self.0 = 0xdead; } }

fn c13() {
    let mut arena = Arena::<Rootable![Gc<'_, Node<'_>>]>::new(|mc| Gc::new(mc, Node { slot: Lock::new(None) }));
    let _ = arena.finish_marking();
    println!("C13 phase: {:?}", arena.collection_phase());
    arena.mutate(|mc, root| {
        let fresh = Gc::new(mc, Tok(7));
        let mut r: &Node<'_> = &**root;
        let w: &Write<Node<'_>> = Write::from_mut(&mut r).as_deref();
        gc_arena::barrier::unlock!(w, Node, slot).set(Some(fresh));
    });
    println!("C13 phase after forged write: {:?} (Marked => no barrier fired)", arena.collection_phase());
    arena.finish_cycle();
    arena.mutate(|_, root| {
        let t = root.slot.get().unwrap();
        println!("C13: root.slot -> Tok({:#x}) after collection (0xdead/garbage => use after free)", t.0);
    });
}

fn c13_rc() {
    #[derive(Collect)]
    #[collect(no_drop)]
    struct N2<'gc> { shared: Rc<Lock<Option<Gc<'gc, Tok>>>> }
    let mut arena = Arena::<Rootable![(Gc<'_, N2<'_>>, Gc<'_, N2<'_>>)]>::new(|mc| {
        let rc = Rc::new(Lock::new(None));
        (Gc::new(mc, N2 { shared: rc.clone() }), Gc::new(mc, N2 { shared: rc }))
    });
    let _ = arena.finish_marking();
    arena.mutate(|mc, root| {
        let fresh = Gc::new(mc, Tok(9));
        let w = Gc::write(mc, root.0);
        let inner: &Write<Lock<Option<Gc<'_, Tok>>>> = gc_arena::barrier::field!(w, N2, shared).as_deref();
        inner.unlock().set(Some(fresh));
    });
    println!("C13-rc phase: {:?}", arena.collection_phase());
}

fn c19() {
    use gc_arena::zst_cache::ZstCache;
    mod guard { pub struct Token(()); impl Token { pub fn describe(&self) -> &'static str { "a Token that was never constructed" } } }
    gc_arena::arena::rootless_mutate(|mc| {
        let cache = ZstCache::<8>::new(mc);
        let g: Option<Gc<'_, guard::Token>> = cache.alloc_zst::<guard::Token>();
        println!("C19: alloc_zst::<Token>() -> is_some={} : {}", g.is_some(), g.map(|g| g.describe()).unwrap_or("-"));
    });
}

fn c09() {
    use gc_arena::metrics::Pacing;
    let mut arena = Arena::<Rootable![()]>::new(|_| ());
    arena.metrics().set_pacing(Pacing { min_sleep: 10, ..Pacing::STOP_THE_WORLD });
    arena.finish_cycle();
    for _ in 0..30 { arena.mutate(|mc, _| { let _ = Gc::new(mc, 0u8); }); }
    println!("C09 before: phase={:?} debt={} count={}", arena.collection_phase(), arena.metrics().allocation_debt(), arena.metrics().total_gc_count());
    arena.collect_debt();
    println!("C09 after collect_debt: phase={:?} debt={} count={}", arena.collection_phase(), arena.metrics().allocation_debt(), arena.metrics().total_gc_count());
    arena.collect_debt();
    println!("C09 after 2nd collect_debt: phase={:?} debt={}", arena.collection_phase(), arena.metrics().allocation_debt());
    // same with cycle_debt
    let mut arena = Arena::<Rootable![()]>::new(|_| ());
    arena.metrics().set_pacing(Pacing { min_sleep: 10, ..Pacing::STOP_THE_WORLD });
    arena.finish_cycle();
    for _ in 0..30 { arena.mutate(|mc, _| { let _ = Gc::new(mc, 0u8); }); }
    arena.cycle_debt();
    println!("C09 after cycle_debt: phase={:?} debt={} count={}", arena.collection_phase(), arena.metrics().allocation_debt(), arena.metrics().total_gc_count());
    // mixed: default pacing, all garbage, big burst
    let mut arena = Arena::<Rootable![()]>::new(|_| ());
    arena.finish_cycle();
    for _ in 0..3000 { arena.mutate(|mc, _| { let _ = Gc::new(mc, 0u8); }); }
    arena.collect_debt();
    println!("C09 default pacing all-garbage: phase={:?} debt={} count={}", arena.collection_phase(), arena.metrics().allocation_debt(), arena.metrics().total_gc_count());
}

fn c10b() {
    let mut arena = Arena::<Rootable![Gc<'_, Node<'_>>]>::new(|mc| Gc::new(mc, Node { slot: Lock::new(None) }));
    let _ = arena.finish_marking();
    arena.metrics().adjust_debt(500.0);
    let before = arena.metrics().allocation_debt();
    let total_before = arena.metrics().total_gc_count();
    // barrier-only callback on an already-allocated white object: allocate in a first callback, barrier in a second
    arena.mutate(|mc, _| { let _ = Gc::new(mc, Tok(1)); });
    let mid = arena.metrics().allocation_debt();
    arena.mutate(|mc, root| {
        // a fresh white object + forward barrier (child-only general form)
        let fresh = Gc::new(mc, Tok(2));
        let d0 = mc.metrics().allocation_debt();
        mc.forward_barrier(None, Gc::erase(fresh));
        let d1 = mc.metrics().allocation_debt();
        println!("C10b: forward_barrier(None, white child): debt {} -> {} (delta {})", d0, d1, d1 - d0);
        let fresh2 = Gc::new(mc, Tok(3));
        let d0 = mc.metrics().allocation_debt();
        mc.forward_barrier_weak(Some(Gc::erase(*root)), gc_arena::GcWeak::erase(Gc::downgrade(fresh2)));
        let d1 = mc.metrics().allocation_debt();
        println!("C10b: forward_barrier_weak(Some(black), white child): debt {} -> {} (delta {})", d0, d1, d1 - d0);
    });
    println!("C10b: before={} after-alloc={} total {}->{}", before, mid, total_before, arena.metrics().total_gc_count());
}

fn main() {
    let which = std::env::args().nth(1).unwrap_or_default();
    match which.as_str() { "c10" => c10(), "c13" => c13(), "c13rc" => c13_rc(), "c19" => c19(), "c10b" => c10b(), "c09" => c09(), _ => {} }
    let _ = CollectionPhase::Sleeping;
}
