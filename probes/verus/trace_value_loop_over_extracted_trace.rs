use vstd::prelude::*;
verus! {

#[derive(Copy, Clone, Eq, PartialEq, Debug, Structural)]
pub enum GcColor { White, WhiteWeak, Gray, Black }

#[derive(Copy, Clone, Eq, PartialEq, Debug, Structural)]
pub struct GcPtr { pub id: usize }

pub struct Obj { pub color: GcColor, pub live: bool, pub needs_trace: bool }
pub struct Edge { pub weak: bool, pub to: GcPtr }

pub struct Heap {
    pub objs: Ghost<Map<GcPtr, Obj>>,
    pub edges: Ghost<Map<GcPtr, Seq<Edge>>>,
}
impl Heap {
    pub open spec fn has(&self, p: GcPtr) -> bool { self.objs@.dom().contains(p) }
    pub open spec fn get(&self, p: GcPtr) -> Obj { self.objs@[p] }
    #[verifier::external_body]
    pub fn color(&self, p: GcPtr) -> (c: GcColor) requires self.has(p) ensures c == self.get(p).color { unimplemented!() }
    #[verifier::external_body]
    pub fn is_live(&self, p: GcPtr) -> (c: bool) requires self.has(p) ensures c == self.get(p).live { unimplemented!() }
    #[verifier::external_body]
    pub fn needs_trace(&self, p: GcPtr) -> (c: bool) requires self.has(p) ensures c == self.get(p).needs_trace { unimplemented!() }
    #[verifier::external_body]
    pub fn set_color(&mut self, p: GcPtr, c: GcColor) requires old(self).has(p)
        ensures final(self).objs@ == old(self).objs@.insert(p, Obj { color: c, ..old(self).get(p) }), final(self).edges == old(self).edges { unimplemented!() }
    // shim access to the traced value's pointers (stands for "a correct Collect::trace visits these, in this order")
    #[verifier::external_body]
    pub fn edge_count(&self, p: GcPtr) -> (n: usize) requires self.has(p) ensures n == self.edges@[p].len() { unimplemented!() }
    #[verifier::external_body]
    pub fn edge(&self, p: GcPtr, i: usize) -> (e: (bool, GcPtr)) requires self.has(p), i < self.edges@[p].len()
        ensures e.0 == self.edges@[p][i as int].weak, e.1 == self.edges@[p][i as int].to { unimplemented!() }
}

pub struct Metrics { pub marked_gcs: usize }
impl Metrics {
    pub fn mark_gc_marked(&mut self, count: usize)
        requires old(self).marked_gcs + count <= usize::MAX
        ensures final(self).marked_gcs == old(self).marked_gcs + count
    { self.marked_gcs = self.marked_gcs + count; }
}

pub struct Context { pub metrics: Metrics, pub gray: Vec<GcPtr>, pub heap: Heap }

// abstract view + functional specs (same shape as the lemma layer's trace_spec / trace_weak_spec / trace_all)
pub struct S { pub objs: Map<GcPtr, Obj>, pub gray: Seq<GcPtr>, pub marked: int, pub edges: Map<GcPtr, Seq<Edge>> }
pub open spec fn is_white(c: GcColor) -> bool { c == GcColor::White || c == GcColor::WhiteWeak }
pub open spec fn trace_spec(s: S, p: GcPtr) -> S {
    let o = s.objs[p];
    if is_white(o.color) {
        let m = if o.color == GcColor::White { s.marked + 1 } else { s.marked };
        if o.needs_trace { S { objs: s.objs.insert(p, Obj { color: GcColor::Gray, ..o }), gray: s.gray.push(p), marked: m, ..s } }
        else { S { objs: s.objs.insert(p, Obj { color: GcColor::Black, ..o }), marked: m, ..s } }
    } else { s }
}
pub open spec fn trace_weak_spec(s: S, p: GcPtr) -> S {
    let o = s.objs[p];
    if o.color == GcColor::White { S { objs: s.objs.insert(p, Obj { color: GcColor::WhiteWeak, ..o }), marked: s.marked + 1, ..s } } else { s }
}
pub open spec fn trace_edge(s: S, e: Edge) -> S { if e.weak { trace_weak_spec(s, e.to) } else { trace_spec(s, e.to) } }
pub open spec fn trace_all(s: S, es: Seq<Edge>) -> S decreases es.len()
{ if es.len() == 0 { s } else { trace_all(trace_edge(s, es[0]), es.subrange(1, es.len() as int)) } }

pub proof fn lemma_trace_all_snoc(s: S, es: Seq<Edge>, k: int)
    requires 0 <= k < es.len()
    ensures trace_all(s, es.subrange(0, k + 1)) == trace_edge(trace_all(s, es.subrange(0, k)), es[k])
    decreases k
{
    let a = es.subrange(0, k + 1);
    if k == 0 {
        assert(a.subrange(1, 1) =~= Seq::<Edge>::empty());
        assert(es.subrange(0, 0) =~= Seq::<Edge>::empty());
        assert(a[0] == es[0]);
        assert(trace_all(trace_edge(s, a[0]), a.subrange(1, a.len() as int)) == trace_edge(s, es[0]));
    } else {
        let s1 = trace_edge(s, es[0]);
        let tail = es.subrange(1, es.len() as int);
        assert(a.subrange(1, a.len() as int) =~= tail.subrange(0, k));
        assert(es.subrange(0, k).subrange(1, k) =~= tail.subrange(0, k - 1));
        assert(a[0] == es[0] && es.subrange(0, k)[0] == es[0]);
        lemma_trace_all_snoc(s1, tail, k - 1);
        assert(tail[k - 1] == es[k]);
    }
}

impl Context {
    pub open spec fn view(&self) -> S { S { objs: self.heap.objs@, gray: self.gray@, marked: self.metrics.marked_gcs as int, edges: self.heap.edges@ } }

    // precondition common to the tracing primitives: the local projection of Inv they need
    pub open spec fn ok_target(&self, p: GcPtr) -> bool { self.heap.has(p) && self.metrics.marked_gcs < usize::MAX }

    // ---- extracted from src/context.rs (rules X-mut, X-hdr, X-dbg)
    fn trace(&mut self, gc_ptr: GcPtr)
        requires old(self).ok_target(gc_ptr),
            (is_white(old(self).heap.get(gc_ptr).color) && old(self).heap.get(gc_ptr).needs_trace) ==> old(self).heap.get(gc_ptr).live,
        ensures final(self)@ == trace_spec(old(self)@, gc_ptr)
    {
        let color = self.heap.color(gc_ptr);
        match color {
            GcColor::Black | GcColor::Gray => {}
            GcColor::White | GcColor::WhiteWeak => {
                if self.heap.needs_trace(gc_ptr) {
                    self.heap.set_color(gc_ptr, GcColor::Gray);
                    let dbg_0 = self.heap.is_live(gc_ptr); assert(dbg_0);
                    self.gray.push(gc_ptr);
                } else {
                    self.heap.set_color(gc_ptr, GcColor::Black);
                }
                if color == GcColor::White {
                    self.metrics.mark_gc_marked(1);
                }
            }
        }
    }

    fn trace_weak(&mut self, gc_ptr: GcPtr)
        requires old(self).ok_target(gc_ptr)
        ensures final(self)@ == trace_weak_spec(old(self)@, gc_ptr)
    {
        if self.heap.color(gc_ptr) == GcColor::White {
            self.heap.set_color(gc_ptr, GcColor::WhiteWeak);
            self.metrics.mark_gc_marked(1);
        }
    }

    // ---- shim (not extracted): what `gc_ptr.trace_value(cx)` does for a value whose Collect impl is correct
    fn trace_value(&mut self, p: GcPtr)
        requires old(self).heap.has(p),
            old(self).metrics.marked_gcs + old(self).heap.edges@[p].len() <= usize::MAX,
            forall|i: int| #![trigger old(self).heap.edges@[p][i]] 0 <= i < old(self).heap.edges@[p].len() ==>
                old(self).heap.has(old(self).heap.edges@[p][i].to) && (!old(self).heap.edges@[p][i].weak ==> old(self).heap.get(old(self).heap.edges@[p][i].to).live),
        ensures final(self)@ == trace_all(old(self)@, old(self).heap.edges@[p])
    {
        let ghost s0 = self@;
        let ghost es = self.heap.edges@[p];
        let n = self.heap.edge_count(p);
        let mut i: usize = 0;
        proof { assert(es.subrange(0, 0) =~= Seq::<Edge>::empty()); }
        while i < n
            invariant
                i <= n, n == es.len(), es == self.heap.edges@[p], self.heap.has(p),
                self@ == trace_all(s0, es.subrange(0, i as int)),
                self.heap.objs@.dom() =~= s0.objs.dom(),
                self.metrics.marked_gcs <= s0.marked + i,
                s0.marked + es.len() <= usize::MAX,
                forall|q: GcPtr| #[trigger] s0.objs.dom().contains(q) ==> self.heap.get(q).live == s0.objs[q].live,
                forall|k: int| #![trigger es[k]] 0 <= k < es.len() ==> s0.objs.dom().contains(es[k].to) && (!es[k].weak ==> s0.objs[es[k].to].live),
            decreases n - i
        {
            let e = self.heap.edge(p, i);
            proof { lemma_trace_all_snoc(s0, es, i as int); }
            if e.0 { self.trace_weak(e.1); } else { self.trace(e.1); }
            i = i + 1;
        }
        proof { assert(es.subrange(0, es.len() as int) =~= es); }
    }
}
}
fn main() {}
