use vstd::prelude::*;
use vstd::std_specs::cmp::*;
use core::cmp::Ordering;
verus! {
#[derive(Debug, Copy, Clone, Eq, PartialEq, Ord, PartialOrd, Structural)]
pub enum Stop { FullyMarked, AtSweep, FinishCycle, Full }

pub open spec fn rank(s: Stop) -> int {
    match s { Stop::FullyMarked => 0, Stop::AtSweep => 1, Stop::FinishCycle => 2, Stop::Full => 3 }
}

impl PartialOrdSpecImpl for Stop {
    open spec fn obeys_partial_cmp_spec() -> bool { true }
    open spec fn partial_cmp_spec(&self, other: &Stop) -> Option<Ordering> {
        if rank(*self) < rank(*other) { Some(Ordering::Less) }
        else if rank(*self) == rank(*other) { Some(Ordering::Equal) }
        else { Some(Ordering::Greater) }
    }
}

fn f(stop: Stop) -> (r: bool)
    ensures r == (stop is FullyMarked || stop is AtSweep)
{
    stop <= Stop::AtSweep
}
}
fn main() {}
