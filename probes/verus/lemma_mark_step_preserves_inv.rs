use vstd::prelude::*;
verus! {

pub mod spec {
use vstd::prelude::*;

#[derive(Copy, Clone, Eq, PartialEq)]
pub enum Color { White, WhiteWeak, Gray, Black }

pub type Ptr = int;
pub struct Obj { pub color: Color, pub live: bool, pub needs_trace: bool }
pub struct Edge { pub weak: bool, pub to: Ptr }

// Mark-phase slice of the abstract state
pub struct S {
    pub objs: Map<Ptr, Obj>,
    pub gray: Seq<Ptr>,
    pub gray_again: Seq<Ptr>,
    pub root_needs_trace: bool,
    pub marked: nat,
    pub traced: nat,
    pub edges: Map<Ptr, Seq<Edge>>,   // ghost: pointers held by each live value, in trace order
    pub root_edges: Seq<Edge>,
}

pub open spec fn is_white(c: Color) -> bool { c == Color::White || c == Color::WhiteWeak }

// functional specs of the two tracing primitives (what the extracted `Context::trace` / `trace_weak` are proved to do)
pub open spec fn trace_spec(s: S, p: Ptr) -> S {
    let o = s.objs[p];
    if is_white(o.color) {
        let m = if o.color == Color::White { s.marked + 1 } else { s.marked };
        if o.needs_trace {
            S { objs: s.objs.insert(p, Obj { color: Color::Gray, ..o }), gray: s.gray.push(p), marked: m, ..s }
        } else {
            S { objs: s.objs.insert(p, Obj { color: Color::Black, ..o }), marked: m, ..s }
        }
    } else { s }
}
pub open spec fn trace_weak_spec(s: S, p: Ptr) -> S {
    let o = s.objs[p];
    if o.color == Color::White {
        S { objs: s.objs.insert(p, Obj { color: Color::WhiteWeak, ..o }), marked: s.marked + 1, ..s }
    } else { s }
}
pub open spec fn trace_edge(s: S, e: Edge) -> S { if e.weak { trace_weak_spec(s, e.to) } else { trace_spec(s, e.to) } }

// effect of tracing a value: fold of trace_edge over its edges (the shim loop is proved to compute this)
pub open spec fn trace_all(s: S, es: Seq<Edge>) -> S
    decreases es.len()
{
    if es.len() == 0 { s } else { trace_all(trace_edge(s, es[0]), es.subrange(1, es.len() as int)) }
}

pub open spec fn queued(s: S, p: Ptr) -> bool { s.gray.contains(p) || s.gray_again.contains(p) }

pub open spec fn edge_ok(s: S, e: Edge) -> bool {
    s.objs.dom().contains(e.to) && if e.weak { s.objs[e.to].color != Color::White } else { !is_white(s.objs[e.to].color) }
}

pub open spec fn inv(s: S) -> bool {
    // I-queue
    &&& (s.gray + s.gray_again).no_duplicates()
    &&& forall|p: Ptr| #[trigger] queued(s, p) <==> (s.objs.dom().contains(p) && s.objs[p].color == Color::Gray)
    // I-live (slice): marked objects are live; live objects' edges stay inside the heap; strong edges lead to live objects
    &&& forall|p: Ptr| #[trigger] s.objs.dom().contains(p) && !is_white(s.objs[p].color) ==> s.objs[p].live
    &&& forall|p: Ptr, i: int| #![trigger s.edges[p][i]] s.objs.dom().contains(p) && s.objs[p].live && 0 <= i < s.edges[p].len()
            ==> s.objs.dom().contains(s.edges[p][i].to) && (!s.edges[p][i].weak ==> s.objs[s.edges[p][i].to].live)
    &&& forall|i: int| #![trigger s.root_edges[i]] 0 <= i < s.root_edges.len()
            ==> s.objs.dom().contains(s.root_edges[i].to) && (!s.root_edges[i].weak ==> s.objs[s.root_edges[i].to].live)
    &&& forall|p: Ptr| #[trigger] s.objs.dom().contains(p) && s.edges[p].len() > 0 ==> s.objs[p].needs_trace
    // I-tri
    &&& forall|p: Ptr, i: int| #![trigger s.edges[p][i]] s.objs.dom().contains(p) && s.objs[p].color == Color::Black && 0 <= i < s.edges[p].len()
            ==> edge_ok(s, s.edges[p][i])
    &&& !s.root_needs_trace ==> forall|i: int| #![trigger s.root_edges[i]] 0 <= i < s.root_edges.len() ==> edge_ok(s, s.root_edges[i])
}

// one marking step on a queued object (the two pop orders are both allowed: relational, not functional)
pub open spec fn mark_obj_rel(pre: S, post: S, p: Ptr) -> bool {
    &&& ((pre.gray.len() > 0 && p == pre.gray.last()) || (pre.gray.len() == 0 && pre.gray_again.len() > 0 && p == pre.gray_again.last()))
    &&& {
        let popped = if pre.gray.len() > 0 { S { gray: pre.gray.drop_last(), ..pre } } else { S { gray_again: pre.gray_again.drop_last(), ..pre } };
        let black = S { objs: popped.objs.insert(p, Obj { color: Color::Black, ..pre.objs[p] }), traced: pre.traced + 1, ..popped };
        post == trace_all(black, pre.edges[p])
    }
}
pub open spec fn mark_root_rel(pre: S, post: S) -> bool {
    &&& pre.gray.len() == 0 && pre.gray_again.len() == 0 && pre.root_needs_trace
    &&& post == S { root_needs_trace: false, ..trace_all(pre, pre.root_edges) }
}
} // mod spec

pub mod lemmas {
use vstd::prelude::*;
use super::spec::*;

// colours only move up, nothing else changes shape
pub open spec fn rank(c: Color) -> int { match c { Color::White => 0, Color::WhiteWeak => 1, Color::Gray => 2, Color::Black => 3 } }
pub open spec fn grows(a: S, b: S) -> bool {
    &&& a.objs.dom() =~= b.objs.dom()
    &&& forall|p: Ptr| #[trigger] a.objs.dom().contains(p) ==> rank(a.objs[p].color) <= rank(b.objs[p].color)
            && a.objs[p].live == b.objs[p].live && a.objs[p].needs_trace == b.objs[p].needs_trace
            && (a.objs[p].color == Color::Black ==> b.objs[p].color == Color::Black)
    &&& a.edges == b.edges && a.root_edges == b.root_edges && a.root_needs_trace == b.root_needs_trace
    &&& a.gray_again == b.gray_again
}

// queue/liveness part of the invariant, which every single trace_edge keeps (the tri-colour part is re-established at the end)
pub open spec fn qinv(s: S) -> bool {
    &&& (s.gray + s.gray_again).no_duplicates()
    &&& forall|p: Ptr| #[trigger] queued(s, p) <==> (s.objs.dom().contains(p) && s.objs[p].color == Color::Gray)
    &&& forall|p: Ptr| #[trigger] s.objs.dom().contains(p) && !is_white(s.objs[p].color) ==> s.objs[p].live
}

pub proof fn lemma_push_no_dup(a: Seq<Ptr>, b: Seq<Ptr>, p: Ptr)
    requires (a + b).no_duplicates(), !a.contains(p), !b.contains(p)
    ensures (a.push(p) + b).no_duplicates()
{
    let n = a.push(p) + b;
    let o = a + b;
    assert forall|i: int, j: int| 0 <= i < n.len() && 0 <= j < n.len() && i != j implies n[i] != n[j] by {
        let oi = if i < a.len() { i } else { i - 1 };
        let oj = if j < a.len() { j } else { j - 1 };
        if i == a.len() {
            if j < a.len() { assert(a[j] == n[j]); assert(a.contains(n[j])); } else { assert(b[j - a.len() - 1] == n[j]); assert(b.contains(n[j])); }
        } else if j == a.len() {
            if i < a.len() { assert(a[i] == n[i]); assert(a.contains(n[i])); } else { assert(b[i - a.len() - 1] == n[i]); assert(b.contains(n[i])); }
        } else {
            assert(o[oi] == n[i] && o[oj] == n[j]);
        }
    }
}

pub proof fn lemma_trace_edge(s: S, e: Edge)
    requires qinv(s), s.objs.dom().contains(e.to), !e.weak ==> s.objs[e.to].live
    ensures qinv(trace_edge(s, e)), grows(s, trace_edge(s, e)), edge_ok(trace_edge(s, e), e)
{
    let t = trace_edge(s, e);
    let p = e.to;
    if !e.weak && is_white(s.objs[p].color) && s.objs[p].needs_trace {
        assert(!queued(s, p));
        lemma_push_no_dup(s.gray, s.gray_again, p);
        assert forall|q: Ptr| #[trigger] queued(t, q) <==> (t.objs.dom().contains(q) && t.objs[q].color == Color::Gray) by {
            if q == p { assert(t.gray.last() == p); assert(t.gray.contains(p)); }
            else {
                if s.gray.contains(q) { let i = choose|i: int| 0 <= i < s.gray.len() && s.gray[i] == q; assert(t.gray[i] == q); }
                if t.gray.contains(q) { let i = choose|i: int| 0 <= i < t.gray.len() && t.gray[i] == q; assert(i < s.gray.len()); assert(s.gray[i] == q); }
                assert(queued(s, q) <==> queued(t, q));
            }
        }
    } else {
        assert(t.gray == s.gray && t.gray_again == s.gray_again);
        assert forall|q: Ptr| #[trigger] queued(t, q) <==> (t.objs.dom().contains(q) && t.objs[q].color == Color::Gray) by {
            assert(queued(s, q) <==> queued(t, q));
        }
    }
}

pub proof fn lemma_edge_ok_grows(a: S, b: S, e: Edge)
    requires grows(a, b), edge_ok(a, e)
    ensures edge_ok(b, e)
{}

pub proof fn lemma_grows_trans(a: S, b: S, c: S)
    requires grows(a, b), grows(b, c)
    ensures grows(a, c)
{
    assert forall|p: Ptr| #[trigger] a.objs.dom().contains(p) implies rank(a.objs[p].color) <= rank(c.objs[p].color)
            && a.objs[p].live == c.objs[p].live && a.objs[p].needs_trace == c.objs[p].needs_trace
            && (a.objs[p].color == Color::Black ==> c.objs[p].color == Color::Black) by {
        assert(b.objs.dom().contains(p));
    }
}

// tracing a whole value keeps qinv, only raises colours, and leaves every traced edge satisfied
pub proof fn lemma_trace_all(s: S, es: Seq<Edge>)
    requires qinv(s),
        forall|i: int| #![trigger es[i]] 0 <= i < es.len() ==> s.objs.dom().contains(es[i].to) && (!es[i].weak ==> s.objs[es[i].to].live)
    ensures qinv(trace_all(s, es)), grows(s, trace_all(s, es)),
        forall|i: int| #![trigger es[i]] 0 <= i < es.len() ==> edge_ok(trace_all(s, es), es[i])
    decreases es.len()
{
    if es.len() == 0 {
    } else {
        let s1 = trace_edge(s, es[0]);
        let rest = es.subrange(1, es.len() as int);
        lemma_trace_edge(s, es[0]);
        assert forall|i: int| #![trigger rest[i]] 0 <= i < rest.len() implies s1.objs.dom().contains(rest[i].to) && (!rest[i].weak ==> s1.objs[rest[i].to].live) by {
            assert(rest[i] == es[i + 1]);
        }
        lemma_trace_all(s1, rest);
        let t = trace_all(s1, rest);
        lemma_grows_trans(s, s1, t);
        assert forall|i: int| #![trigger es[i]] 0 <= i < es.len() implies edge_ok(t, es[i]) by {
            if i == 0 { lemma_edge_ok_grows(s1, t, es[0]); } else { assert(rest[i - 1] == es[i]); }
        }
    }
}

pub proof fn lemma_drop_last(a: Seq<Ptr>, b: Seq<Ptr>)
    requires (a + b).no_duplicates(), a.len() > 0
    ensures (a.drop_last() + b).no_duplicates(), !a.drop_last().contains(a.last()), !b.contains(a.last()),
        forall|q: Ptr| q != a.last() ==> (a.drop_last().contains(q) <==> a.contains(q))
{
    let o = a + b; let n = a.drop_last() + b; let k = a.len() - 1;
    assert forall|i: int, j: int| 0 <= i < n.len() && 0 <= j < n.len() && i != j implies n[i] != n[j] by {
        let oi = if i < k { i } else { i + 1 }; let oj = if j < k { j } else { j + 1 };
        assert(o[oi] == n[i] && o[oj] == n[j]);
    }
    if a.drop_last().contains(a.last()) { let i = choose|i: int| 0 <= i < k && a.drop_last()[i] == a.last(); assert(o[i] == o[k]); }
    if b.contains(a.last()) { let i = choose|i: int| 0 <= i < b.len() && b[i] == a.last(); assert(o[a.len() + i] == o[k]); }
    assert forall|q: Ptr| q != a.last() implies (a.drop_last().contains(q) <==> a.contains(q)) by {
        if a.contains(q) { let i = choose|i: int| 0 <= i < a.len() && a[i] == q; assert(i < k); assert(a.drop_last()[i] == q); }
        if a.drop_last().contains(q) { let i = choose|i: int| 0 <= i < k && a.drop_last()[i] == q; assert(a[i] == q); }
    }
}

// T-inv for the marking step (object case): I-queue + I-live + I-tri preserved, for any heap and any out-degree
pub broadcast proof fn lemma_mark_obj_preserves(pre: S, post: S, p: Ptr)
    requires inv(pre), #[trigger] mark_obj_rel(pre, post, p)
    ensures inv(post), post.objs.dom() == pre.objs.dom(), post.traced == pre.traced + 1
{
    let from_gray = pre.gray.len() > 0;
    let popped = if from_gray { S { gray: pre.gray.drop_last(), ..pre } } else { S { gray_again: pre.gray_again.drop_last(), ..pre } };
    let black = S { objs: popped.objs.insert(p, Obj { color: Color::Black, ..pre.objs[p] }), traced: pre.traced + 1, ..popped };
    // p was queued, hence gray, live
    if from_gray { assert(pre.gray[pre.gray.len() - 1] == p); assert(pre.gray.contains(p)); lemma_drop_last(pre.gray, pre.gray_again); }
    else {
        assert(pre.gray_again[pre.gray_again.len() - 1] == p); assert(pre.gray_again.contains(p));
        assert(pre.gray =~= Seq::<Ptr>::empty());
        assert(pre.gray + pre.gray_again =~= pre.gray_again);
        lemma_drop_last(pre.gray_again, Seq::<Ptr>::empty());
        assert(pre.gray_again.drop_last() + Seq::<Ptr>::empty() =~= pre.gray_again.drop_last());
        assert(popped.gray + popped.gray_again =~= pre.gray_again.drop_last());
    }
    assert(queued(pre, p));
    assert(pre.objs.dom().contains(p) && pre.objs[p].color == Color::Gray && pre.objs[p].live);
    assert(qinv(black)) by {
        assert forall|q: Ptr| #[trigger] queued(black, q) <==> (black.objs.dom().contains(q) && black.objs[q].color == Color::Gray) by {
            if q != p { assert(queued(pre, q) <==> queued(black, q)); }
        }
    }
    let es = pre.edges[p];
    assert forall|i: int| #![trigger es[i]] 0 <= i < es.len() implies black.objs.dom().contains(es[i].to) && (!es[i].weak ==> black.objs[es[i].to].live) by {
        assert(pre.objs.dom().contains(pre.edges[p][i].to));
    }
    lemma_trace_all(black, es);
    assert(post == trace_all(black, es));
    assert(grows(black, post));
    // I-tri for every black object of the post state
    assert forall|q: Ptr, i: int| #![trigger post.edges[q][i]] post.objs.dom().contains(q) && post.objs[q].color == Color::Black && 0 <= i < post.edges[q].len()
            implies edge_ok(post, post.edges[q][i]) by {
        if q == p { assert(edge_ok(post, es[i])); }
        else {
            // q black in post: either black before (constraint carried by monotonicity) or a non-tracing object just blackened (no edges)
            assert(black.objs.dom().contains(q));
            if black.objs[q].color == Color::Black {
                assert(pre.objs[q].color == Color::Black);
                assert(edge_ok(pre, pre.edges[q][i]));
                assert(edge_ok(black, pre.edges[q][i])) by { if pre.edges[q][i].to == p {} }
                lemma_edge_ok_grows(black, post, pre.edges[q][i]);
            } else {
                // became black during the fold: only possible for !needs_trace objects, which have no edges
                assert(post.objs[q].needs_trace == pre.objs[q].needs_trace);
                assert(pre.edges[q].len() > 0 ==> pre.objs[q].needs_trace);
                lemma_blackened_is_non_tracing(black, es, q);
            }
        }
    }
    assert(!post.root_needs_trace ==> forall|i: int| #![trigger post.root_edges[i]] 0 <= i < post.root_edges.len() ==> edge_ok(post, post.root_edges[i])) by {
        if !post.root_needs_trace {
            assert forall|i: int| #![trigger post.root_edges[i]] 0 <= i < post.root_edges.len() implies edge_ok(post, post.root_edges[i]) by {
                assert(edge_ok(pre, pre.root_edges[i]));
                assert(edge_ok(black, pre.root_edges[i]));
                lemma_edge_ok_grows(black, post, pre.root_edges[i]);
            }
        }
    }
    assert forall|q: Ptr, i: int| #![trigger post.edges[q][i]] post.objs.dom().contains(q) && post.objs[q].live && 0 <= i < post.edges[q].len()
            implies post.objs.dom().contains(post.edges[q][i].to) && (!post.edges[q][i].weak ==> post.objs[post.edges[q][i].to].live) by {
        assert(black.objs.dom().contains(q));
        assert(pre.objs.dom().contains(pre.edges[q][i].to));
        assert(black.objs.dom().contains(pre.edges[q][i].to));
    }
    assert forall|i: int| #![trigger post.root_edges[i]] 0 <= i < post.root_edges.len()
            implies post.objs.dom().contains(post.root_edges[i].to) && (!post.root_edges[i].weak ==> post.objs[post.root_edges[i].to].live) by {
        assert(pre.objs.dom().contains(pre.root_edges[i].to));
        assert(black.objs.dom().contains(pre.root_edges[i].to));
    }
    assert forall|q: Ptr| #[trigger] post.objs.dom().contains(q) && post.edges[q].len() > 0 implies post.objs[q].needs_trace by {
        assert(black.objs.dom().contains(q)); assert(pre.objs.dom().contains(q));
    }
    lemma_traced_unchanged(black, es);
}

// an object that turns Black during a fold (without being Black before) is a non-tracing one
pub proof fn lemma_blackened_is_non_tracing(s: S, es: Seq<Edge>, q: Ptr)
    requires s.objs.dom().contains(q), s.objs[q].color != Color::Black, trace_all(s, es).objs[q].color == Color::Black,
        forall|i: int| #![trigger es[i]] 0 <= i < es.len() ==> s.objs.dom().contains(es[i].to)
    ensures !s.objs[q].needs_trace
    decreases es.len()
{
    if es.len() == 0 { } else {
        let s1 = trace_edge(s, es[0]);
        let rest = es.subrange(1, es.len() as int);
        assert forall|i: int| #![trigger rest[i]] 0 <= i < rest.len() implies s1.objs.dom().contains(rest[i].to) by { assert(rest[i] == es[i + 1]); }
        if s1.objs[q].color == Color::Black { } else { lemma_blackened_is_non_tracing(s1, rest, q); }
    }
}

pub proof fn lemma_traced_unchanged(s: S, es: Seq<Edge>)
    ensures trace_all(s, es).traced == s.traced
    decreases es.len()
{
    if es.len() > 0 { lemma_traced_unchanged(trace_edge(s, es[0]), es.subrange(1, es.len() as int)); }
}

} // mod lemmas
} // verus!
fn main() {}
