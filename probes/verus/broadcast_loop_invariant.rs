use vstd::prelude::*;
verus! {

pub mod lemmas {
use vstd::prelude::*;
pub struct St { pub xs: Seq<int>, pub n: nat }

// invariant with an existential witness (like the abstract list of the design)
pub open spec fn inv(s: St) -> bool { exists|w: Seq<int>| #[trigger] w.len() == s.n && s.xs == w + w }

pub open spec fn step_rel(pre: St, post: St) -> bool { post.n == pre.n + 1 && exists|v: int| post.xs == seq![v] + pre.xs.subrange(0, pre.n as int) + seq![v] + pre.xs.subrange(pre.n as int, 2 * pre.n as int) }

pub broadcast proof fn lemma_step_preserves(pre: St, post: St)
    requires inv(pre), #[trigger] step_rel(pre, post)
    ensures inv(post)
{
    let w = choose|w: Seq<int>| #[trigger] w.len() == pre.n && pre.xs == w + w;
    let v = choose|v: int| post.xs == seq![v] + pre.xs.subrange(0, pre.n as int) + seq![v] + pre.xs.subrange(pre.n as int, 2 * pre.n as int);
    let w2 = seq![v] + w;
    assert(pre.xs.subrange(0, pre.n as int) =~= w);
    assert(pre.xs.subrange(pre.n as int, 2 * pre.n as int) =~= w);
    assert(post.xs =~= w2 + w2);
    assert(w2.len() == post.n);
}

} // mod lemmas

pub mod code {
use vstd::prelude::*;
use super::lemmas::*;
broadcast use super::lemmas::lemma_step_preserves;

pub struct Cx { pub g: Ghost<St>, pub k: u8 }
impl Cx {
    pub open spec fn view(&self) -> St { self.g@ }

    #[verifier::external_body]
    fn step(&mut self)
        ensures step_rel(old(self)@, final(self)@), final(self).k == old(self).k
    { unimplemented!() }

    // driver loop: only `invariant` / `decreases` spliced at the loop head, nothing in the body
    fn drive(&mut self)
        requires inv(old(self)@)
        ensures inv(final(self)@)
    {
        let mut i: u8 = 0;
        while i < 10
            invariant inv(self@), i <= 10
            decreases 10 - i
        {
            self.step();
            i = i + 1;
        }
    }
}
} // mod code
}
fn main() {}
