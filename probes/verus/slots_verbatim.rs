use vstd::prelude::*;
verus! {

#[derive(Copy, Clone, PartialEq, Eq, Structural)]
pub struct Gc { pub id: usize }

type Index = usize;
const NULL_INDEX: Index = usize::MAX;

enum Slot {
    Vacant { next_free: Index },
    Occupied { root: Gc, ref_count: usize },
}

struct Slots {
    slots: Vec<Slot>,
    next_free: Index,
}

impl Slots {
    fn new() -> Self {
        Self {
            slots: Vec::new(),
            next_free: NULL_INDEX,
        }
    }

    fn add(&mut self, p: Gc) -> Index
        requires old(self).next_free != NULL_INDEX ==> (old(self).next_free < old(self).slots.len() && old(self).slots[old(self).next_free as int] is Vacant),
    {
        if self.next_free != NULL_INDEX {
            let idx = self.next_free;
            let slot = &mut self.slots[idx];
            match *slot {
                Slot::Vacant { next_free } => {
                    self.next_free = next_free;
                }
                Slot::Occupied { .. } => panic!("free slot linked list corrupted"),
            }
            *slot = Slot::Occupied {
                root: p,
                ref_count: 0,
            };
            idx
        } else {
            let idx = self.slots.len();
            self.slots.push(Slot::Occupied {
                root: p,
                ref_count: 0,
            });
            idx
        }
    }

    fn dec(&mut self, idx: Index)
        requires idx < old(self).slots.len(), old(self).slots[idx as int] is Occupied,
    {
        let slot = &mut self.slots[idx];
        match slot {
            Slot::Occupied { ref_count, .. } => {
                if *ref_count == 0 {
                    *slot = Slot::Vacant {
                        next_free: self.next_free,
                    };
                    self.next_free = idx;
                } else {
                    *ref_count -= 1;
                }
            }
            Slot::Vacant { .. } => panic!("taken slot has been improperly freed"),
        }
    }
}
}
fn main() {}
