use vstd::prelude::*;
use vstd::arithmetic::mul::*;
verus! {

// T-pace over integers: every finite f64 factor is k / 2^e, so take a common denominator D > 0 and integer numerators.
pub struct C { pub marked: int, pub traced: int, pub remembered: int, pub dropped: int, pub freed: int }
pub struct P { pub mark: int, pub trace: int, pub keep: int, pub drop_: int, pub free: int }   // numerators over D

pub open spec fn credits(c: C, p: P) -> int {
    c.marked * p.mark + c.traced * p.trace + c.remembered * p.keep + c.dropped * p.drop_ + c.freed * p.free
}

pub open spec fn count_inv(c: C, n: int, k_rem: int, k_weak: int, k_free: int) -> bool {
    &&& 0 <= k_rem && 0 <= k_weak && 0 <= k_free && k_rem + k_weak + k_free <= n
    &&& 0 <= c.marked <= k_rem + k_weak
    &&& 0 <= c.traced <= k_rem
    &&& 0 <= c.remembered <= k_rem + k_weak
    &&& 0 <= c.dropped <= k_weak + k_free
    &&& 0 <= c.freed <= k_free
}

pub proof fn lemma_credits_bound(c: C, p: P, rho: int, n: int, k_rem: int, k_weak: int, k_free: int)
    requires
        count_inv(c, n, k_rem, k_weak, k_free),
        p.mark >= 0, p.trace >= 0, p.keep >= 0, p.drop_ >= 0, p.free >= 0,
        p.mark + p.trace + p.keep <= rho, p.drop_ + p.free <= rho, p.mark + p.drop_ + p.keep <= rho,
    ensures credits(c, p) <= rho * n
{
    lemma_mul_inequality(c.marked, k_rem + k_weak, p.mark);
    lemma_mul_inequality(c.traced, k_rem, p.trace);
    lemma_mul_inequality(c.remembered, k_rem + k_weak, p.keep);
    lemma_mul_inequality(c.dropped, k_weak + k_free, p.drop_);
    lemma_mul_inequality(c.freed, k_free, p.free);
    // regroup by object class
    lemma_mul_is_distributive_add_other_way(p.mark, k_rem, k_weak);
    lemma_mul_is_distributive_add_other_way(p.keep, k_rem, k_weak);
    lemma_mul_is_distributive_add_other_way(p.drop_, k_weak, k_free);
    let a = k_rem; let w = k_weak; let f = k_free;
    lemma_mul_is_distributive_add(a, p.mark, p.trace);
    lemma_mul_is_distributive_add(a, p.mark + p.trace, p.keep);
    lemma_mul_is_distributive_add(w, p.mark, p.drop_);
    lemma_mul_is_distributive_add(w, p.mark + p.drop_, p.keep);
    lemma_mul_is_distributive_add(f, p.drop_, p.free);
    assert((a + w) * p.mark + a * p.trace + (a + w) * p.keep + (w + f) * p.drop_ + f * p.free
        == a * (p.mark + p.trace + p.keep) + w * (p.mark + p.drop_ + p.keep) + f * (p.drop_ + p.free));
    lemma_mul_inequality(p.mark + p.trace + p.keep, rho, a);
    lemma_mul_inequality(p.mark + p.drop_ + p.keep, rho, w);
    lemma_mul_inequality(p.drop_ + p.free, rho, f);
    lemma_mul_is_commutative(a, p.mark + p.trace + p.keep); lemma_mul_is_commutative(a, rho);
    lemma_mul_is_commutative(w, p.mark + p.drop_ + p.keep); lemma_mul_is_commutative(w, rho);
    lemma_mul_is_commutative(f, p.drop_ + p.free); lemma_mul_is_commutative(f, rho);
    lemma_mul_is_distributive_add(rho, a, w);
    lemma_mul_is_distributive_add(rho, a + w, f);
    assert(0 <= rho);
    lemma_mul_inequality(a + w + f, n, rho);
    lemma_mul_is_commutative(a + w + f, rho); lemma_mul_is_commutative(n, rho);
}

// completion bound, all quantities scaled by D: a*D <= credits <= rho*(h+a)  ==>  a*(D - rho) <= rho*h
pub proof fn lemma_completion_bound(a: int, h: int, cr: int, rho: int, d: int)
    requires a >= 0, h >= 0, 0 <= rho < d, a * d <= cr, cr <= rho * (h + a)
    ensures a * (d - rho) <= rho * h
{
    lemma_mul_is_distributive_add(rho, h, a);
    lemma_mul_is_distributive_sub(a, d, rho);
    lemma_mul_is_commutative(rho, a);
}
}
fn main() {}
