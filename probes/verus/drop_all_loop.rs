use vstd::prelude::*;
verus! {

pub mod spec {
use vstd::prelude::*;
pub type Ptr = int;
pub struct Obj { pub live: bool, pub next: Option<Ptr> }
pub open spec fn at(l: Seq<Ptr>, i: int) -> Option<Ptr> { if 0 <= i < l.len() { Some(l[i]) } else { None } }

// the part of Inv the drop loop needs, with the list as an explicit parameter (witness chosen once, in the ghost prologue)
pub open spec fn wf_from(objs: Map<Ptr, Obj>, dropped: Set<Ptr>, l: Seq<Ptr>, k: int) -> bool {
    &&& l.no_duplicates()
    &&& 0 <= k <= l.len()
    &&& forall|p: Ptr| #[trigger] objs.dom().contains(p) <==> (l.contains(p) && l.index_of(p) >= k)
    &&& forall|i: int| k <= i < l.len() ==> #[trigger] objs[l[i]].next == at(l, i + 1)
    &&& forall|i: int| k <= i < l.len() ==> (#[trigger] objs[l[i]].live <==> !dropped.contains(l[i]))
}
pub open spec fn pos(l: Seq<Ptr>, c: Option<Ptr>) -> int { match c { Some(p) => l.index_of(p), None => l.len() as int } }
}

pub mod lemmas {
use vstd::prelude::*;
use super::spec::*;
pub proof fn lemma_index_of(l: Seq<Ptr>, i: int)
    requires l.no_duplicates(), 0 <= i < l.len()
    ensures l.index_of(l[i]) == i, l.contains(l[i])
{ assert(l.contains(l[i])); }

// one iteration of the drop loop: releasing l[k] (after destructing it if live) moves the well-formed suffix from k to k+1
pub proof fn lemma_drop_step(objs: Map<Ptr, Obj>, dropped: Set<Ptr>, l: Seq<Ptr>, k: int, objs2: Map<Ptr, Obj>, dropped2: Set<Ptr>)
    requires
        wf_from(objs, dropped, l, k), k < l.len(),
        objs2 == objs.remove(l[k]),
        dropped2 == (if objs[l[k]].live { dropped.insert(l[k]) } else { dropped }),
    ensures
        wf_from(objs2, dropped2, l, k + 1),
        pos(l, objs[l[k]].next) == k + 1,
{
    lemma_index_of(l, k);
    assert forall|i: int| 0 <= i < l.len() implies l.index_of(#[trigger] l[i]) == i by { lemma_index_of(l, i); }
    assert forall|p: Ptr| #[trigger] objs2.dom().contains(p) <==> (l.contains(p) && l.index_of(p) >= k + 1) by {
        if l.contains(p) { let i = l.index_of(p); assert(l[i] == p); }
    }
    assert forall|i: int| k + 1 <= i < l.len() implies #[trigger] objs2[l[i]].next == at(l, i + 1) by { assert(l[i] != l[k]); }
    assert forall|i: int| k + 1 <= i < l.len() implies (#[trigger] objs2[l[i]].live <==> !dropped2.contains(l[i])) by { assert(l[i] != l[k]); }
    assert(objs[l[k]].next == at(l, k + 1));
    if k + 1 < l.len() { lemma_index_of(l, k + 1); }
}

// broadcast forms: implications triggered on pairs of terms that occur in the loop's verification condition
pub broadcast proof fn lemma_drop_step_pos(objs: Map<Ptr, Obj>, dropped: Set<Ptr>, l: Seq<Ptr>, k: int, c: Option<Ptr>)
    ensures #![trigger wf_from(objs, dropped, l, k), pos(l, c)]
        (wf_from(objs, dropped, l, k) && k < l.len() && c == objs[l[k]].next) ==> pos(l, c) == k + 1
{
    if wf_from(objs, dropped, l, k) && k < l.len() && c == objs[l[k]].next {
        lemma_drop_step(objs, dropped, l, k, objs.remove(l[k]), if objs[l[k]].live { dropped.insert(l[k]) } else { dropped });
    }
}
pub broadcast proof fn lemma_drop_step_wf(objs: Map<Ptr, Obj>, dropped: Set<Ptr>, l: Seq<Ptr>, k: int, objs2: Map<Ptr, Obj>, dropped2: Set<Ptr>, k2: int)
    ensures #![trigger wf_from(objs, dropped, l, k), wf_from(objs2, dropped2, l, k2)]
        (wf_from(objs, dropped, l, k) && k < l.len() && k2 == k + 1 && objs2 =~= objs.remove(l[k])
            && dropped2 =~= (if objs[l[k]].live { dropped.insert(l[k]) } else { dropped })) ==> wf_from(objs2, dropped2, l, k2)
{
    if wf_from(objs, dropped, l, k) && k < l.len() && k2 == k + 1 && objs2 =~= objs.remove(l[k])
        && dropped2 =~= (if objs[l[k]].live { dropped.insert(l[k]) } else { dropped }) {
        lemma_drop_step(objs, dropped, l, k, objs2, dropped2);
    }
}
pub broadcast proof fn lemma_at_pos(l: Seq<Ptr>, c: Option<Ptr>, k: int)
    ensures #![trigger at(l, k), pos(l, c)]
        (l.no_duplicates() && c == at(l, k) && 0 <= k <= l.len()) ==> pos(l, c) == k
{
    if l.no_duplicates() && c == at(l, k) && 0 <= k < l.len() { lemma_index_of(l, k); }
}
}

use spec::*;
broadcast use {lemmas::lemma_drop_step_pos, lemmas::lemma_drop_step_wf, lemmas::lemma_at_pos};

#[derive(Copy, Clone, Eq, PartialEq, Structural)]
pub struct GcPtr { pub id: usize }

pub struct Heap { pub objs: Ghost<Map<Ptr, Obj>>, pub dropped: Ghost<Set<Ptr>>, pub freed: Ghost<Set<Ptr>> }
impl Heap {
    pub open spec fn has(&self, p: GcPtr) -> bool { self.objs@.dom().contains(p.id as int) }
    pub open spec fn get(&self, p: GcPtr) -> Obj { self.objs@[p.id as int] }
    #[verifier::external_body]
    pub fn is_live(&self, p: GcPtr) -> (c: bool) requires self.has(p) ensures c == self.get(p).live { unimplemented!() }
    #[verifier::external_body]
    pub fn next(&self, p: GcPtr) -> (c: Option<GcPtr>) requires self.has(p)
        ensures (c matches Some(q) ==> self.get(p).next == Some(q.id as int)), (c is None ==> self.get(p).next is None) { unimplemented!() }
    #[verifier::external_body]
    pub fn drop_in_place(&mut self, p: GcPtr) requires old(self).has(p), !old(self).dropped@.contains(p.id as int)
        ensures final(self).objs == old(self).objs, final(self).dropped@ == old(self).dropped@.insert(p.id as int), final(self).freed == old(self).freed { unimplemented!() }
    #[verifier::external_body]
    pub fn dealloc(&mut self, p: GcPtr) requires old(self).has(p)
        ensures final(self).objs@ == old(self).objs@.remove(p.id as int), final(self).dropped == old(self).dropped, final(self).freed@ == old(self).freed@.insert(p.id as int) { unimplemented!() }
}

pub struct Metrics { pub total_gcs: usize, pub dropped_gcs: usize, pub freed_gcs: usize }
impl Metrics {
    pub fn mark_gc_dropped(&mut self, count: usize) requires old(self).dropped_gcs + count <= usize::MAX
        ensures final(self).dropped_gcs == old(self).dropped_gcs + count, final(self).total_gcs == old(self).total_gcs, final(self).freed_gcs == old(self).freed_gcs
    { self.dropped_gcs = self.dropped_gcs + count; }
    pub fn mark_gc_freed(&mut self, count: usize) requires old(self).freed_gcs + count <= usize::MAX, old(self).total_gcs >= count
        ensures final(self).freed_gcs == old(self).freed_gcs + count, final(self).total_gcs == old(self).total_gcs - count, final(self).dropped_gcs == old(self).dropped_gcs
    { self.total_gcs = self.total_gcs - count; self.freed_gcs = self.freed_gcs + count; }
}

pub struct Context { pub metrics: Metrics, pub all: Option<GcPtr>, pub heap: Heap }

pub open spec fn lift(c: Option<GcPtr>) -> Option<Ptr> { match c { Some(p) => Some(p.id as int), None => None } }

impl Context {
    // ---- extracted from `impl Drop for Context` / `DropAll::drop` by rule X-dropall:
    //      `drop_resume.1` is the local `cursor`, `self.0` is `self.metrics`, the guard struct itself is dropped
    fn drop_all(&mut self, Ghost(l): Ghost<Seq<Ptr>>)
        requires
            wf_from(old(self).heap.objs@, old(self).heap.dropped@, l, 0),
            lift(old(self).all) == at(l, 0),
            old(self).metrics.total_gcs == l.len(), old(self).metrics.dropped_gcs + l.len() <= usize::MAX, old(self).metrics.freed_gcs + l.len() <= usize::MAX,
        ensures
            final(self).heap.objs@.dom() =~= Set::<Ptr>::empty(),                       // every block released
            final(self).metrics.total_gcs == 0,                                         // Gc count reads zero
            forall|i: int| 0 <= i < l.len() ==> final(self).heap.freed@.contains(#[trigger] l[i]) && final(self).heap.dropped@.contains(l[i]),
    {
        let mut cursor = self.all;
        while let Some(gc_ptr) = cursor.take()
            invariant
                wf_from(self.heap.objs@, self.heap.dropped@, l, pos(l, lift(cursor))),
                0 <= pos(l, lift(cursor)) <= l.len(),
                lift(cursor) == at(l, pos(l, lift(cursor))),
                self.metrics.total_gcs == l.len() - pos(l, lift(cursor)),
                self.metrics.dropped_gcs + (l.len() - pos(l, lift(cursor))) <= usize::MAX,
                self.metrics.freed_gcs + (l.len() - pos(l, lift(cursor))) <= usize::MAX,
                forall|i: int| 0 <= i < pos(l, lift(cursor)) ==> self.heap.freed@.contains(#[trigger] l[i]) && self.heap.dropped@.contains(l[i]),
            ensures cursor is None
            decreases l.len() - pos(l, lift(cursor))
        {
            cursor = self.heap.next(gc_ptr);
            {
                if self.heap.is_live(gc_ptr) {
                    self.heap.drop_in_place(gc_ptr);
                    self.metrics.mark_gc_dropped(1);
                }
                self.heap.dealloc(gc_ptr);
                self.metrics.mark_gc_freed(1);
            }
        }
    }
}
}
fn main() {}
