use vstd::prelude::*;
use core::ops::ControlFlow;
verus! {

pub assume_specification<T, F: FnOnce(T) -> bool> [Option::<T>::is_some_and] (o: Option<T>, f: F) -> (r: bool)
    requires o matches Some(v) ==> call_requires(f, (v,)),
    ensures o is None ==> !r, o matches Some(v) ==> call_ensures(f, (v,), r);

#[derive(Copy, Clone, Eq, PartialEq, Debug, Structural)]
pub enum GcColor { White, WhiteWeak, Gray, Black }
#[derive(Debug, Copy, Clone, Eq, PartialEq, Structural)]
pub enum Phase { Mark, Sweep, Sleep, Drop }

#[derive(Copy, Clone, Eq, PartialEq, Debug, Structural)]
pub struct GcPtr { pub id: usize }

impl GcPtr {
    pub fn addr_eq(self, other: GcPtr) -> (r: bool) ensures r == (self == other) { self.id == other.id }
    pub fn erase(self) -> (r: GcPtr) ensures r == self { self }
}

pub struct Obj {
    pub color: GcColor,
    pub live: bool,
    pub needs_trace: bool,
    pub next: Option<GcPtr>,
}

// ---- shim: abstract heap standing for gc_ptr.rs header accessors / vtable ops (trusted; validated by Kani in place)
pub struct Heap {
    pub objs: Ghost<Map<GcPtr, Obj>>,      // allocated (not yet deallocated) blocks
    pub dropped: Ghost<Set<GcPtr>>,        // values whose destructor has run (ever)
    pub freed: Ghost<Set<GcPtr>>,          // blocks released (ever)
}
impl Heap {
    pub open spec fn has(&self, p: GcPtr) -> bool { self.objs@.dom().contains(p) }
    pub open spec fn get(&self, p: GcPtr) -> Obj { self.objs@[p] }

    #[verifier::external_body]
    pub fn color(&self, p: GcPtr) -> (c: GcColor) requires self.has(p) ensures c == self.get(p).color { unimplemented!() }
    #[verifier::external_body]
    pub fn is_live(&self, p: GcPtr) -> (c: bool) requires self.has(p) ensures c == self.get(p).live { unimplemented!() }
    #[verifier::external_body]
    pub fn next(&self, p: GcPtr) -> (c: Option<GcPtr>) requires self.has(p) ensures c == self.get(p).next { unimplemented!() }
    #[verifier::external_body]
    pub fn set_color(&mut self, p: GcPtr, c: GcColor) requires old(self).has(p)
        ensures final(self).objs@ == old(self).objs@.insert(p, Obj { color: c, ..old(self).get(p) }),
                final(self).dropped == old(self).dropped, final(self).freed == old(self).freed { unimplemented!() }
    #[verifier::external_body]
    pub fn set_live(&mut self, p: GcPtr, c: bool) requires old(self).has(p)
        ensures final(self).objs@ == old(self).objs@.insert(p, Obj { live: c, ..old(self).get(p) }),
                final(self).dropped == old(self).dropped, final(self).freed == old(self).freed { unimplemented!() }
    #[verifier::external_body]
    pub fn set_next(&mut self, p: GcPtr, c: Option<GcPtr>) requires old(self).has(p)
        ensures final(self).objs@ == old(self).objs@.insert(p, Obj { next: c, ..old(self).get(p) }),
                final(self).dropped == old(self).dropped, final(self).freed == old(self).freed { unimplemented!() }
    #[verifier::external_body]
    pub fn drop_in_place(&mut self, p: GcPtr) requires old(self).has(p), !old(self).dropped@.contains(p)
        ensures final(self).objs == old(self).objs, final(self).dropped@ == old(self).dropped@.insert(p), final(self).freed == old(self).freed { unimplemented!() }
    #[verifier::external_body]
    pub fn dealloc(&mut self, p: GcPtr) requires old(self).has(p)
        ensures final(self).objs@ == old(self).objs@.remove(p), final(self).dropped == old(self).dropped, final(self).freed@ == old(self).freed@.insert(p) { unimplemented!() }
}

pub struct Metrics { pub total_gcs: usize, pub allocated_gcs: usize, pub dropped_gcs: usize, pub freed_gcs: usize, pub remembered_gcs: usize }
impl Metrics {
    pub fn mark_gc_dropped(&mut self, count: usize)
        requires old(self).dropped_gcs + count <= usize::MAX
        ensures *final(self) == (Metrics { dropped_gcs: (old(self).dropped_gcs + count) as usize, ..*old(self) })
    { self.dropped_gcs = self.dropped_gcs + count; }
    pub fn mark_gc_freed(&mut self, count: usize)
        requires old(self).freed_gcs + count <= usize::MAX, old(self).total_gcs >= count
        ensures *final(self) == (Metrics { freed_gcs: (old(self).freed_gcs + count) as usize, total_gcs: (old(self).total_gcs - count) as usize, ..*old(self) })
    { self.total_gcs = self.total_gcs - count; self.freed_gcs = self.freed_gcs + count; }
    pub fn mark_gc_remembered(&mut self, count: usize)
        requires old(self).remembered_gcs + count <= usize::MAX
        ensures *final(self) == (Metrics { remembered_gcs: (old(self).remembered_gcs + count) as usize, ..*old(self) })
    { self.remembered_gcs = self.remembered_gcs + count; }
}

pub struct Context {
    pub metrics: Metrics,
    pub phase: Phase,
    pub all: Option<GcPtr>,
    pub sweep: Option<GcPtr>,
    pub sweep_prev: Option<GcPtr>,
    pub root_needs_trace: bool,
    pub heap: Heap,
}

// relational contract of one sweep step, phrased over the abstract state only
pub open spec fn sweep_one_rel(pre: &Context, post: &Context, r: ControlFlow<()>) -> bool {
    match pre.sweep {
        None => r is Break && post.sweep_prev is None && post.heap.objs =~= pre.heap.objs
                && post.heap.dropped =~= pre.heap.dropped && post.heap.freed =~= pre.heap.freed
                && post.all == pre.all && post.sweep == pre.sweep && post.metrics == pre.metrics,
        Some(o) => {
            let ob = pre.heap.get(o);
            &&& r is Continue
            &&& post.sweep == ob.next
            &&& match ob.color {
                GcColor::White => {
                    &&& post.heap.freed@ =~= pre.heap.freed@.insert(o)
                    &&& post.heap.dropped@ =~= (if ob.live { pre.heap.dropped@.insert(o) } else { pre.heap.dropped@ })
                    &&& post.sweep_prev == pre.sweep_prev
                    &&& match pre.sweep_prev {
                        Some(pv) => post.all == pre.all && post.heap.objs@ =~= pre.heap.objs@.insert(pv, Obj { next: ob.next, ..pre.heap.get(pv) }).remove(o),
                        None => post.all == ob.next && post.heap.objs@ =~= pre.heap.objs@.remove(o),
                    }
                }
                GcColor::WhiteWeak => {
                    &&& post.heap.freed =~= pre.heap.freed
                    &&& post.heap.dropped@ =~= (if ob.live { pre.heap.dropped@.insert(o) } else { pre.heap.dropped@ })
                    &&& post.sweep_prev == Some(o) && post.all == pre.all
                    &&& post.heap.objs@ =~= pre.heap.objs@.insert(o, Obj { color: GcColor::White, live: false, ..ob })
                }
                GcColor::Black => {
                    &&& post.heap.freed =~= pre.heap.freed && post.heap.dropped =~= pre.heap.dropped
                    &&& post.sweep_prev == Some(o) && post.all == pre.all
                    &&& post.heap.objs@ =~= pre.heap.objs@.insert(o, Obj { color: GcColor::White, ..ob })
                }
                GcColor::Gray => false,
            }
        }
    }
}

impl Context {
    // ---- body below is what the extractor would emit from src/context.rs sweep_one (rules R2,R3,R6,R7)
    fn sweep_one(&mut self) -> (r: ControlFlow<()>)
        requires
            old(self).sweep matches Some(o) ==> {
                &&& old(self).heap.has(o)
                &&& old(self).heap.get(o).color != GcColor::Gray
                &&& (old(self).heap.get(o).live ==> !old(self).heap.dropped@.contains(o))
                &&& (old(self).sweep_prev matches Some(pv) ==> old(self).heap.has(pv) && pv != o)
                &&& (old(self).sweep_prev is None ==> old(self).all == Some(o))
                &&& old(self).metrics.total_gcs >= 1
                &&& old(self).metrics.dropped_gcs < usize::MAX && old(self).metrics.freed_gcs < usize::MAX && old(self).metrics.remembered_gcs < usize::MAX
            },
        ensures sweep_one_rel(old(self), final(self), r),
    {
        let Some(mut sweep) = self.sweep else {
            self.sweep_prev = None;
            return ControlFlow::Break(());
        };

        let next_ptr = self.heap.next(sweep);
        self.sweep = next_ptr;

        match self.heap.color(sweep) {
            GcColor::White => {
                if let Some(sweep_prev) = self.sweep_prev {
                    self.heap.set_next(sweep_prev, next_ptr);
                } else {
                    // debug_assert dropped: closure argument outside supported subset
                    self.all = next_ptr;
                }
                {
                    if self.heap.is_live(sweep) {
                        self.heap.drop_in_place(sweep);
                        self.metrics.mark_gc_dropped(1);
                    }
                    self.heap.dealloc(sweep);
                    self.metrics.mark_gc_freed(1);
                }
            }
            GcColor::WhiteWeak => {
                self.sweep_prev = Some(sweep);
                self.heap.set_color(sweep, GcColor::White);
                if self.heap.is_live(sweep) {
                    self.heap.set_live(sweep, false);
                    { self.heap.drop_in_place(sweep) }
                    self.metrics.mark_gc_dropped(1);
                }
                self.metrics.mark_gc_remembered(1);
            }
            GcColor::Black => {
                self.sweep_prev = Some(sweep);
                self.heap.set_color(sweep, GcColor::White);
                self.metrics.mark_gc_remembered(1);
            }
            GcColor::Gray => {
                assert(false);
            }
        }

        ControlFlow::Continue(())
    }
}

} // verus!
fn main() {}
