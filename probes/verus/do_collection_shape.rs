use vstd::prelude::*;
use core::ops::ControlFlow;
verus! {

#[derive(Debug, Copy, Clone, Eq, PartialEq)]
pub enum Phase { Mark, Sweep, Sleep, Drop }

#[derive(Debug, Copy, Clone, Eq, PartialEq)]
pub enum RunUntil { PayDebt, Stop }

#[derive(Debug, Copy, Clone, Eq, PartialEq, Ord, PartialOrd)]
pub enum Stop { FullyMarked, AtSweep, FinishCycle, Full }

pub assume_specification<B, C> [core::ops::ControlFlow::<B, C>::is_break] (c: &ControlFlow<B, C>) -> (r: bool)
    ensures r == (c is Break);

pub struct Metrics { pub x: u64 }
impl Metrics {
    #[verifier::external_body]
    pub fn allocation_debt(&self) -> (r: f64) { unimplemented!() }
    #[verifier::external_body]
    pub fn finish_cycle(&mut self, reset: bool) { unimplemented!() }
}

pub struct Context {
    pub metrics: Metrics,
    pub phase: Phase,
    pub root_needs_trace: bool,
    pub sweep: Option<usize>,
    pub all: Option<usize>,
}

impl Context {
    #[verifier::external_body]
    fn mark_one(&mut self) -> (r: ControlFlow<()>)
        ensures final(self).phase == old(self).phase,
    { unimplemented!() }

    #[verifier::external_body]
    fn sweep_one(&mut self) -> (r: ControlFlow<()>)
        ensures final(self).phase == old(self).phase,
    { unimplemented!() }

    #[verifier::exec_allows_no_decreases_clause]
    fn do_collection(&mut self, run_until: RunUntil, stop: Stop)
        requires old(self).phase != Phase::Drop,
        ensures final(self).phase != Phase::Drop,
            (run_until == RunUntil::Stop && stop == Stop::FinishCycle) ==> final(self).phase == Phase::Sleep,
    {
        if run_until == RunUntil::PayDebt && !(self.metrics.allocation_debt() > 0.0) {
            return;
        }

        let mut has_slept = false;

        loop
            invariant self.phase != Phase::Drop,
        {
            match self.phase {
                Phase::Sleep => {
                    has_slept = true;
                    self.phase = Phase::Mark;
                }
                Phase::Mark => {
                    if self.mark_one().is_break() {
                        if stop <= Stop::FullyMarked {
                            break;
                        } else {
                            self.phase = Phase::Sweep;
                            self.sweep = self.all;
                        }
                    }
                }
                Phase::Sweep => {
                    if stop <= Stop::AtSweep {
                        break;
                    } else if self.sweep_one().is_break() {
                        self.metrics.finish_cycle(has_slept);
                        self.root_needs_trace = true;
                        self.phase = Phase::Sleep;
                        if stop == Stop::FinishCycle {
                            return;
                        }
                        if has_slept {
                            assert(stop == Stop::Full);
                            break;
                        }
                    }
                }
                Phase::Drop => { assert(false); }
            }

            if run_until == RunUntil::PayDebt && !(self.metrics.allocation_debt() > 0.0) {
                break;
            }
        }
    }
}

} // verus!
fn main() {}
