use vstd::prelude::*;
verus! {

pub type Ptr = int;
#[derive(PartialEq, Eq)]
pub enum Color { White, WhiteWeak, Gray, Black }

pub struct S {
    pub objs: Map<Ptr, Color>,
    pub sedges: Map<Ptr, Set<Ptr>>,
    pub roots: Set<Ptr>,
}

// strong reachability by explicit paths
pub open spec fn is_path(s: S, path: Seq<Ptr>) -> bool {
    &&& path.len() > 0
    &&& s.roots.contains(path[0])
    &&& forall|i: int| 0 <= i < path.len() - 1 ==> #[trigger] s.sedges[path[i]].contains(path[i + 1])
}
pub open spec fn sreach(s: S, p: Ptr) -> bool { exists|path: Seq<Ptr>| #[trigger] is_path(s, path) && path.last() == p }

// what holds when marking is complete: no gray, roots traced, tri-colour invariant
pub open spec fn marked_complete(s: S) -> bool {
    &&& forall|p: Ptr| #[trigger] s.objs.dom().contains(p) ==> s.objs[p] != Color::Gray
    &&& forall|r: Ptr| #[trigger] s.roots.contains(r) ==> s.objs.dom().contains(r) && (s.objs[r] == Color::Black || s.objs[r] == Color::Gray)
    &&& forall|p: Ptr, c: Ptr| #[trigger] s.objs.dom().contains(p) && s.objs[p] == Color::Black && #[trigger] s.sedges[p].contains(c)
            ==> s.objs.dom().contains(c) && (s.objs[c] == Color::Black || s.objs[c] == Color::Gray)
}

// T-mark, completeness half: everything strongly reachable from the root is Black
proof fn lemma_path_black(s: S, path: Seq<Ptr>, k: int)
    requires marked_complete(s), is_path(s, path), 0 <= k < path.len()
    ensures s.objs.dom().contains(path[k]) && s.objs[path[k]] == Color::Black
    decreases k
{
    if k == 0 {
        assert(s.roots.contains(path[0]));
    } else {
        lemma_path_black(s, path, k - 1);
        assert(s.sedges[path[k - 1]].contains(path[(k - 1) + 1]));
    }
}

pub proof fn theorem_reachable_is_black(s: S, p: Ptr)
    requires marked_complete(s), sreach(s, p)
    ensures s.objs.dom().contains(p) && s.objs[p] == Color::Black
{
    let path = choose|path: Seq<Ptr>| #[trigger] is_path(s, path) && path.last() == p;
    lemma_path_black(s, path, path.len() - 1);
}

// I-reach, exactness half: marking only ever colours reachable objects (no mutation in between)
pub open spec fn marked_are_reachable(s: S) -> bool {
    forall|p: Ptr| #[trigger] s.objs.dom().contains(p) && (s.objs[p] == Color::Black || s.objs[p] == Color::Gray) ==> sreach(s, p)
}
// tracing a strong edge q -> c of a reachable q keeps the invariant
pub proof fn lemma_trace_keeps_reach(s: S, q: Ptr, c: Ptr)
    requires marked_are_reachable(s), sreach(s, q), s.sedges[q].contains(c), s.objs.dom().contains(c)
    ensures marked_are_reachable(S { objs: s.objs.insert(c, Color::Gray), ..s })
{
    let t = S { objs: s.objs.insert(c, Color::Gray), ..s };
    let path = choose|path: Seq<Ptr>| #[trigger] is_path(s, path) && path.last() == q;
    let path2 = path.push(c);
    assert(is_path(t, path2)) by {
        assert forall|i: int| 0 <= i < path2.len() - 1 implies #[trigger] t.sedges[path2[i]].contains(path2[i + 1]) by {
            if i < path.len() - 1 { assert(path2[i] == path[i] && path2[i + 1] == path[i + 1]); }
            else { assert(path2[i] == q && path2[i + 1] == c); }
        }
        assert(path2[0] == path[0]);
    }
    assert(path2.last() == c);
    assert(sreach(t, c));
    assert forall|p: Ptr| #[trigger] t.objs.dom().contains(p) && (t.objs[p] == Color::Black || t.objs[p] == Color::Gray) implies sreach(t, p) by {
        if p != c {
            assert(s.objs.dom().contains(p));
            assert(sreach(s, p));
            let pp = choose|pp: Seq<Ptr>| #[trigger] is_path(s, pp) && pp.last() == p;
            assert(is_path(t, pp));
        }
    }
}
}
fn main() {}
