use vstd::prelude::*;
use vstd::std_specs::cmp::*;
use core::cmp::Ordering;
use core::ops::ControlFlow;
verus! {

pub assume_specification<B, C> [core::ops::ControlFlow::<B, C>::is_break] (c: &ControlFlow<B, C>) -> (r: bool) ensures r == (c is Break);

#[derive(Debug, Copy, Clone, Eq, PartialEq, Structural)]
pub enum Phase { Mark, Sweep, Sleep, Drop }
#[derive(Debug, Copy, Clone, Eq, PartialEq, Structural)]
pub enum RunUntil { PayDebt, Stop }
#[derive(Debug, Copy, Clone, Eq, PartialEq, Ord, PartialOrd, Structural)]
pub enum Stop { FullyMarked, AtSweep, FinishCycle, Full }
// generated from the declaration order of `Stop` (assumption A-order)
pub open spec fn stop_rank(s: Stop) -> int { match s { Stop::FullyMarked => 0, Stop::AtSweep => 1, Stop::FinishCycle => 2, Stop::Full => 3 } }
impl PartialOrdSpecImpl for Stop {
    open spec fn obeys_partial_cmp_spec() -> bool { true }
    open spec fn partial_cmp_spec(&self, other: &Stop) -> Option<Ordering> {
        if stop_rank(*self) < stop_rank(*other) { Some(Ordering::Less) } else if stop_rank(*self) == stop_rank(*other) { Some(Ordering::Equal) } else { Some(Ordering::Greater) }
    }
}

#[derive(Copy, Clone, Eq, PartialEq, Structural)]
pub struct GcPtr { pub id: usize }

// abstract summary of everything the driver cannot see: pending gray work, garbage left, counters
pub struct Abs { pub gray_pending: bool, pub total: nat, pub debits_pos: bool, pub zero_factors: bool, pub credits_cover: bool }

pub struct Metrics { pub a: Ghost<Abs> }
impl Metrics {
    // uninterpreted except for the two facts Kani proves bit-precisely about the formula (K.debt.*):
    // debt is 0 for an empty arena; with all work factors zero, work never pays debt
    pub open spec fn debt_pos(&self) -> bool { self.a@.total > 0 && self.a@.debits_pos && (self.a@.zero_factors || !self.a@.credits_cover) }
    // X-f64: stands for the expression `self.allocation_debt() > 0.0` (float semantics are Kani's, rows K.debt.*)
    #[verifier::external_body]
    pub fn debt_gt_zero(&self) -> (r: bool) ensures r == self.debt_pos() { unimplemented!() }
    #[verifier::external_body]
    pub fn finish_cycle(&mut self, reset_debt: bool)
        ensures reset_debt ==> !final(self).debt_pos(), final(self).a@.zero_factors == old(self).a@.zero_factors { unimplemented!() }
}

pub struct Context {
    pub metrics: Metrics,
    pub phase: Phase,
    pub all: Option<GcPtr>,
    pub sweep: Option<GcPtr>,
    pub sweep_prev: Option<GcPtr>,
    pub root_needs_trace: bool,
    pub gray_nonempty: Ghost<bool>,
    pub hist: Ghost<Seq<Phase>>,      // shim-owned: phases entered, appended only by `switch`
}

pub open spec fn same_visible(a: &Context, b: &Context) -> bool {
    a.phase == b.phase && a.all == b.all && a.sweep == b.sweep && a.sweep_prev == b.sweep_prev && a.root_needs_trace == b.root_needs_trace
        && a.gray_nonempty@ == b.gray_nonempty@ && a.metrics.a@ == b.metrics.a@
}

impl Context {
    pub open spec fn gray_remaining_spec(&self) -> bool { self.gray_nonempty@ || self.root_needs_trace }

    // shim for PhaseGuard::switch: every phase change is checked to be an allowed transition and recorded
    pub fn switch(&mut self, p: Phase)
        requires
            p == Phase::Mark ==> old(self).phase == Phase::Sleep,
            p == Phase::Sweep ==> old(self).phase == Phase::Mark && !old(self).gray_remaining_spec(),
            p == Phase::Sleep ==> old(self).phase == Phase::Sweep && old(self).sweep is None,
            p != Phase::Drop,
        ensures
            final(self).phase == p, final(self).hist@ == old(self).hist@.push(p),
            final(self).metrics == old(self).metrics, final(self).all == old(self).all, final(self).sweep == old(self).sweep,
            final(self).sweep_prev == old(self).sweep_prev, final(self).root_needs_trace == old(self).root_needs_trace,
            final(self).gray_nonempty == old(self).gray_nonempty,
    {
        self.phase = p;
        proof { self.hist@ = self.hist@.push(p); }
    }

    // step contracts at the granularity the driver needs (the full relations are proved elsewhere)
    #[verifier::external_body]
    fn mark_one(&mut self) -> (r: ControlFlow<()>)
        requires old(self).phase == Phase::Mark
        ensures
            final(self).phase == old(self).phase, final(self).all == old(self).all, final(self).sweep == old(self).sweep, final(self).sweep_prev == old(self).sweep_prev,
            (r is Break) == !old(self).gray_remaining_spec(), final(self).hist == old(self).hist,
            r is Break ==> same_visible(old(self), final(self)),
            // marking frees nothing and allocates nothing; with zero factors it cannot pay debt
            final(self).metrics.a@.total == old(self).metrics.a@.total, final(self).metrics.a@.debits_pos == old(self).metrics.a@.debits_pos,
            final(self).metrics.a@.zero_factors == old(self).metrics.a@.zero_factors,
    { unimplemented!() }

    #[verifier::external_body]
    fn sweep_one(&mut self) -> (r: ControlFlow<()>)
        requires old(self).phase == Phase::Sweep
        ensures
            final(self).phase == old(self).phase, final(self).root_needs_trace == old(self).root_needs_trace, final(self).gray_nonempty@ == old(self).gray_nonempty@,
            (r is Break) == (old(self).sweep is None), final(self).hist == old(self).hist,
            r is Break ==> final(self).sweep is None && final(self).metrics.a@ == old(self).metrics.a@,
            // a sweep step may release a block (total can only go down); debits unchanged
            final(self).metrics.a@.total <= old(self).metrics.a@.total, final(self).metrics.a@.debits_pos == old(self).metrics.a@.debits_pos,
            final(self).metrics.a@.zero_factors == old(self).metrics.a@.zero_factors,
            final(self).metrics.a@.total == 0 ==> final(self).sweep is None,
    { unimplemented!() }

    #[verifier::exec_allows_no_decreases_clause]
    fn do_collection(&mut self, run_until: RunUntil, stop: Stop)
        requires
            old(self).phase != Phase::Drop,
            old(self).phase != Phase::Mark ==> !old(self).gray_nonempty@,      // I-queue
            old(self).phase == Phase::Sleep ==> old(self).root_needs_trace,
        ensures
            final(self).phase != Phase::Drop,
            // C08: mark_debt / finish_marking do nothing while Sweeping and never leave Marked for Sweeping
            (stop_rank(stop) <= 1 && old(self).phase == Phase::Sweep) ==> same_visible(old(self), final(self)),
            (stop == Stop::FullyMarked && old(self).phase != Phase::Sweep) ==> final(self).phase != Phase::Sweep,
            // finish_marking: fully marked whenever it did not start Sweeping
            (run_until == RunUntil::Stop && stop == Stop::FullyMarked && old(self).phase != Phase::Sweep) ==> final(self).phase == Phase::Mark && !final(self).gray_remaining_spec(),
            // start_sweeping
            (run_until == RunUntil::Stop && stop == Stop::AtSweep && old(self).phase != Phase::Sweep) ==> final(self).phase == Phase::Sweep,
            // finish_cycle always ends Sleeping
            (run_until == RunUntil::Stop && stop == Stop::FinishCycle) ==> final(self).phase == Phase::Sleep,
            // C08: history is only extended; with FinishCycle, Sleep can only be the last phase entered in this call
            old(self).hist@.len() <= final(self).hist@.len(), final(self).hist@.subrange(0, old(self).hist@.len() as int) =~= old(self).hist@,
            stop == Stop::FinishCycle ==> forall|i: int| old(self).hist@.len() <= i < final(self).hist@.len() - 1 ==> final(self).hist@[i] != Phase::Sleep,
            // C09(a): debt-driven calls
            (run_until == RunUntil::PayDebt && stop == Stop::Full) ==> !final(self).metrics.debt_pos(),
            (run_until == RunUntil::PayDebt && stop == Stop::FinishCycle) ==> !final(self).metrics.debt_pos() || final(self).phase == Phase::Sleep,
            (run_until == RunUntil::PayDebt && stop == Stop::FullyMarked) ==> !final(self).metrics.debt_pos() || final(self).phase == Phase::Sweep
                || (final(self).phase == Phase::Mark && !final(self).gray_remaining_spec()),
            // C09 stop-the-world sentence: all work factors zero and positive debt => does not return until Sleeping again
            (run_until == RunUntil::PayDebt && stop_rank(stop) >= 2 && old(self).metrics.a@.zero_factors && old(self).metrics.debt_pos())
                ==> final(self).phase == Phase::Sleep,
    {
BODY
    }
}
}
fn main() {}
