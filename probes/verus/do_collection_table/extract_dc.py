#!/usr/bin/env python3
# PoC: extract Context::do_collection from a context.rs and apply rules X-guard, X-cell, X-assert, X-gen
import re, sys
src = open(sys.argv[1]).read()
m = re.search(r'pub\(crate\) unsafe fn do_collection', src)
i = src.index('{', src.index(') {', m.end()))
depth, j = 0, i
while True:
    c = src[j]
    if c == '{': depth += 1
    elif c == '}':
        depth -= 1
        if depth == 0: break
    j += 1
b = src[i+1:j]
b = re.sub(r'//[^\n]*', '', b)
b = b.replace('let mut cx = PhaseGuard::enter(self, None);', '')
b = re.sub(r'cx\.log_progress\([^)]*\);', '', b)
b = re.sub(r'cx\.switch\((Phase::\w+)\);', r'self.switch(\1);', b)
b = b.replace('cx.mark_one(root)', 'self.mark_one()')
b = re.sub(r'\bcx\.', 'self.', b)
b = re.sub(r'self\.(all|sweep_prev)\.get\(\)', r'self.\1', b)
b = re.sub(r'\(self\.metrics\.allocation_debt\(\) > 0\.0\)', 'self.metrics.debt_gt_zero()', b)
b = re.sub(r'\bassert!\(', 'assert(', b)
b = b.replace('unreachable!()', 'assert(false)')
b = b.replace('loop {', 'loop\n            invariant LOOP_INVARIANT\n        {', 1)
left = re.findall(r'allocation_debt|PhaseGuard|\bcx\b|\.get\(\)|\broot\b', b)
if left: print('unsupported leftovers', left, file=sys.stderr); sys.exit(2)
print(b)
