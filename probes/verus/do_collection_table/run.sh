#!/bin/bash
# usage: run.sh <context.rs> <tag>
python3 extract_dc.py "$1" > body_$2.txt || exit 2
python3 - "$2" <<'PY'
import sys
tag=sys.argv[1]
t=open('dc_template.rs').read()
b=open('body_%s.txt'%tag).read()
inv='''self.phase != Phase::Drop,
                self.phase != Phase::Mark ==> !self.gray_nonempty@,
                self.phase == Phase::Sleep ==> self.root_needs_trace,
                self.metrics.a@.zero_factors == old(self).metrics.a@.zero_factors,
                (stop == Stop::FullyMarked && old(self).phase != Phase::Sweep) ==> self.phase != Phase::Sweep,
                (stop_rank(stop) <= 1 && old(self).phase == Phase::Sweep) ==> same_visible(old(self), self),
                old(self).hist@.len() <= self.hist@.len(), self.hist@.subrange(0, old(self).hist@.len() as int) =~= old(self).hist@,
                stop == Stop::FinishCycle ==> forall|i: int| old(self).hist@.len() <= i < self.hist@.len() ==> self.hist@[i] != Phase::Sleep,
                (run_until == RunUntil::PayDebt && old(self).metrics.a@.zero_factors && old(self).metrics.debt_pos())
                    ==> self.metrics.debt_pos() || (self.phase == Phase::Sweep && self.sweep is None),
            ensures
                self.phase != Phase::Drop,
                old(self).hist@.len() <= self.hist@.len(), self.hist@.subrange(0, old(self).hist@.len() as int) =~= old(self).hist@,
                stop == Stop::FinishCycle ==> forall|i: int| old(self).hist@.len() <= i < self.hist@.len() - 1 ==> self.hist@[i] != Phase::Sleep,
                (stop_rank(stop) <= 1 && old(self).phase == Phase::Sweep) ==> same_visible(old(self), self),
                (stop == Stop::FullyMarked && old(self).phase != Phase::Sweep) ==> self.phase != Phase::Sweep,
                (run_until == RunUntil::Stop && stop == Stop::FullyMarked && old(self).phase != Phase::Sweep) ==> self.phase == Phase::Mark && !self.gray_remaining_spec(),
                (run_until == RunUntil::Stop && stop == Stop::AtSweep && old(self).phase != Phase::Sweep) ==> self.phase == Phase::Sweep,
                (run_until == RunUntil::Stop && stop == Stop::FinishCycle) ==> self.phase == Phase::Sleep,
                (run_until == RunUntil::PayDebt && stop == Stop::Full) ==> !self.metrics.debt_pos(),
                (run_until == RunUntil::PayDebt && stop == Stop::FinishCycle) ==> !self.metrics.debt_pos() || self.phase == Phase::Sleep,
                (run_until == RunUntil::PayDebt && stop == Stop::FullyMarked) ==> !self.metrics.debt_pos() || self.phase == Phase::Sweep
                    || (self.phase == Phase::Mark && !self.gray_remaining_spec()),
                (run_until == RunUntil::PayDebt && stop_rank(stop) >= 2 && old(self).metrics.a@.zero_factors && old(self).metrics.debt_pos())
                    ==> self.phase == Phase::Sleep,
'''
t=t.replace('BODY', b.replace('invariant LOOP_INVARIANT', 'invariant_except_break ' + inv))
open('gen_%s.rs'%tag,'w').write(t)
PY
