use vstd::prelude::*;
verus! {

#[derive(Copy, Clone, Eq, PartialEq, Structural)]
pub enum Color { White, WhiteWeak, Gray, Black }

pub type Ptr = int;

pub struct Obj { pub color: Color, pub live: bool, pub next: Option<Ptr> }

// abstract collector + ghost mutator state (sweep-phase slice)
pub struct S {
    pub objs: Map<Ptr, Obj>,
    pub list: Seq<Ptr>,          // ghost: the `all` chain, head first
    pub cur: int,                // ghost: index of the sweep cursor in `list`
    pub all: Option<Ptr>,
    pub sweep: Option<Ptr>,
    pub sweep_prev: Option<Ptr>,
    pub sedges: Map<Ptr, Set<Ptr>>,   // ghost: strong out-edges of each live value
    pub wedges: Map<Ptr, Set<Ptr>>,   // ghost: weak out-edges
    pub roots: Set<Ptr>,
    pub wroots: Set<Ptr>,
    pub dropped: Set<Ptr>,
    pub freed: Set<Ptr>,
}

pub open spec fn at(l: Seq<Ptr>, i: int) -> Option<Ptr> { if 0 <= i < l.len() { Some(l[i]) } else { None } }

pub open spec fn wf_list(s: S) -> bool {
    &&& s.list.no_duplicates()
    &&& forall|p: Ptr| s.objs.dom().contains(p) <==> s.list.contains(p)
    &&& forall|i: int| 0 <= i < s.list.len() ==> #[trigger] s.objs[s.list[i]].next == at(s.list, i + 1)
    &&& s.all == at(s.list, 0)
    &&& 0 <= s.cur <= s.list.len()
    &&& s.sweep == at(s.list, s.cur)
    &&& s.sweep_prev == at(s.list, s.cur - 1)
    &&& forall|i: int| s.cur <= i < s.list.len() ==> #[trigger] s.objs[s.list[i]].color != Color::Gray
    &&& forall|p: Ptr| #[trigger] s.objs.dom().contains(p) ==> (s.objs[p].live <==> !s.dropped.contains(p))
    &&& forall|p: Ptr| #[trigger] s.freed.contains(p) ==> !s.objs.dom().contains(p)
}

pub open spec fn idx(s: S, p: Ptr) -> int { s.list.index_of(p) }

// condemned: value will be destructed by the running sweep; wcondemned: block will be released
pub open spec fn condemned(s: S, p: Ptr) -> bool {
    s.objs.dom().contains(p) && idx(s, p) >= s.cur && (s.objs[p].color == Color::White || s.objs[p].color == Color::WhiteWeak)
}
pub open spec fn wcondemned(s: S, p: Ptr) -> bool {
    s.objs.dom().contains(p) && idx(s, p) >= s.cur && s.objs[p].color == Color::White
}
pub open spec fn protected_live(s: S, p: Ptr) -> bool { s.objs.dom().contains(p) && s.objs[p].live && !condemned(s, p) }

pub open spec fn safe(s: S) -> bool {
    &&& forall|p: Ptr, c: Ptr| #[trigger] protected_live(s, p) && #[trigger] s.sedges[p].contains(c) ==> protected_live(s, c)
    &&& forall|p: Ptr, c: Ptr| #[trigger] protected_live(s, p) && #[trigger] s.wedges[p].contains(c) ==> s.objs.dom().contains(c) && !wcondemned(s, c)
    &&& forall|c: Ptr| #[trigger] s.roots.contains(c) ==> protected_live(s, c)
    &&& forall|c: Ptr| #[trigger] s.wroots.contains(c) ==> s.objs.dom().contains(c) && !wcondemned(s, c)
}

pub open spec fn inv(s: S) -> bool { wf_list(s) && safe(s) }

// the relational contract of one sweep step (same shape as the one proved on the extracted body),
// extended with the ghost list/cursor/edge updates
pub open spec fn sweep_rel(pre: S, post: S) -> bool {
    &&& pre.sweep is Some
    &&& {
        let o = pre.sweep->Some_0;
        let ob = pre.objs[o];
        &&& post.sweep == ob.next
        &&& post.roots == pre.roots && post.wroots == pre.wroots
        &&& match ob.color {
            Color::White => {
                &&& post.freed == pre.freed.insert(o)
                &&& post.dropped == (if ob.live { pre.dropped.insert(o) } else { pre.dropped })
                &&& post.sweep_prev == pre.sweep_prev
                &&& post.list == pre.list.remove(pre.cur) && post.cur == pre.cur
                &&& post.sedges == pre.sedges.remove(o) && post.wedges == pre.wedges.remove(o)
                &&& match pre.sweep_prev {
                    Some(pv) => post.all == pre.all && post.objs == pre.objs.insert(pv, Obj { next: ob.next, ..pre.objs[pv] }).remove(o),
                    None => post.all == ob.next && post.objs == pre.objs.remove(o),
                }
            }
            Color::WhiteWeak => {
                &&& post.freed == pre.freed
                &&& post.dropped == (if ob.live { pre.dropped.insert(o) } else { pre.dropped })
                &&& post.sweep_prev == Some(o) && post.all == pre.all
                &&& post.list == pre.list && post.cur == pre.cur + 1
                &&& post.sedges == pre.sedges.insert(o, Set::empty()) && post.wedges == pre.wedges.insert(o, Set::empty())
                &&& post.objs == pre.objs.insert(o, Obj { color: Color::White, live: false, ..ob })
            }
            Color::Black => {
                &&& post.freed == pre.freed && post.dropped == pre.dropped
                &&& post.sweep_prev == Some(o) && post.all == pre.all
                &&& post.list == pre.list && post.cur == pre.cur + 1
                &&& post.sedges == pre.sedges && post.wedges == pre.wedges
                &&& post.objs == pre.objs.insert(o, Obj { color: Color::White, ..ob })
            }
            Color::Gray => false,
        }
    }
}

proof fn lemma_index_of(l: Seq<Ptr>, i: int)
    requires l.no_duplicates(), 0 <= i < l.len()
    ensures l.index_of(l[i]) == i
{
    let j = l.index_of(l[i]);
    assert(l.contains(l[i]));
}

proof fn lemma_remove_props(l: Seq<Ptr>, k: int)
    requires l.no_duplicates(), 0 <= k < l.len()
    ensures
        l.remove(k).no_duplicates(),
        forall|p: Ptr| l.remove(k).contains(p) <==> (l.contains(p) && p != l[k]),
        forall|i: int| 0 <= i < k ==> l.remove(k)[i] == l[i],
        forall|i: int| k <= i < l.len() - 1 ==> l.remove(k)[i] == l[i + 1],
{
    let r = l.remove(k);
    assert forall|p: Ptr| r.contains(p) <==> (l.contains(p) && p != l[k]) by {
        if r.contains(p) {
            let i = choose|i: int| 0 <= i < r.len() && r[i] == p;
            if i < k { assert(l[i] == p); } else { assert(l[i + 1] == p); }
        }
        if l.contains(p) && p != l[k] {
            let i = choose|i: int| 0 <= i < l.len() && l[i] == p;
            if i < k { assert(r[i] == p); } else { assert(r[i - 1] == p); }
        }
    }
    assert(r.no_duplicates()) by {
        assert forall|i: int, j: int| 0 <= i < r.len() && 0 <= j < r.len() && i != j implies r[i] != r[j] by {
            let ii = if i < k { i } else { i + 1 };
            let jj = if j < k { j } else { j + 1 };
            assert(r[i] == l[ii] && r[j] == l[jj]);
        }
    }
}

// C01/C04/C05 core step: the sweep step preserves the invariant, only destructs condemned values,
// only releases weakly-condemned blocks, and never touches a protected live object's value.
proof fn lemma_sweep_preserves_inv(pre: S, post: S)
    requires inv(pre), sweep_rel(pre, post)
    ensures
        inv(post),
        forall|p: Ptr| post.dropped.contains(p) && !pre.dropped.contains(p) ==> condemned(pre, p),
        forall|p: Ptr| post.freed.contains(p) && !pre.freed.contains(p) ==> wcondemned(pre, p),
        forall|p: Ptr| protected_live(pre, p) ==> protected_live(post, p),
{
    let o = pre.sweep->Some_0;
    let k = pre.cur;
    assert(pre.list[k] == o);
    lemma_index_of(pre.list, k);
    assert(pre.list.contains(o));
    let ob = pre.objs[o];
    assert(ob.color != Color::Gray);
    assert forall|i: int| 0 <= i < pre.list.len() implies pre.list.index_of(#[trigger] pre.list[i]) == i by { lemma_index_of(pre.list, i); }
    match ob.color {
        Color::White => {
            lemma_remove_props(pre.list, k);
            assert(condemned(pre, o) && wcondemned(pre, o));
            let pl = pre.list; let ql = post.list;
            assert(ql.len() == pl.len() - 1);
            assert forall|i: int| 0 <= i < ql.len() implies ql.index_of(#[trigger] ql[i]) == i by { lemma_index_of(ql, i); }
            // membership / domain
            assert forall|p: Ptr| post.objs.dom().contains(p) <==> ql.contains(p) by {
                assert(ql.contains(p) <==> (pl.contains(p) && p != o));
            }
            // every surviving object keeps colour/live flag and its side of the cursor
            assert forall|p: Ptr| #[trigger] post.objs.dom().contains(p) implies
                (idx(post, p) >= post.cur <==> idx(pre, p) >= pre.cur)
                && post.objs[p].color == pre.objs[p].color && post.objs[p].live == pre.objs[p].live
                && pre.objs.dom().contains(p) && p != o by {
                assert(pl.contains(p));
                let i = pl.index_of(p);
                assert(pl[i] == p);
                if i < k { assert(ql[i] == p); } else { assert(i > k); assert(ql[i - 1] == p); }
            }
            // next chain
            assert forall|i: int| 0 <= i < ql.len() implies #[trigger] post.objs[ql[i]].next == at(ql, i + 1) by {
                if i < k - 1 {
                    assert(ql[i] == pl[i]); assert(ql[i + 1] == pl[i + 1]);
                    assert(pre.objs[pl[i]].next == at(pl, i + 1));
                    assert(pl[i] != o) by { lemma_index_of(pl, i); }
                    if pre.sweep_prev is Some { assert(pre.sweep_prev == Some(pl[k - 1])); assert(pl[i] != pl[k - 1]); }
                } else if i == k - 1 {
                    assert(ql[i] == pl[i]);
                    assert(pre.sweep_prev == Some(pl[k - 1]));
                    assert(ob.next == at(pl, k + 1));
                    if k + 1 < pl.len() { assert(ql[k] == pl[k + 1]); }
                } else {
                    assert(ql[i] == pl[i + 1]);
                    assert(pre.objs[pl[i + 1]].next == at(pl, i + 2));
                    if i + 2 < pl.len() { assert(ql[i + 1] == pl[i + 2]); }
                    assert(pl[i + 1] != o) by { lemma_index_of(pl, i + 1); }
                    if pre.sweep_prev is Some { assert(pre.sweep_prev == Some(pl[k - 1])); assert(pl[i + 1] != pl[k - 1]); }
                }
            }
            assert(post.all == at(ql, 0)) by {
                if k == 0 { assert(pre.sweep_prev is None); assert(ob.next == at(pl, 1)); if pl.len() > 1 { assert(ql[0] == pl[1]); } }
                else { assert(ql[0] == pl[0]); }
            }
            assert(post.sweep == at(ql, post.cur)) by {
                assert(ob.next == at(pl, k + 1)); if k + 1 < pl.len() { assert(ql[k] == pl[k + 1]); }
            }
            assert(post.sweep_prev == at(ql, post.cur - 1)) by { if k > 0 { assert(ql[k - 1] == pl[k - 1]); } }
            assert forall|i: int| post.cur <= i < ql.len() implies #[trigger] post.objs[ql[i]].color != Color::Gray by {
                assert(ql[i] == pl[i + 1]);
                assert(post.objs.dom().contains(ql[i])) by { assert(ql.contains(ql[i])); }
                assert(pre.objs[pl[i + 1]].color != Color::Gray);
            }
            assert(wf_list(post));
            // safety
            assert forall|p: Ptr| protected_live(post, p) <==> (protected_live(pre, p) && p != o) by {
                if post.objs.dom().contains(p) { assert(pre.objs.dom().contains(p)); }
                if pre.objs.dom().contains(p) && p != o { assert(pl.contains(p)); assert(ql.contains(p)); assert(post.objs.dom().contains(p)); }
            }
            assert forall|p: Ptr| post.objs.dom().contains(p) implies (wcondemned(post, p) <==> wcondemned(pre, p)) by {}
            assert forall|p: Ptr, c: Ptr| #[trigger] protected_live(post, p) && #[trigger] post.sedges[p].contains(c) implies protected_live(post, c) by {
                assert(protected_live(pre, p) && pre.sedges[p].contains(c));
                assert(protected_live(pre, c));
                assert(c != o);
            }
            assert forall|p: Ptr, c: Ptr| #[trigger] protected_live(post, p) && #[trigger] post.wedges[p].contains(c) implies post.objs.dom().contains(c) && !wcondemned(post, c) by {
                assert(protected_live(pre, p) && pre.wedges[p].contains(c));
                assert(pre.objs.dom().contains(c) && !wcondemned(pre, c));
                assert(c != o);
                assert(pl.contains(c)); assert(ql.contains(c));
            }
            assert forall|c: Ptr| #[trigger] post.wroots.contains(c) implies post.objs.dom().contains(c) && !wcondemned(post, c) by {
                assert(pre.objs.dom().contains(c) && !wcondemned(pre, c)); assert(c != o);
                assert(pl.contains(c)); assert(ql.contains(c));
            }
            assert(safe(post));
        }
        Color::WhiteWeak => {
            assert(condemned(pre, o));
            assert(wf_list(post));
            assert forall|p: Ptr| #[trigger] pre.objs.dom().contains(p) && p != o implies
                post.objs.dom().contains(p) && post.objs[p] == pre.objs[p]
                && (idx(post, p) >= post.cur <==> idx(pre, p) >= pre.cur) by {
                assert(pre.list.contains(p));
                let i = pre.list.index_of(p);
                assert(pre.list[i] == p);
                assert(i != k);
            }
            assert forall|p: Ptr| p != o implies (protected_live(post, p) <==> protected_live(pre, p))
                && (wcondemned(post, p) <==> wcondemned(pre, p)) && (post.objs.dom().contains(p) <==> pre.objs.dom().contains(p)) by {}
            assert(!wcondemned(post, o) && post.objs.dom().contains(o));
            assert(!protected_live(post, o) && !protected_live(pre, o));
            assert forall|p: Ptr, c: Ptr| #[trigger] protected_live(post, p) && #[trigger] post.sedges[p].contains(c) implies protected_live(post, c) by {
                assert(p != o); assert(protected_live(pre, p) && pre.sedges[p].contains(c)); assert(protected_live(pre, c)); assert(c != o);
            }
            assert forall|p: Ptr, c: Ptr| #[trigger] protected_live(post, p) && #[trigger] post.wedges[p].contains(c) implies post.objs.dom().contains(c) && !wcondemned(post, c) by {
                assert(p != o); assert(protected_live(pre, p) && pre.wedges[p].contains(c));
            }
            assert(safe(post));
        }
        Color::Black => {
            assert(wf_list(post));
            assert forall|p: Ptr| #[trigger] pre.objs.dom().contains(p) && p != o implies
                post.objs.dom().contains(p) && post.objs[p] == pre.objs[p]
                && (idx(post, p) >= post.cur <==> idx(pre, p) >= pre.cur) by {
                assert(pre.list.contains(p));
                let i = pre.list.index_of(p);
                assert(pre.list[i] == p);
                assert(i != k);
            }
            assert forall|p: Ptr| p != o implies (protected_live(post, p) <==> protected_live(pre, p))
                && (wcondemned(post, p) <==> wcondemned(pre, p)) && (post.objs.dom().contains(p) <==> pre.objs.dom().contains(p)) by {}
            assert(!wcondemned(post, o) && post.objs.dom().contains(o));
            assert(protected_live(post, o) <==> protected_live(pre, o));
            assert forall|p: Ptr, c: Ptr| #[trigger] protected_live(post, p) && #[trigger] post.sedges[p].contains(c) implies protected_live(post, c) by {
                assert(protected_live(pre, p) && pre.sedges[p].contains(c)); assert(protected_live(pre, c));
            }
            assert forall|p: Ptr, c: Ptr| #[trigger] protected_live(post, p) && #[trigger] post.wedges[p].contains(c) implies post.objs.dom().contains(c) && !wcondemned(post, c) by {
                assert(protected_live(pre, p) && pre.wedges[p].contains(c));
            }
            assert(safe(post));
        }
        Color::Gray => {}
    }
}

} // verus!
fn main() {}
