#!/usr/bin/env python3
"""Proof-of-concept extractor: real fn body from /repo/src/context.rs -> Verus-checkable text.
Rules applied are purely textual and listed in RULES; anything left over that mentions a
construct outside the supported subset aborts with exit 2 (never an alarm)."""
import re, sys

def find_fn(src, name, impl_hint=None):
    m = re.search(r'\n(\s*)(?:pub\(crate\) |pub )?(?:unsafe )?fn %s\b' % re.escape(name), src)
    if not m: sys.exit(2)
    i = src.index('{', m.end())
    # skip where-clauses etc: first '{' after signature
    depth, j = 0, i
    while True:
        c = src[j]
        if c == '{': depth += 1
        elif c == '}':
            depth -= 1
            if depth == 0: break
        j += 1
    return src[m.start()+1:i], src[i+1:j]

def strip_comments(b):
    return re.sub(r'//[^\n]*', '', b)

RULES = []
def rule(desc):
    def deco(f): RULES.append((desc, f)); return f
    return deco

@rule("R-alias: `let H = X.header();` is deleted and later `H.` is read as `X.header().`")
def r_alias(b):
    for m in list(re.finditer(r'let (\w+) = (\w+)\.header\(\);\n', b)):
        h, x = m.group(1), m.group(2)
        b = b.replace(m.group(0), '')
        b = re.sub(r'\b%s\.' % h, '%s.header().' % x, b)
    return b

@rule("R-header: `X.header().op(args)` -> `self.heap.op(X, args)` (header accessors live in the heap shim)")
def r_header(b):
    b = re.sub(r'(\w+)\.header\(\)\.(color|is_live|next|needs_trace)\(\)', r'self.heap.\2(\1)', b)
    b = re.sub(r'(\w+)\.header\(\)\.(set_color|set_live|set_next)\(', r'self.heap.\2(\1, ', b)
    return b

@rule("R-cell: `self.F.get()` -> `self.F`, `self.F.set(E)` -> `self.F = E` for Cell fields all, sweep_prev")
def r_cell(b):
    b = re.sub(r'self\.(all|sweep_prev)\.get\(\)', r'self.\1', b)
    b = re.sub(r'self\.(all|sweep_prev)\.set\((.*?)\);', r'self.\1 = \2;', b)
    return b

@rule("R-vtable: `X.drop_in_place()` / `X.dealloc()` -> heap shim ops; `unsafe {` -> `{`")
def r_vtable(b):
    b = re.sub(r'(\w+)\.(drop_in_place|dealloc)\(\)', r'self.heap.\2(\1)', b)
    b = re.sub(r'\bunsafe \{', '{', b)
    return b

@rule("R-dbg: `debug_assert!(false, ..)` -> `assert(false)`; `debug_assert!(E)` with E in the pure subset -> `assert(E)`; others dropped and reported")
def r_dbg(b):
    dropped = []
    def sub(m):
        e = m.group(1).strip()
        if e.startswith('false'): return 'assert(false);'
        if '|' in e or 'is_some_and' in e:
            dropped.append(e); return '/* debug_assert dropped */'
        return 'assert(%s);' % e
    b = re.sub(r'debug_assert!\(((?:[^()]|\((?:[^()]|\([^()]*\))*\))*)\);?', sub, b)
    r_dbg.dropped = dropped
    return b

def extract(src, name):
    sig, body = find_fn(src, name)
    body = strip_comments(body)
    for desc, f in RULES: body = f(body)
    sig = sig.replace('&self', '&mut self')
    leftovers = re.findall(r'\.header\(\)|UnsafeCell|\.get\(\)|\.set\(|transmute|\bas \*', body)
    if leftovers:
        print("unsupported leftovers:", leftovers, file=sys.stderr); sys.exit(2)
    return sig, body

if __name__ == '__main__':
    src = open(sys.argv[1]).read()
    sig, body = extract(src, sys.argv[2])
    print(sig.strip()); print('{' + body + '}')
    print('// dropped debug_asserts:', getattr(r_dbg, 'dropped', []), file=sys.stderr)
