#!/usr/bin/env python3
"""Layer K: Kani on the real crate, in place (DESIGN.md 2.2).

The snapshot of /repo is overlaid with lines that exist only under cfg(kani) (set by the Kani compiler only):
  * one `#[cfg(kani)] #[path = ".../kani/<m>_verif.rs"] mod verif_kani;` line appended to each src/<m>.rs that has a harness file
    (a CHILD module: it sees the private fields of its parent without any accessor being added to the code);
  * `#![cfg_attr(kani, feature(...))]` and `#[cfg(kani)] extern crate self as gc_arena;` in src/lib.rs.
No executable token of the crate is rewritten or removed.
"""
from common import run_group
import os, re, subprocess, sys, time, json, shutil, resource

HERE = os.path.dirname(os.path.abspath(__file__))
VERIF = os.path.abspath(os.path.join(HERE, '..'))
NPROC = os.cpu_count() or 8


def overlay(repo, kdir=None):
    kdir = kdir or os.path.join(VERIF, 'kani')
    applied = []
    for f in sorted(os.listdir(kdir)):
        m = re.match(r'(\w+)_verif\.rs$', f)
        if not m:
            continue
        mod = m.group(1)
        src = os.path.join(repo, 'src', mod + '.rs')
        if not os.path.exists(src):
            from common import Undecided
            raise Undecided('lost anchor: src/%s.rs (needed by kani/%s)' % (mod, f))
        with open(src, 'a') as fh:
            fh.write('\n#[cfg(kani)]\n#[path = "%s"]\npub(crate) mod verif_kani;\n' % os.path.join(kdir, f))
        applied.append('src/%s.rs += mod verif_kani (%s)' % (mod, f))
    lib = os.path.join(repo, 'src/lib.rs')
    s = open(lib).read()
    s = '#![cfg_attr(kani, feature(stmt_expr_attributes, proc_macro_hygiene))]\n#![cfg_attr(kani, allow(dead_code, unused_imports))]\n' + s
    s = s.replace('extern crate alloc;', 'extern crate alloc;\n#[cfg(kani)]\nextern crate self as gc_arena;', 1)
    open(lib, 'w').write(s)
    os.makedirs(os.path.join(repo, '.cargo'), exist_ok=True)
    open(os.path.join(repo, '.cargo/config.toml'), 'w').write('[net]\noffline = true\n')
    applied.append('src/lib.rs: cfg_attr(kani) feature gates, extern crate self (cfg(kani))')
    return applied


def parse_output(out, harnesses):
    """Kani -j output is interleaved per thread: `Thread N: Checking harness X...` then later `Thread N: <result block>`."""
    res, cur = {}, {}
    chunks = re.split(r'(?m)^Thread (\d+): ', out)
    # chunks = [pre, tid, text, tid, text, ...]
    seq = []
    if len(chunks) == 1:
        # single-threaded output
        for b in re.split(r'(?m)^Checking harness ', out)[1:]:
            name = b.split('...')[0].strip()
            seq.append((name, b))
    else:
        for k in range(1, len(chunks), 2):
            tid, text = chunks[k], chunks[k + 1]
            m = re.match(r'Checking harness (\S+?)\.\.\.', text)
            if m:
                cur[tid] = m.group(1)
                rest = text[m.end():]
                if 'VERIFICATION' in rest:
                    seq.append((cur[tid], rest))
            elif tid in cur:
                seq.append((cur[tid], text))
    for name, b in seq:
        short = name.split('::')[-1]
        m = re.search(r'VERIFICATION:- (SUCCESSFUL|FAILED)', b)
        if not m:
            continue
        st = m.group(1)
        failed = []
        for fm in re.finditer(r'Failed Checks: (.*)\n(?:\s*File: "([^"]*)", line (\d+), in (\S+))?', b):
            failed.append(dict(check=fm.group(1).strip(), file=fm.group(2), line=fm.group(3), function=fm.group(4)))
        if st == 'FAILED' and 'encountered no panics, but at least one was expected' in b:
            # a should_panic row: the harness ran to its end although the contract demands that it does not return normally
            failed.append(dict(check='should_panic harness ended without a panic (the call returned normally)', file=None, line=None, function=short))
        cv = re.search(r'\*\* (\d+) of (\d+) cover properties satisfied', b)
        covers = dict(satisfied=int(cv.group(1)) if cv else 0, total=int(cv.group(2)) if cv else 0)
        tm = re.search(r'Verification Time: ([\d.]+)s', b)
        nchecks = re.search(r'\*\* (\d+) of (\d+) failed', b)
        cex = None
        cm = re.search(r'Concrete playback unit test for `[^`]*`:\n```\n(.*?)```', b, re.S)
        if cm:
            cex = cm.group(1)
        res[short] = dict(status=st, failed_checks=failed, covers=covers, time_s=float(tm.group(1)) if tm else None,
                          checks=int(nchecks.group(2)) if nchecks else None, cex=cex, full=name)
    return res


def _limit():
    # per-process address-space cap: a CBMC query that explodes must not take the machine down (it is then undecided)
    gb = int(os.environ.get('VERIF_KANI_MEM_GB', '24'))
    resource.setrlimit(resource.RLIMIT_AS, (gb << 30, gb << 30))


def run(repo, scratch, krows, seed, tier):
    """krows: dict row-id -> dict(harness=..., serves=[...], complete=..., features=..., text=...)"""
    from common import Undecided
    applied = overlay(repo)
    by_feat = {}
    for rid, r in krows.items():
        by_feat.setdefault(r.get('features', ''), []).append((rid, r))
    target = os.environ.get('VERIF_KANI_TARGET') or os.path.join(VERIF, '.cache', 'kani-target')
    os.makedirs(target, exist_ok=True)
    env = dict(os.environ, CARGO_NET_OFFLINE='true', CARGO_TARGET_DIR=target)
    rows, failed, per, cexs, covers_all = {}, {}, {}, {}, {}
    t0 = time.time()
    cmds = []
    n_ok = 0
    for feat, items in by_feat.items():
        harnesses = sorted(set(r['harness'] for _, r in items))
        cmd = ['cargo', 'kani', '--default-unwind', '3', '-j', str(min(NPROC, 16)), '--output-format', 'terse',
               '-Z', 'function-contracts', '-Z', 'stubbing']
        if feat:
            cmd += ['--features', feat]
        for h in harnesses:
            cmd += ['--harness', h]
        cmds.append(' '.join(cmd))
        try:
            p = run_group(cmd, int(os.environ.get('VERIF_KANI_TIMEOUT', '3000')), cwd=repo, env=env, preexec_fn=_limit)
        except subprocess.TimeoutExpired:
            raise Undecided('kani timed out')
        out = p.stdout + '\n' + p.stderr
        open(os.path.join(scratch, 'kani_%s.log' % (feat.replace(',', '_') or 'default')), 'w').write(out)
        if 'error: could not compile' in out or 'error[E' in out:
            tail = '\n'.join(l for l in out.splitlines() if 'error' in l)[:3000]
            raise Undecided('the overlaid crate does not compile under Kani (anchor renamed / signature changed?):\n' + tail)
        parsed = parse_output(out, harnesses)
        # A harness without a verdict, or FAILED without a failed check (a solver process that died: out of memory under `-j`, machine under
        # load), is run ONCE more on its own before the layer gives up: transient resource trouble must not make a check undecided.
        for h in harnesses:
            pr = parsed.get(h)
            if pr is None or pr['status'] is None or (pr['status'] == 'FAILED' and not pr['failed_checks']):
                cmd1 = ['cargo', 'kani', '--default-unwind', '3', '--output-format', 'terse', '-Z', 'function-contracts', '-Z', 'stubbing', '--harness', h]
                if feat:
                    cmd1 += ['--features', feat]
                try:
                    p1 = run_group(cmd1, 1800, cwd=repo, env=env, preexec_fn=_limit)
                    again = parse_output(p1.stdout + '\n' + p1.stderr, [h])
                    if again.get(h) and again[h]['status'] is not None:
                        parsed[h] = again[h]
                        parsed[h]['rerun_alone'] = True
                except subprocess.TimeoutExpired:
                    pass
        for rid, r in items:
            h = r['harness']
            pr = parsed.get(h)
            rows[rid] = dict(serves=r['serves'], kind='kani', fn=r.get('fn', h), text=r.get('text', ''), complete=r.get('complete', True))
            if pr is None or pr['status'] is None:
                raise Undecided('kani gave no verdict for harness %s (see %s)' % (h, scratch))
            if pr['status'] == 'FAILED' and not pr['failed_checks']:
                raise Undecided('kani harness %s failed without a failed check (out of memory / solver failure)' % h)
            exp_fail = r.get('should_fail', False)
            ok = (pr['status'] == 'SUCCESSFUL')
            # vacuity: cover points must be satisfied
            if ok and pr['covers']['satisfied'] != pr['covers']['total']:
                raise Undecided('vacuity guard: a kani::cover! point of %s is not reachable' % h)
            per[h] = dict(status=pr['status'], checks=pr['checks'], time_s=pr['time_s'], covers='%d/%d' % (pr['covers']['satisfied'], pr['covers']['total']))
            if ok:
                n_ok += 1
            else:
                failed[rid] = ['%s: %s' % (h, json.dumps(pr['failed_checks'][:6]))]
                # ask Kani for the concrete input of this harness (single-threaded re-run; playback is incompatible with -j)
                cmd2 = ['cargo', 'kani', '--default-unwind', '3', '--output-format', 'terse', '-Z', 'function-contracts', '-Z', 'stubbing',
                        '-Z', 'concrete-playback', '--concrete-playback=print', '--harness', h]
                if feat:
                    cmd2 += ['--features', feat]
                try:
                    p2 = run_group(cmd2, 1200, cwd=repo, env=env)
                    o2 = p2.stdout + p2.stderr
                    tests = re.findall(r'Concrete playback unit test for `[^`]*`:\n```\n(.*?)```', o2, re.S)
                    # Kani prints one test per failed check and per satisfied cover: keep the first that is not for a cover property
                    tests = [t for t in tests if 'Check for `cover`' not in t] or tests
                    if tests:
                        cexs[rid] = dict(harness=pr['full'], playback_test=tests[0], failed_checks=pr['failed_checks'][:6])
                except subprocess.TimeoutExpired:
                    pass
    prune_target(target)
    return dict(rows=rows, failed=failed, per=per, n=len(rows), n_ok=n_ok, wall=time.time() - t0, cmd=' && '.join(cmds), cex=cexs,
                overlay=applied)


def prune_target(target, keep=4):
    """Every run builds the crate at a scratch path of its own, and cargo keys the crate's artefacts by that path: the shared target directory
    would grow by ~100 MB per run.  Keep the newest few artefact directories of the crate itself (dependencies are shared and stay)."""
    for root, dirs, files in os.walk(target):
        if os.path.basename(root) == 'gc-arena' and os.path.basename(os.path.dirname(root)) == 'build':
            ds = sorted((os.path.join(root, d) for d in dirs), key=lambda d: os.path.getmtime(d), reverse=True)
            for d in ds[keep:]:
                if time.time() - os.path.getmtime(d) > 1800:          # never under a run that may still be using it
                    shutil.rmtree(d, ignore_errors=True)
            dirs[:] = []
