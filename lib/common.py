class Undecided(Exception):
    pass


import os, signal, subprocess


def run_group(cmd, timeout, **kw):
    """subprocess.run(capture_output, text) in its OWN process group; on timeout the whole group is killed (verus leaves its z3 children and
    cargo kani its cbmc children running otherwise: they then burn cores for hours).  Raises subprocess.TimeoutExpired like subprocess.run."""
    pre = kw.pop('preexec_fn', None)

    def _pre():
        os.setsid()
        if pre:
            pre()
    p = subprocess.Popen(cmd, stdout=subprocess.PIPE, stderr=subprocess.PIPE, text=True, preexec_fn=_pre, **kw)
    try:
        out, err = p.communicate(timeout=timeout)
    except subprocess.TimeoutExpired:
        try:
            os.killpg(p.pid, signal.SIGKILL)
        except ProcessLookupError:
            pass
        p.communicate()
        raise
    return subprocess.CompletedProcess(cmd, p.returncode, out, err)
