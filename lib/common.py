class Undecided(Exception):
    pass
