#!/usr/bin/env python3
"""Regenerate /verif/MANIFEST.json from the claims below (kept next to the code so the two cannot drift)."""
import json, os, sys
HERE = os.path.dirname(os.path.abspath(__file__))
VERIF = os.path.abspath(os.path.join(HERE, '..'))
sys.path.insert(0, os.path.join(VERIF, 'contracts'))
import claims

m = {
    'version': 1,
    'setup_cmd': 'cd /verif && bin/setup',
    'hooks': {
        'guard': 'kani',
        'enable': 'no hook is committed to /repo: every check copies /repo\'s working tree to a scratch directory and applies an overlay there that only appends `#[cfg(kani)] #[path = "/verif/kani/<m>_verif.rs"] mod verif_kani;` lines (child modules) and two cfg(kani)-only crate attributes to src/lib.rs; cfg(kani) is set only by the Kani compiler (DESIGN.md 2.2). Verus runs on function text cut from the same scratch copy (DESIGN.md 2.3).',
        'baseline_off_cmd': 'cd /repo && cargo test --workspace --no-fail-fast --offline',
        'source_commits': [],
        'add_only': True,
    },
    'engines': [
        {'name': 'verus-extracted', 'path': 'lib/extract.py + lib/gen_verus.py + verus/*.rs + contracts/table.py',
         'serves_properties': sorted(claims.VERUS), 'kind_free_text': 'Verus 0.2026.09.13 on function bodies cut mechanically from /repo on every run (rules X-*), against relational contracts; lemma layer (Inv, preservation, theorems) in the same file'},
        {'name': 'kani-in-place', 'path': 'lib/kani_run.py + kani/*_verif.rs',
         'serves_properties': sorted(claims.KANI), 'kind_free_text': 'Kani 0.68 / CBMC 6.11 on the real crate (scratch copy + cfg(kani) child modules): loop-free harnesses over fully symbolic footprints = complete proofs; bounded rows labelled as such'},
        {'name': 'inventory', 'path': 'lib/inventory.py', 'serves_properties': ['C03', 'C04', 'C08', 'C19', 'C20'],
         'kind_free_text': 'structural facts recomputed from the source (call sites of reclamation / collection entry points, phase assignments, statics, ZstCache signatures)'},
    ],
    'checks': [],
    'notes': claims.NOTES,
    'not_applicable': claims.NOT_APPLICABLE,
}
for pid in sorted(claims.CHECKS):
    c = claims.CHECKS[pid]
    m['checks'].append({
        'property_id': pid,
        'quick_cmd': 'bin/check %s --tier quick' % pid,
        'thorough_cmd': 'bin/check %s --tier thorough' % pid,
        'evidence_file': '/verif/evidence/%s.json' % pid,
        'replay_cmd_template': 'bin/replay {path}',
        'engine': c['engine'],
        'level_claimed': {'category': c['category'], 'text': c['text'], 'design_ref': c['design_ref']},
        'level_note': c['note'],
        'technique': c['technique'],
    })
json.dump(m, open(os.path.join(VERIF, 'MANIFEST.json'), 'w'), indent=2)
print('MANIFEST.json: %d checks, %d not applicable' % (len(m['checks']), len(m['not_applicable'])))
