#!/usr/bin/env python3
"""Assemble gen/collector.rs = fixed shim/spec/lemma text + function bodies cut from /repo on this run
(lib/extract.py) + contracts (contracts/table.py).  Also returns the line -> row map used to attribute
Verus diagnostics to clause-level rows."""
import os, re, sys
sys.path.insert(0, os.path.dirname(os.path.abspath(__file__)))
sys.path.insert(0, os.path.join(os.path.dirname(os.path.abspath(__file__)), '..', 'contracts'))
import extract
from extract import Unsupported, LostAnchor

VERIF = os.path.abspath(os.path.join(os.path.dirname(os.path.abspath(__file__)), '..'))
KEEP_DERIVES = ('Debug', 'Copy', 'Clone', 'Eq', 'PartialEq', 'Ord', 'PartialOrd')


def gen_enum(name, variants, derives):
    d = [x for x in derives if x in KEEP_DERIVES] + ['Structural']
    out = ['#[derive(%s)]' % ', '.join(d), 'pub enum %s { %s }' % (name, ', '.join(variants))]
    if 'PartialOrd' in derives:
        arms = ', '.join('%s::%s => %d' % (name, v, i) for i, v in enumerate(variants))
        low = name.lower()
        out += [
            '// generated from the declaration order of `%s` in the current source (assumption A-order)' % name,
            'pub open spec fn %s_rank(s: %s) -> int { match s { %s } }' % (low, name, arms),
            'impl PartialOrdSpecImpl for %s {' % name,
            '    open spec fn obeys_partial_cmp_spec() -> bool { true }',
            '    open spec fn partial_cmp_spec(&self, other: &%s) -> Option<Ordering> {' % name,
            '        if %s_rank(*self) < %s_rank(*other) { Some(Ordering::Less) } else if %s_rank(*self) == %s_rank(*other) { Some(Ordering::Equal) } else { Some(Ordering::Greater) }' % (low, low, low, low),
            '    }', '}']
    return '\n'.join(out)


class Gen:
    def __init__(self):
        self.lines = []
        self.rowmap = {}       # line number (1-based) -> row id
        self.fnspan = {}       # fn key -> (first line, last line)
        self.rows = {}         # row id -> dict(serves, kind, fn, text)

    def emit(self, text, row=None):
        for l in text.split('\n'):
            self.lines.append(l)
            if row:
                self.rowmap[len(self.lines)] = row

    def text(self):
        return '\n'.join(self.lines) + '\n'


def loop_contract_lines(spec, rowprefix):
    """-> list of (text, row or None)"""
    out = []
    for kw in ('invariant_except_break', 'invariant', 'ensures'):
        if kw in spec:
            out.append(('        ' + kw, None))
            for (cid, txt) in spec[kw]:
                out.append(('            %s,' % txt, '%s.%s' % (rowprefix, cid)))
    if 'decreases' in spec:
        out.append(('        decreases ' + spec['decreases'], '%s.terminates' % rowprefix))
    return out


def splice_loops(body, loops, key, rowprefix):
    """insert loop contracts after the n-th `loop` / `while` header. Returns list of (line, row-or-None)."""
    if not loops:
        return [(l, None) for l in body.split('\n')]
    out, pos, n = [], 0, 0
    for m in re.finditer(r'\b(loop|while\b[^{]*)\s*\{', body):
        if n in loops:
            hdr_end = m.end() - 1
            out += [(l, None) for l in body[pos:hdr_end].rstrip().split('\n')]
            out += loop_contract_lines(loops[n], rowprefix)
            out.append(('{', None))
            pos = m.end()
        n += 1
    for k in loops:
        if k >= n:
            raise Unsupported('%s: loop #%d not found (loop structure changed)' % (key, k))
    out += [(l, None) for l in body[pos:].split('\n')]
    return out


def filter_loops(loops, keep):
    """loop contracts restricted to the clause ids accepted by keep(cid) (the decreases clause always stays)"""
    if not loops:
        return loops
    out = {}
    for n, spec in loops.items():
        o = {}
        for kw, v in spec.items():
            o[kw] = [(cid, txt) for (cid, txt) in v if keep(cid)] if kw != 'decreases' else v
        out[n] = o
    return out


def emit_fn(g, key, fx, contract, rowprefix):
    """fx: dict(sig, body, ...) from the extractor; contract: table entry.
    `views` (optional): {name: dict(clauses={ids}, base={ids})}: the clauses of a view are proved on a SECOND copy of the same extracted body
    (fn <name>__<view>) together with the base clauses only, which keeps each solver query small; the main copy carries all other clauses."""
    first = len(g.lines) + 1
    # locals of the real code that the loop contracts speak about are found by their ROLE (declaration pattern), not by their name
    for canon, pat in contract.get('local_names', {}).items():
        ms = re.findall(pat, fx['body'])
        if len(ms) != 1:
            raise Unsupported('%s: the local `%s` named in the contract was not found by its declaration pattern (%d matches)' % (key, canon, len(ms)))
        if ms[0] != canon:
            fx = dict(fx); fx['body'] = re.sub(r'(?<![\.\w])%s\b' % re.escape(ms[0]), canon, fx['body'])
    # parameters are known to the contracts by POSITION: a renamed parameter is renamed back to the name the contract uses
    if contract.get('param_names'):
        pm = re.search(r'\(([^)]*)\)', fx['sig'])
        ps = [x.strip() for x in pm.group(1).split(',')] if pm else []
        ps = [x for x in ps if x and not re.match(r'(&\s*(mut\s+)?)?(mut\s+)?self$', x)]
        names = [re.sub(r'^mut\s+', '', x.split(':')[0].strip()) for x in ps]
        if len(names) != len(contract['param_names']):
            raise Unsupported('%s: parameter list changed (%s)' % (key, names))
        for have, want in zip(names, contract['param_names']):
            if have != want:
                fx = dict(fx)
                fx['sig'] = re.sub(r'(?<![\.\w])%s\b' % re.escape(have), want, fx['sig'])
                fx['body'] = re.sub(r'(?<![\.\w])%s\b' % re.escape(have), want, fx['body'])
    views = contract.get('views', {})
    in_view = set().union(*[v['clauses'] for v in views.values()]) if views else set()
    emit_fn_copy(g, key, fx, contract, rowprefix, '', lambda cid: cid not in in_view)
    for vn, v in views.items():
        allowed = set(v['clauses']) | set(v['base'])
        g.emit('    // ---- the same extracted body again, for the clauses %s only (view `%s`)' % (sorted(v['clauses']), vn))
        emit_fn_copy(g, key, fx, contract, rowprefix, '__' + vn, lambda cid, allowed=allowed: cid in allowed)
    g.fnspan[key] = (first, len(g.lines))


def emit_fn_copy(g, key, fx, contract, rowprefix, suffix, keep):
    g.emit('    // ---- extracted from /repo: %s' % key)
    for a in contract.get('attrs', []):
        g.emit('    ' + a)
    sig = fx['sig']
    if suffix:
        sig = re.sub(r'\bfn (\w+)', lambda m: 'fn ' + m.group(1) + suffix, sig, 1)
    if contract.get('ghost_param'):
        sig = sig.replace(')', ', ' + contract['ghost_param'] + ')', 1) if not sig.endswith('(&mut self)') else sig.replace('(&mut self)', '(&mut self, %s)' % contract['ghost_param'])
    g.emit('    ' + sig)
    if contract.get('requires'):
        g.emit('        requires')
        for r in contract['requires']:
            g.emit('            %s,' % r)
    g.emit('        ensures')
    for (cid, serves, expr) in contract['ensures']:
        if not keep(cid):
            continue
        row = '%s.%s' % (rowprefix, cid)
        g.rows[row] = dict(serves=serves, kind='verus', fn=key, text=expr)
        g.emit('            %s,' % expr, row=row)
    if contract.get('decreases'):
        g.emit('        decreases %s' % contract['decreases'])
    g.emit('    {')
    if contract.get('prologue'):
        g.emit('        ' + contract['prologue'] + '   // ghost prologue (rule X-link)')
    brow = '%s.body' % rowprefix
    body_lines = splice_loops(fx['body'], filter_loops(contract.get('loops'), keep), key, rowprefix)
    g.rows[brow] = dict(serves=contract.get('body_serves', []), kind='verus', fn=key,
                        text='callee preconditions, assertions (incl. debug_assert!), arithmetic and termination inside the extracted body')
    for (l, lrow) in body_lines:
        if lrow and lrow not in g.rows:
            cid = lrow.rsplit('.', 1)[1]
            g.rows[lrow] = dict(serves=contract.get('loop_serves', {}).get(cid, contract.get('body_serves', [])), kind='verus', fn=key,
                                text='loop contract clause `%s` of %s' % (cid, key))
        g.emit('    ' + l, row=(lrow or brow))
    g.emit('    }')
    if suffix:
        return
    for (hn, arg, hb) in fx.get('hoisted', []):
        # hoisted nested fn (X-nested): inherits the obligations of its single call site
        hc = contract.get('hoisted', {}).get(hn)
        if hc is None:
            raise Unsupported('%s: nested fn %s has no contract' % (key, hn))
        g.emit('    fn %s(&mut self, %s: GcPtr)' % (hn, arg))
        g.emit('        requires')
        for r in hc['requires']:
            g.emit('            %s,' % r)
        g.emit('        ensures')
        for e in hc['ensures']:
            g.emit('            %s,' % e, row=brow)
        g.emit('    {')
        for l in hb.split('\n'):
            g.emit('    ' + l, row=brow)
        g.emit('    }')


def generate(repo, table, lemma_files=None, with_lemmas=True):
    rec = extract.Record()
    src_ctx = os.path.join(repo, 'src/context.rs')
    src_met = os.path.join(repo, 'src/metrics.rs')
    src_typ = os.path.join(repo, 'src/types.rs')
    ctx_src = extract.strip_comments(open(src_ctx).read())
    typ_src = extract.strip_comments(open(src_typ).read())
    fns, inventory = extract.extract_context(src_ctx, rec)
    fns.update(extract.extract_metrics(src_met, rec))

    g = Gen()
    g.emit(open(os.path.join(VERIF, 'verus/00_prelude.rs')).read())
    g.emit('verus! {')
    g.emit('// ---- enums cut from /repo (variant lists verbatim, `Structural` added)')
    rec.begin('context.enums', 'src/context.rs::{Phase, RunUntil, Stop}; src/types.rs::GcColor')
    for (name, src) in (('Phase', ctx_src), ('RunUntil', ctx_src), ('Stop', ctx_src), ('GcColor', typ_src)):
        variants, derives = extract.extract_enum(src, name, rec)
        g.emit(gen_enum(name, variants, derives))
    g.emit('} // verus!')
    for f in ('10_spec.rs', '20_shim.rs', '30_shim_code.rs'):
        g.emit(open(os.path.join(VERIF, 'verus', f)).read())

    g.emit('verus! {')
    if with_lemmas:
        bu = os.path.join(VERIF, 'verus/35_broadcast_use.rs')
        if os.environ.get('VERIF_WIP') and os.path.exists(os.path.join(VERIF, 'wip/35_broadcast_use.rs')):
            bu = os.path.join(VERIF, 'wip/35_broadcast_use.rs')       # development only
        g.emit(open(bu).read())
    else:
        g.emit('broadcast use {axioms::ax_debt_empty, axioms::ax_debt_zero_factors, axioms::ax_debt_reset};')
    g.emit('impl Metrics {')
    for key in [k for k in fns if k.startswith('metrics.')]:
        if key not in table:
            raise Unsupported('no contract for extracted function %s' % key)
        emit_fn(g, key, fns[key], table[key], 'V.' + key)
    g.emit('}')
    g.emit('impl Context {')
    for key in [k for k in fns if k.startswith('context.')]:
        if key not in table:
            if os.environ.get('VERIF_DEV_SKIP'):
                continue
            raise Unsupported('no contract for extracted function %s' % key)
        emit_fn(g, key, fns[key], table[key], 'V.' + key)
        # unwind variants (X-unwind)
        if key == 'context.mark_one' and 'context.mark_one#unwind' in table:
            emit_unwind_variants(g, fns[key], table['context.mark_one#unwind'], rec)
        if key == 'context.sweep_one' and 'context.sweep_one#unwind' in table:
            emit_dtor_unwind_variant(g, fns[key], table['context.sweep_one#unwind'], rec)
    g.emit('}')
    g.emit('} // verus!')
    if with_lemmas:
        for f in (lemma_files or sorted(x for x in os.listdir(os.path.join(VERIF, 'verus')) if re.match(r'[4-9]\d_.*\.rs$', x))):
            start = len(g.lines) + 1
            g.emit(open(os.path.join(VERIF, 'verus', f)).read())
            g.fnspan['file:' + f] = (start, len(g.lines))
        # development only: lemma files being written live in wip/ so that checks running in the background do not pick them up
        if os.environ.get('VERIF_WIP') and os.path.isdir(os.path.join(VERIF, 'wip')):
            for f in sorted(x for x in os.listdir(os.path.join(VERIF, 'wip')) if re.match(r'[4-9]\d_.*\.rs$', x)):
                start = len(g.lines) + 1
                g.emit(open(os.path.join(VERIF, 'wip', f)).read())
                g.fnspan['file:' + f] = (start, len(g.lines))
    g.emit('fn main() {}')
    return g, rec, inventory


def emit_unwind_variants(g, fx, contract, rec):
    """X-unwind: for every call that can run user code the function text is emitted again with that ONE call
    replaced by `<call>_prefix(..)` (an arbitrary prefix of its effects), followed by the Drop bodies of the guards in
    scope at the call, `begin_unwind()` and an exit.  Everything else of the body is kept verbatim."""
    body = fx['body']
    rt = re.search(r'->\s*\(r:\s*(.+)\)\s*$', fx['sig'])
    rt = rt.group(1) if rt else '()'
    ic, ifg = body.find('/*@guard-created@*/'), body.find('/*@guard-forgotten@*/')
    variants = []
    for (cid, pat, prefix) in (('trace_value', r'self\.trace_value\((\w+)\)', 'self.trace_value_prefix(%s)'),
                               ('trace_root', r'self\.trace_root\(\)', 'self.trace_root_prefix()')):
        ms = list(re.finditer(pat, body))
        if len(ms) != 1:
            raise Unsupported('mark_one: expected exactly one call matching %s, found %d' % (pat, len(ms)))
        m = ms[0]
        in_guard = ic >= 0 and ic < m.start() < ifg
        call = prefix % m.groups() if m.groups() else prefix
        guards = (fx['guard_drop'] + ' ') if in_guard else ''
        rep = '{ %s; %sself.begin_unwind(); return unwound::<%s>(); }' % (call, guards, rt)
        txt = body[:m.start()] + rep + body[m.end():]
        # a trailing `;` / enclosing block of the original call statement is harmless
        variants.append((cid, txt, in_guard))
    for (cid, txt, in_guard) in variants:
        c = contract[cid]
        name = 'mark_one__unwind_at_' + cid
        row = 'V.context.mark_one.unwind_%s' % cid
        g.rows[row] = dict(serves=c['serves'], kind='verus', fn='context.mark_one', text=c['ensures'])
        g.emit('    // ---- generated by rule X-unwind from the extracted mark_one (guards in scope at the call: %s)' % ('DropGuard' if in_guard else 'none'))
        g.emit('    ' + fx['sig'].replace('fn mark_one(', 'fn %s(' % name))
        g.emit('        requires')
        for r in c['requires']:
            g.emit('            %s,' % r)
        g.emit('        ensures')
        g.emit('            %s,' % c['ensures'], row=row)
        g.emit('    {')
        for l in txt.split('\n'):
            g.emit('    ' + l, row=row)
        g.emit('    }')
    rec.functions['context.mark_one']['rules'].append('X-unwind(2 variants generated)')


def emit_dtor_unwind_variant(g, fx, contract, rec):
    """X-unwind for a destructor that panics: sweep_one is emitted again with the `drop_in_place` call of its weakly-marked arm followed by
    `begin_unwind()` and an exit (the destructor has run - A-dtor: a value whose destructor was entered counts as destructed - and then
    unwinds).  Everything else of the body is kept verbatim.  The arm for unmarked objects is NOT given a variant: there the real code
    leaves the block unlinked and allocated (a leak, not an inconsistency the collector acts on); see DESIGN 12.  The call is found as the
    one `drop_in_place` that is not followed by a `dealloc` (independent of how the colour cases are written)."""
    body = fx['body']
    # the destructor call that is NOT followed by a release of the same block: the value of a weakly marked object is destructed, its shell kept
    calls = list(re.finditer(r'self\.heap\.drop_in_place\((\w+)\)', body))
    keep = [m for k, m in enumerate(calls)
            if 'self.heap.dealloc(' not in body[m.end():(calls[k + 1].start() if k + 1 < len(calls) else len(body))]]
    if len(keep) != 1:
        raise Unsupported('sweep_one: expected exactly one `drop_in_place` call that is not followed by `dealloc` (the weakly-marked case), found %d of %d'
                          % (len(keep), len(calls)))
    m = keep[0]
    rt = re.search(r'->\s*\(r:\s*(.+)\)\s*$', fx['sig'])
    rt = rt.group(1) if rt else '()'
    rep = '{ self.heap.drop_in_place(%s); self.begin_unwind(); return unwound::<%s>(); }' % (m.group(1), rt)
    txt = body[:m.start()] + rep + body[m.end():]
    c = contract['drop_weak']
    row = 'V.context.sweep_one.unwind_drop_weak'
    g.rows[row] = dict(serves=c['serves'], kind='verus', fn='context.sweep_one', text=c['ensures'])
    g.emit('    // ---- generated by rule X-unwind from the extracted sweep_one (the destructor of a weakly marked value panics)')
    g.emit('    ' + fx['sig'].replace('fn sweep_one(', 'fn sweep_one__unwind_at_drop_weak('))
    g.emit('        requires')
    for r in c['requires']:
        g.emit('            %s,' % r)
    g.emit('        ensures')
    g.emit('            %s,' % c['ensures'], row=row)
    g.emit('    {')
    for l in txt.split('\n'):
        g.emit('    ' + l, row=row)
    g.emit('    }')
    rec.functions['context.sweep_one']['rules'].append('X-unwind(destructor variant generated)')


if __name__ == '__main__':
    import table
    g, rec, inv = generate(sys.argv[1], table.V, with_lemmas=('--no-lemmas' not in sys.argv))
    out = sys.argv[2]
    open(out, 'w').write(g.text())
    print('wrote', out, len(g.lines), 'lines;', len(g.rows), 'rows')
