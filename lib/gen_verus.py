#!/usr/bin/env python3
"""Assemble gen/collector.rs = fixed shim/spec/lemma text + function bodies cut from /repo on this run
(lib/extract.py) + contracts (contracts/table.py).  Also returns the line -> row map used to attribute
Verus diagnostics to clause-level rows."""
import os, re, sys
sys.path.insert(0, os.path.dirname(os.path.abspath(__file__)))
sys.path.insert(0, os.path.join(os.path.dirname(os.path.abspath(__file__)), '..', 'contracts'))
import extract
from extract import Unsupported, LostAnchor

VERIF = os.path.abspath(os.path.join(os.path.dirname(os.path.abspath(__file__)), '..'))
KEEP_DERIVES = ('Debug', 'Copy', 'Clone', 'Eq', 'PartialEq', 'Ord', 'PartialOrd')


def gen_enum(name, variants, derives):
    d = [x for x in derives if x in KEEP_DERIVES] + ['Structural']
    out = ['#[derive(%s)]' % ', '.join(d), 'pub enum %s { %s }' % (name, ', '.join(variants))]
    if 'PartialOrd' in derives:
        arms = ', '.join('%s::%s => %d' % (name, v, i) for i, v in enumerate(variants))
        low = name.lower()
        out += [
            '// generated from the declaration order of `%s` in the current source (assumption A-order)' % name,
            'pub open spec fn %s_rank(s: %s) -> int { match s { %s } }' % (low, name, arms),
            'impl PartialOrdSpecImpl for %s {' % name,
            '    open spec fn obeys_partial_cmp_spec() -> bool { true }',
            '    open spec fn partial_cmp_spec(&self, other: &%s) -> Option<Ordering> {' % name,
            '        if %s_rank(*self) < %s_rank(*other) { Some(Ordering::Less) } else if %s_rank(*self) == %s_rank(*other) { Some(Ordering::Equal) } else { Some(Ordering::Greater) }' % (low, low, low, low),
            '    }', '}']
    return '\n'.join(out)


class Gen:
    def __init__(self):
        self.lines = []
        self.rowmap = {}       # line number (1-based) -> row id
        self.fnspan = {}       # fn key -> (first line, last line)
        self.rows = {}         # row id -> dict(serves, kind, fn, text)

    def emit(self, text, row=None):
        for l in text.split('\n'):
            self.lines.append(l)
            if row:
                self.rowmap[len(self.lines)] = row

    def text(self):
        return '\n'.join(self.lines) + '\n'


def splice_loops(body, loops, key):
    """insert loop contracts after the n-th `loop` / `while` keyword header."""
    if not loops:
        return body
    out, pos, n = '', 0, 0
    for m in re.finditer(r'\b(loop|while\b[^{]*)\s*\{', body):
        if n in loops:
            hdr_end = m.end() - 1
            out += body[pos:hdr_end].rstrip() + '\n' + loops[n] + '\n{'
            pos = m.end()
        n += 1
    for k in loops:
        if k >= n:
            raise Unsupported('%s: loop #%d not found (loop structure changed)' % (key, k))
    return out + body[pos:]


def emit_fn(g, key, fx, contract, rowprefix):
    """fx: dict(sig, body, ...) from the extractor; contract: table entry."""
    first = len(g.lines) + 1
    g.emit('    // ---- extracted from /repo: %s' % key)
    for a in contract.get('attrs', []):
        g.emit('    ' + a)
    sig = fx['sig']
    if contract.get('ghost_param'):
        sig = sig.replace(')', ', ' + contract['ghost_param'] + ')', 1) if not sig.endswith('(&mut self)') else sig.replace('(&mut self)', '(&mut self, %s)' % contract['ghost_param'])
    g.emit('    ' + sig)
    if contract.get('requires'):
        g.emit('        requires')
        for r in contract['requires']:
            g.emit('            %s,' % r)
    g.emit('        ensures')
    for (cid, serves, expr) in contract['ensures']:
        row = '%s.%s' % (rowprefix, cid)
        g.rows[row] = dict(serves=serves, kind='verus', fn=key, text=expr)
        g.emit('            %s,' % expr, row=row)
    if contract.get('decreases'):
        g.emit('        decreases %s' % contract['decreases'])
    g.emit('    {')
    if contract.get('prologue'):
        g.emit('        ' + contract['prologue'] + '   // ghost prologue (rule X-link)')
    body = splice_loops(fx['body'], contract.get('loops'), key)
    brow = '%s.body' % rowprefix
    g.rows[brow] = dict(serves=contract.get('body_serves', []), kind='verus', fn=key,
                        text='callee preconditions, assertions (incl. debug_assert!), arithmetic and termination inside the extracted body')
    for l in body.split('\n'):
        g.emit('    ' + l, row=brow)
    g.emit('    }')
    for (hn, arg, hb) in fx.get('hoisted', []):
        # hoisted nested fn (X-nested): inherits the obligations of its single call site
        hc = contract.get('hoisted', {}).get(hn)
        if hc is None:
            raise Unsupported('%s: nested fn %s has no contract' % (key, hn))
        g.emit('    fn %s(&mut self, %s: GcPtr)' % (hn, arg))
        g.emit('        requires')
        for r in hc['requires']:
            g.emit('            %s,' % r)
        g.emit('        ensures')
        for e in hc['ensures']:
            g.emit('            %s,' % e, row=brow)
        g.emit('    {')
        for l in hb.split('\n'):
            g.emit('    ' + l, row=brow)
        g.emit('    }')
    g.fnspan[key] = (first, len(g.lines))


def generate(repo, table, lemma_files=None, with_lemmas=True):
    rec = extract.Record()
    src_ctx = os.path.join(repo, 'src/context.rs')
    src_met = os.path.join(repo, 'src/metrics.rs')
    src_typ = os.path.join(repo, 'src/types.rs')
    ctx_src = extract.strip_comments(open(src_ctx).read())
    typ_src = extract.strip_comments(open(src_typ).read())
    fns, inventory = extract.extract_context(src_ctx, rec)
    fns.update(extract.extract_metrics(src_met, rec))

    g = Gen()
    g.emit(open(os.path.join(VERIF, 'verus/00_prelude.rs')).read())
    g.emit('verus! {')
    g.emit('// ---- enums cut from /repo (variant lists verbatim, `Structural` added)')
    rec.begin('context.enums', 'src/context.rs::{Phase, RunUntil, Stop}; src/types.rs::GcColor')
    for (name, src) in (('Phase', ctx_src), ('RunUntil', ctx_src), ('Stop', ctx_src), ('GcColor', typ_src)):
        variants, derives = extract.extract_enum(src, name, rec)
        g.emit(gen_enum(name, variants, derives))
    g.emit('} // verus!')
    for f in ('10_spec.rs', '20_shim.rs', '30_shim_code.rs'):
        g.emit(open(os.path.join(VERIF, 'verus', f)).read())

    g.emit('verus! {')
    if with_lemmas:
        g.emit(open(os.path.join(VERIF, 'verus/35_broadcast_use.rs')).read())
    else:
        g.emit('broadcast use {axioms::ax_debt_empty, axioms::ax_debt_zero_factors, axioms::ax_debt_reset};')
    g.emit('impl Metrics {')
    for key in [k for k in fns if k.startswith('metrics.')]:
        if key not in table:
            raise Unsupported('no contract for extracted function %s' % key)
        emit_fn(g, key, fns[key], table[key], 'V.' + key)
    g.emit('}')
    g.emit('impl Context {')
    for key in [k for k in fns if k.startswith('context.')]:
        if key not in table:
            if os.environ.get('VERIF_DEV_SKIP'):
                continue
            raise Unsupported('no contract for extracted function %s' % key)
        emit_fn(g, key, fns[key], table[key], 'V.' + key)
        # unwind variants (X-unwind)
        if key == 'context.mark_one' and 'context.mark_one#unwind' in table:
            emit_unwind_variants(g, fns[key], table['context.mark_one#unwind'], rec)
    g.emit('}')
    g.emit('} // verus!')
    if with_lemmas:
        for f in (lemma_files or sorted(x for x in os.listdir(os.path.join(VERIF, 'verus')) if re.match(r'[4-9]\d_.*\.rs$', x))):
            start = len(g.lines) + 1
            g.emit(open(os.path.join(VERIF, 'verus', f)).read())
            g.fnspan['file:' + f] = (start, len(g.lines))
    g.emit('fn main() {}')
    return g, rec, inventory


def emit_unwind_variants(g, fx, contract, rec):
    """X-unwind: statements up to the call that runs user code, the call replaced by its *_prefix shim,
    then the Drop bodies of the guards in scope, then return."""
    body = fx['body']
    # variant 1: panic inside trace_value
    m = re.search(r'\{?\s*self\.trace_value\((\w+)\)\s*\}?', body)
    if not m or '/*@guard-forgotten@*/' not in body:
        raise Unsupported('mark_one: trace_value call / guard shape changed')
    pre = body[:m.start()]
    # cut back to the enclosing `if let Some(gc_ptr) = next_gray {`
    v1 = pre + 'self.trace_value_prefix(%s);\n        %s\n        return;\n    }\n' % (m.group(1), fx['guard_drop'])
    # variant 2: panic inside trace_root
    m2 = re.search(r'self\.trace_root\(\);', body)
    if not m2:
        raise Unsupported('mark_one: root.trace call not found')
    # keep the queue-pop prefix and the if-chain head, replace the gray branch by unreachable
    i_else = body.index('else if self.root_needs_trace')
    head_end = body.index('if let Some(gc_ptr) = next_gray')
    v2 = body[:head_end] + 'if next_gray.is_none() && self.root_needs_trace {\n        self.trace_root_prefix();\n        return;\n    }\n'
    for (name, txt, cid) in (('mark_one__unwind_at_trace_value', v1, 'trace_value'), ('mark_one__unwind_at_trace_root', v2, 'trace_root')):
        c = contract[cid]
        row = 'V.context.mark_one.unwind_%s' % cid
        g.rows[row] = dict(serves=c['serves'], kind='verus', fn='context.mark_one', text=c['ensures'])
        g.emit('    // ---- generated by rule X-unwind from the extracted mark_one')
        g.emit('    fn %s(&mut self)' % name)
        g.emit('        requires')
        for r in c['requires']:
            g.emit('            %s,' % r)
        g.emit('        ensures')
        g.emit('            %s,' % c['ensures'], row=row)
        g.emit('    {')
        for l in txt.split('\n'):
            g.emit('    ' + l, row=row)
        g.emit('    }')
    rec.functions['context.mark_one']['rules'].append('X-unwind(2 variants generated)')


if __name__ == '__main__':
    import table
    g, rec, inv = generate(sys.argv[1], table.V, with_lemmas=('--no-lemmas' not in sys.argv))
    out = sys.argv[2]
    open(out, 'w').write(g.text())
    print('wrote', out, len(g.lines), 'lines;', len(g.rows), 'rows')
