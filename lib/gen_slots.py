#!/usr/bin/env python3
"""gen/slots.rs: dynamic_roots::Slots cut VERBATIM from /repo (declarations + new/add/inc/dec) + verus_slots/slots_shim.rs + contracts/slots_table.py"""
import os, re, sys
sys.path.insert(0, os.path.dirname(os.path.abspath(__file__)))
sys.path.insert(0, os.path.join(os.path.dirname(os.path.abspath(__file__)), '..', 'contracts'))
import extract, gen_verus, slots_table
VERIF = gen_verus.VERIF


def generate(repo):
    rec = extract.Record()
    fx = extract.extract_slots(os.path.join(repo, 'src/dynamic_roots.rs'), rec)
    d = fx['slots.decls']
    g = gen_verus.Gen()
    start = len(g.lines) + 1
    g.emit(open(os.path.join(VERIF, 'verus_slots/slots_shim.rs')).read())
    g.fnspan['file:slots_shim.rs'] = (start, len(g.lines))
    g.emit('verus! {')
    g.emit('// ---- declarations cut verbatim from /repo/src/dynamic_roots.rs (`\'gc` dropped, Gc<\'gc, ()> -> GcRef, fields made pub for the spec module)')
    g.emit('pub mod decl {')
    g.emit('use super::{GcRef, Index};')
    ni = d['null_index'].replace(' ', '')
    # spellings of the same constant (bitwise not of zero is the maximum of an unsigned type): normalised so that the lemma layer sees one form
    if ni in ('!0', '!0usize', '!0_usize', 'Index::MAX', 'core::usize::MAX', 'std::usize::MAX', 'usize::max_value()', 'usize::MAX'):
        ni = 'usize::MAX'
    g.emit('pub const NULL_INDEX: Index = %s;' % ni)
    slot = d['slot'].replace("<'gc>", "").replace("Gc<'gc, ()>", "GcRef").strip()
    slots = d['slots'].replace("<'gc>", "").strip()
    if not re.match(r'enum Slot\s*\{', slot) or not re.match(r'struct Slots\s*\{', slots):
        raise extract.Unsupported('Slot / Slots declaration changed shape')
    g.emit('pub ' + slot)
    g.emit('pub ' + re.sub(r'\n(\s+)(\w+):', r'\n\1pub \2:', slots))
    g.emit('}')
    g.emit('use decl::*;')
    g.emit('use sl::*;')
    g.emit('broadcast use sl::group_slots;')
    g.emit('impl Slots {')
    for k in ['slots.new', 'slots.add', 'slots.inc', 'slots.dec']:
        f = dict(fx[k]); f['hoisted'] = []
        f['sig'] = f['sig'].replace("Gc<'gc, ()>", 'GcRef')
        if k == 'slots.new':
            f['sig'] = re.sub(r'->\s*\(r: Self\)|->\s*Self', '-> (r: Self)', f['sig'])
        gen_verus.emit_fn(g, k, f, slots_table.S[k], 'V.' + k)
    g.emit('}')
    g.emit('} // verus!')
    g.emit('fn main() {}')
    return g, rec


if __name__ == '__main__':
    g, rec = generate(sys.argv[1])
    open(sys.argv[2], 'w').write(g.text())
    print('wrote', sys.argv[2], len(g.lines), 'lines', len(g.rows), 'rows')
