#!/usr/bin/env python3
"""Mechanical extraction of gc-arena functions into Verus-checkable text (DESIGN.md 2.3).

Every run cuts the function text from the *current* /repo snapshot and rewrites it with the
purely textual rules X-* below.  Nothing here knows what the functions are supposed to do:
the rules map Rust constructs Verus cannot take (Cell, raw header pointers, vtable calls,
nested items, generics that do not influence control flow) to calls of the hand-written shim.
If, after the rules, a construct outside the supported subset survives, extraction raises
Unsupported -> the check exits 2 ("undecided"), never a violation.

The extractor records for the evidence: rules applied per function, debug assertions turned
into obligations, and everything that was dropped.
"""
import os, re


class Unsupported(Exception):
    pass


class LostAnchor(Exception):
    pass


# ----------------------------------------------------------------------------- lexical helpers

def strip_comments(src):
    """Remove // and /* */ comments, string- and char-literal aware. Keeps line structure."""
    out = []
    i, n = 0, len(src)
    while i < n:
        c = src[i]
        if c == '/' and i + 1 < n and src[i + 1] == '/':
            j = src.find('\n', i)
            if j < 0:
                j = n
            i = j
        elif c == '/' and i + 1 < n and src[i + 1] == '*':
            depth, j = 1, i + 2
            while j < n and depth:
                if src.startswith('/*', j):
                    depth += 1; j += 2
                elif src.startswith('*/', j):
                    depth -= 1; j += 2
                else:
                    if src[j] == '\n':
                        out.append('\n')
                    j += 1
            i = j
        elif c == '"':
            j = i + 1
            while j < n and src[j] != '"':
                j += 2 if src[j] == '\\' else 1
            out.append(src[i:j + 1]); i = j + 1
        elif c == "'" and re.match(r"'(\\.|[^\\'])'", src[i:i + 4]):
            m = re.match(r"'(\\.|[^\\'])'", src[i:i + 4])
            out.append(m.group(0)); i += len(m.group(0))
        else:
            out.append(c); i += 1
    return ''.join(out)


def match_close(src, i, open_c='{', close_c='}'):
    """src[i] == open_c; return index of the matching close (string aware)."""
    assert src[i] == open_c, (src[i:i + 20], open_c)
    depth, j, n = 0, i, len(src)
    while j < n:
        c = src[j]
        if c == '"':
            j += 1
            while j < n and src[j] != '"':
                j += 2 if src[j] == '\\' else 1
        elif c == open_c:
            depth += 1
        elif c == close_c:
            depth -= 1
            if depth == 0:
                return j
        j += 1
    raise Unsupported('unbalanced %s' % open_c)


def find_block(src, header_re, what):
    m = re.search(header_re, src)
    if not m:
        raise LostAnchor(what)
    i = src.index('{', m.end() - 1)
    j = match_close(src, i)
    return m.start(), i, j


def find_fn(src, name, what=None):
    """Find `fn name` at any depth in src. Returns (sig_text, body_text, start, end)."""
    m = re.search(r'(?:pub(?:\([a-z]+\))? )?(?:const )?(?:unsafe )?fn %s\b' % re.escape(name), src)
    if not m:
        raise LostAnchor(what or ('fn ' + name))
    # first '{' at paren depth 0 after the name
    j, depth = m.end(), 0
    while True:
        c = src[j]
        if c in '(<[':
            depth += 1
        elif c in ')>]':
            if not (c == '>' and src[j - 1] == '-'):
                depth -= 1
        elif c == '{' and depth == 0:
            break
        j += 1
    k = match_close(src, j)
    return src[m.start():j].strip(), src[j + 1:k], m.start(), k + 1


def dedent(body, n=4):
    lines = body.split('\n')
    return '\n'.join(l[n:] if l.startswith(' ' * n) else l for l in lines)


def squeeze(body):
    body = re.sub(r'[ \t]+\n', '\n', body)
    body = re.sub(r'\n{3,}', '\n\n', body)
    return body.strip('\n')


# ----------------------------------------------------------------------------- the record

class Record:
    def __init__(self):
        self.functions = {}     # key -> dict(source, rules, dropped, dbg_obligations, text)
        self.cur = None

    def begin(self, key, source):
        self.cur = self.functions[key] = {'source': source, 'rules': [], 'dropped': [], 'dbg_obligations': []}

    def rule(self, r):
        if r not in self.cur['rules']:
            self.cur['rules'].append(r)

    def drop(self, what):
        self.cur['dropped'].append(what)

    def dbg(self, what):
        self.cur['dbg_obligations'].append(what)


# ----------------------------------------------------------------------------- rewrite rules

HDR_GET = ('color', 'is_live', 'next', 'needs_trace')
HDR_SET = ('set_color', 'set_live', 'set_next')
CELL_FIELDS = ('all', 'sweep_prev')


def x_hdr(b, rec):
    """X-hdr: header alias removal and header accessors -> heap shim."""
    for m in list(re.finditer(r'let (\w+) = (\w+)\.header\(\);\n?', b)):
        h, x = m.group(1), m.group(2)
        b = b.replace(m.group(0), '', 1)
        b = re.sub(r'\b%s\.' % re.escape(h), '%s.header().' % x, b)
        rec.rule('X-hdr')
    n = 0
    b, k = re.subn(r'(\w+)\.header\(\)\.(%s)\(\)' % '|'.join(HDR_GET), r'self.heap.\2(\1)', b); n += k
    b, k = re.subn(r'(\w+)\.header\(\)\.(%s)\(' % '|'.join(HDR_SET), r'self.heap.\2(\1, ', b); n += k
    if n:
        rec.rule('X-hdr')
    return b


def x_cell(b, rec):
    """X-cell: Cell get/set on Context fields."""
    n = 0
    b, k = re.subn(r'\b(self|cx)\.(%s)\.get\(\)' % '|'.join(CELL_FIELDS), r'\1.\2', b); n += k
    # .set(E) where E has balanced parens
    while True:
        m = re.search(r'\b(self|cx)\.(%s)\.set\(' % '|'.join(CELL_FIELDS), b)
        if not m:
            break
        i = m.end() - 1
        j = match_close(b, i, '(', ')')
        b = b[:m.start()] + '%s.%s = %s' % (m.group(1), m.group(2), b[i + 1:j]) + b[j + 1:]
        n += 1
    # Cell::replace(E) / Cell::take() used as an expression: `{ let old = F; F = E; old }`
    while True:
        m = re.search(r'\b(self|cx)\.(%s)\.(replace|take)\(' % '|'.join(CELL_FIELDS), b)
        if not m:
            break
        i = m.end() - 1
        j = match_close(b, i, '(', ')')
        new = b[i + 1:j].strip() if m.group(3) == 'replace' else 'None'
        f = '%s.%s' % (m.group(1), m.group(2))
        b = b[:m.start()] + '({ let cell_old = %s; %s = %s; cell_old })' % (f, f, new) + b[j + 1:]
        n += 1
    if n:
        rec.rule('X-cell')
    return b


def x_vt(b, rec):
    """X-vt: vtable dispatch -> heap shim; unsafe blocks -> plain blocks."""
    n = 0
    b, k = re.subn(r'(\w+)\.(drop_in_place|dealloc)\(\)', r'self.heap.\2(\1)', b); n += k
    b, k = re.subn(r'\bunsafe \{', '{', b); n += k
    b, k = re.subn(r'(\w+)\.trace_value\((?:self|guard\.context)\)', r'self.trace_value(\1)', b); n += k
    b, k = re.subn(r'\broot\.trace\(self\)', 'self.trace_root()', b); n += k
    b, k = re.subn(r'\.erase\(\)', '', b); n += k          # GcPtr<T> -> GcPtr<()>: identity on the abstract pointer
    if n:
        rec.rule('X-vt')
    return b


def x_opt(b, rec):
    """X-opt: O.map(|c| E).unwrap_or(D), O.is_none_or(|c| E), O.is_some_and(|c| E), O.map_or(D, |c| E) -> match."""
    for (meth, dflt) in (('is_none_or', 'true'), ('is_some_and', 'false')):
        pat2 = re.compile(r'((?:\w+\.)*\w+)\s*\.%s\(\|(\w+)\|\s*' % meth)
        while True:
            m = pat2.search(b)
            if not m:
                break
            i = b.index('(', m.start() + len(m.group(1)))
            j = match_close(b, i, '(', ')')
            body = b[m.end():j].strip()
            b = b[:m.start()] + '(match %s { Some(%s) => %s, None => %s })' % (m.group(1), m.group(2), body, dflt) + b[j + 1:]
            rec.rule('X-opt')
    # RECV.or_else(|| E)  (RECV a path possibly ending in a nullary call such as `self.gray.pop()`)
    pat4 = re.compile(r'((?:\w+\.)*\w+(?:\(\))?)\s*\.or_else\(\|\|\s*')
    while True:
        m = pat4.search(b)
        if not m:
            break
        i = b.index('(', m.start() + len(m.group(1)))
        j = match_close(b, i, '(', ')')
        body = b[m.end():j].strip()
        b = b[:m.start()] + '(match %s { Some(oe_x) => Some(oe_x), None => %s })' % (m.group(1), body) + b[j + 1:]
        rec.rule('X-opt')
    pat3 = re.compile(r'((?:\w+\.)*\w+)\s*\.map_or\(\s*(true|false)\s*,\s*\|(\w+)\|\s*')
    while True:
        m = pat3.search(b)
        if not m:
            break
        i = b.index('(', m.start() + len(m.group(1)))
        j = match_close(b, i, '(', ')')
        body = b[m.end():j].strip()
        b = b[:m.start()] + '(match %s { Some(%s) => %s, None => %s })' % (m.group(1), m.group(3), body, m.group(2)) + b[j + 1:]
        rec.rule('X-opt')
    pat = re.compile(r'(\w+)\s*\.map\(\|(\w+)\|\s*')
    while True:
        m = pat.search(b)
        if not m:
            break
        # find end of closure body: the ')' closing .map(
        i = b.index('(', m.start() + len(m.group(1)))
        j = match_close(b, i, '(', ')')
        body = b[m.end():j].strip()
        m2 = re.match(r'\s*\.unwrap_or\(', b[j + 1:])
        if not m2:
            raise Unsupported('Option::map without unwrap_or')
        k0 = j + 1 + m2.end() - 1
        k1 = match_close(b, k0, '(', ')')
        dflt = b[k0 + 1:k1].strip()
        rep = '(match %s { Some(%s) => %s, None => %s })' % (m.group(1), m.group(2), body, dflt)
        b = b[:m.start()] + rep + b[k1 + 1:]
        rec.rule('X-opt')
    return b


def x_dbg(b, rec):
    """X-dbg / X-assert: assertions become proof obligations."""
    cnt = [0]

    def args_of(b, m):
        i = m.end() - 1
        j = match_close(b, i, '(', ')')
        return b[i + 1:j], j

    def split_top(s):
        parts, depth, cur = [], 0, ''
        i = 0
        while i < len(s):
            c = s[i]
            if c == '"':
                j = i + 1
                while s[j] != '"':
                    j += 2 if s[j] == '\\' else 1
                cur += s[i:j + 1]; i = j + 1; continue
            if c in '([{':
                depth += 1
            elif c in ')]}':
                depth -= 1
            if c == ',' and depth == 0:
                parts.append(cur.strip()); cur = ''
            else:
                cur += c
            i += 1
        if cur.strip():
            parts.append(cur.strip())
        return parts

    while True:
        m = re.search(r'\b(debug_assert_eq|debug_assert|assert_eq|assert)!\(', b)
        if not m:
            break
        a, j = args_of(b, m)
        end = j + 1
        if end < len(b) and b[end] == ';':
            end += 1
        parts = split_top(a)
        kind = m.group(1)
        if kind.endswith('_eq'):
            e = '%s == %s' % (parts[0], parts[1])
        else:
            e = parts[0]
        e = ' '.join(e.split())
        if e == 'false':
            rep = 'assert(false);'
            rec.dbg('%s!(false) -> assert(false)' % kind)
        elif '|' in e.replace('||', '') or 'is_some_and' in e:
            rep = ''
            rec.drop('%s!(%s) dropped: closure argument outside the supported subset' % (kind, e))
        else:
            v = 'dbg_%d' % cnt[0]; cnt[0] += 1
            rep = 'let %s = %s; assert(%s);' % (v, e, v)
            rec.dbg('%s!(%s) -> proof obligation' % (kind, e))
        b = b[:m.start()] + rep + b[end:]
        rec.rule('X-dbg')
    if 'unreachable!()' in b:
        b = b.replace('unreachable!()', 'assert(false)')
        rec.rule('X-assert')
        rec.dbg('unreachable!() -> assert(false)')
    return b


def x_nested(b, fname, rec):
    """X-nested: hoist `#[cold] fn barrier(this: &Context, x: GcPtr) { .. }`; returns (body, hoisted_methods)."""
    hoisted = []
    while True:
        m = re.search(r'(?:#\[cold\]\s*)?fn (\w+)\((\w+): &Context, (\w+): GcPtr\)\s*\{', b)
        if not m:
            break
        i = b.index('{', m.end() - 1)
        j = match_close(b, i)
        inner = b[i + 1:j]
        inner = re.sub(r'\b%s\.' % m.group(2), 'self.', inner)
        name, arg = m.group(1), m.group(3)
        new = '%s__%s' % (fname, name)
        b = b[:m.start()] + b[j + 1:]
        b, k = re.subn(r'\b%s\(&?self, (\w+)\);' % name, r'self.%s(\1);' % new, b)        # `barrier(&self, p)` or `barrier(self, p)` (self is already a reference)
        if k != 1:
            raise Unsupported('nested fn %s: expected exactly one call' % name)
        hoisted.append((new, arg, inner))
        rec.rule('X-nested')
    return b, hoisted


INERT = set()          # functions whose whole body is gated by cfg(feature = "tracing"): calls to them are no-ops in the verified configuration


def find_inert(src):
    """names of functions whose body is empty once `#[cfg(feature = "tracing")]`-gated statements / blocks are removed"""
    out = set()
    for m in re.finditer(r'fn (\w+)\s*(?:<[^>]*>)?\(', src):
        try:
            _, body, _, _ = find_fn(src[m.start():], m.group(1))
        except Exception:
            continue
        b = body
        if 'cfg(feature = "tracing")' not in b:
            continue
        while True:
            g = re.search(r'#\[cfg\(feature = "tracing"\)\]\s*', b)
            if not g:
                break
            rest = b[g.end():]
            if rest.startswith('{'):
                j = match_close(rest, 0)
                b = b[:g.start()] + rest[j + 1:]
            else:
                # one statement: up to the first `;` at nesting depth 0
                depth, j = 0, 0
                while j < len(rest):
                    c = rest[j]
                    if c in '([{': depth += 1
                    elif c in ')]}': depth -= 1
                    elif c == ';' and depth == 0: break
                    j += 1
                b = b[:g.start()] + rest[j + 1:]
        if not b.strip():
            out.add(m.group(1))
    return out


def x_inert(b, rec):
    """X-inert: a call statement to a function that does nothing without the `tracing` feature is dropped (arguments must be string literals)"""
    for h in sorted(INERT):
        pat = re.compile(r'\b(?:self|cx)(?:\.metrics)?\.%s\(' % h)
        while True:
            m = pat.search(b)
            if not m:
                break
            i = m.end() - 1; j = match_close(b, i, '(', ')')
            if not re.match(r'^\s*(?:"[^"]*"\s*,?\s*)*$', b[i + 1:j]) or not b[j + 1:].lstrip().startswith(';'):
                raise Unsupported('call of the tracing-only helper `%s` with arguments other than string literals' % h)
            k = b.index(';', j)
            b = b[:m.start()] + b[k + 1:]
            rec.drop('%s(..) (tracing feature only)' % h)
    return b


def x_guard(b, rec):
    """X-guard: PhaseGuard -> shim methods on self.  The name of the local holding the guard is free (normalised to `cx` first)."""
    n = 0
    g = re.search(r'let (?:mut )?(\w+) = PhaseGuard::enter\(', b)
    if g and g.group(1) != 'cx':
        b = re.sub(r'(?<![\.\w])%s\b' % g.group(1), 'cx', b)
    b = x_inert(b, rec)
    b, k = re.subn(r'let mut cx = PhaseGuard::enter\(self, None\);\n?', '', b); n += k
    b, k = re.subn(r'let cx = PhaseGuard::enter\(self, Some\((Phase::\w+)\)\);', r'self.enter(\1);', b); n += k
    b, k = re.subn(r'cx\.log_progress\([^)]*\);\n?', '', b)
    if k:
        rec.drop('cx.log_progress(..) x%d (tracing feature only)' % k); n += k
    b, k = re.subn(r'\bcx\.', 'self.', b); n += k
    if n:
        rec.rule('X-guard')
    return b


BOOL_FIELDS = ('root_needs_trace',)


def x_take(b, rec):
    """X-take: mem::take(&mut self.F) on a bool field -> read, reset to Default (false), yield the old value."""
    cnt = [0]

    def sub(m):
        f = m.group(1)
        if f not in BOOL_FIELDS:
            raise Unsupported('mem::take on a field that is not a known bool: ' + f)
        v = 'taken_%d' % cnt[0]; cnt[0] += 1
        return '{ let %s = self.%s; self.%s = false; %s }' % (v, f, f, v)
    b, k = re.subn(r'(?:core::)?mem::take\(&mut self\.(\w+)\)', sub, b)
    if k:
        rec.rule('X-take')
    return b


def x_f64(b, rec):
    b, k1 = re.subn(r'\(self\.metrics\.allocation_debt\(\) > 0\.0\)', 'self.metrics.debt_gt_zero()', b)
    b, k2 = re.subn(r'self\.metrics\.allocation_debt\(\) > 0\.0', 'self.metrics.debt_gt_zero()', b)
    if k1 or k2:
        rec.rule('X-f64')
    return b


def x_dropguard(b, rec):
    """mark_one's unwind guard: a struct declared inside the function with a `Drop` impl, created before the trace call and forgotten after it
    (`mem::forget(guard)` or a method of the guard whose body is `mem::forget(self)`).  The normal path (created, then forgotten) is a no-op;
    the Drop body is kept for the unwind variant.  Names of the type, its fields, the local and the disarm method are free."""
    m = re.search(r'struct (\w+)<\'a>\s*\{', b)
    if not m:
        return b, None
    G = m.group(1)
    i = b.index('{', m.end() - 1); j = match_close(b, i)
    fields = dict((f.strip(), t.strip()) for f, t in re.findall(r'(\w+)\s*:\s*([^,}]+)', b[i + 1:j]))
    cf = [f for f, t in fields.items() if 'Context' in t]
    pf = [f for f, t in fields.items() if t.startswith('GcPtr')]
    if len(fields) != 2 or len(cf) != 1 or len(pf) != 1:
        raise Unsupported('unwind guard `%s`: expected one `&mut Context` field and one `GcPtr` field' % G)
    cf, pf = cf[0], pf[0]
    b = b[:m.start()] + b[j + 1:]
    m = re.search(r'impl<\'a> Drop for %s<\'a>\s*\{' % G, b)
    if not m:
        raise Unsupported('unwind guard `%s` without Drop impl' % G)
    i = b.index('{', m.end() - 1); j = match_close(b, i)
    impl_body = b[i + 1:j]
    b = b[:m.start()] + b[j + 1:]
    _, dbody, _, _ = find_fn(impl_body, 'drop')
    dbody = dbody.strip()
    # optional inherent impl with disarm-style methods: fn NAME(self) { mem::forget(self); }
    disarm = []
    m = re.search(r'impl<\'a> %s<\'a>\s*\{' % G, b)
    if m:
        i = b.index('{', m.end() - 1); j = match_close(b, i)
        inh = b[i + 1:j]
        for fm in re.finditer(r'fn (\w+)\s*\(\s*self\s*\)\s*\{\s*(?:core::|std::)?mem::forget\(self\);?\s*\}', inh):
            disarm.append(fm.group(1))
        rest = re.sub(r'(?:#\[[^\]]*\]\s*)*fn (\w+)\s*\(\s*self\s*\)\s*\{\s*(?:core::|std::)?mem::forget\(self\);?\s*\}', '', inh)
        if rest.strip():
            raise Unsupported('unwind guard `%s` has methods other than disarm-style ones' % G)
        b = b[:m.start()] + b[j + 1:]
    m = re.search(r'let (\w+) = %s \{([^}]*)\};' % G, b)
    if not m:
        raise Unsupported('unwind guard construction shape changed')
    var = m.group(1)
    init = {}
    for part in [x.strip() for x in m.group(2).split(',') if x.strip()]:
        if ':' in part:
            k, v = part.split(':', 1); init[k.strip()] = v.strip()
        else:
            init[part] = part
    if set(init) != {cf, pf} or init[cf] not in ('self', '&mut *self'):
        raise Unsupported('unwind guard construction shape changed')
    b = b[:m.start()] + '/*@guard-created@*/' + b[m.end():]
    b = b.replace('%s.%s' % (var, cf), 'self')
    pat = r'(?:(?:core::|std::)?mem::forget\(%s\)|%s\.(?:%s)\(\));\n?' % (var, var, '|'.join(disarm) if disarm else '__none__')
    if len(re.findall(pat, b)) != 1:
        raise Unsupported('the unwind guard is not forgotten exactly once on the normal path')
    b = re.sub(pat, '/*@guard-forgotten@*/', b)
    guard_drop = dbody.replace('self.%s.' % cf, 'self.').replace('self.%s' % pf, init[pf])
    rec.rule('X-unwind(unwind guard `%s` dissolved; drop body kept for the unwind variant)' % G)
    return b, guard_drop


LEFTOVER = re.compile(r'\.header\(\)|UnsafeCell|\.get\(\)|\.set\(|transmute|\bas \*|PhaseGuard|\bcx\b|\bunsafe\b|(?<!\|)\|\w+\|(?!\|)|'
                      r'allocation_debt|DropGuard|mem::|\.update\(|\bthis\b')


def check_leftovers(key, b):
    left = LEFTOVER.findall(b)
    if left:
        raise Unsupported('%s: constructs outside the supported subset survive extraction: %s' % (key, sorted(set(left))))


def rewrite_sig(sig, rec):
    """Signature -> Verus exec signature (X-mut, X-gen)."""
    s = ' '.join(sig.split())
    s = re.sub(r'^(pub(\([a-z]+\))? )?(unsafe )?fn ', 'fn ', s)
    # drop generics after the name
    m = re.match(r'fn (\w+)\s*<', s)
    if m:
        i = s.index('<'); depth = 0; j = i
        while True:
            if s[j] == '<': depth += 1
            elif s[j] == '>':
                depth -= 1
                if depth == 0: break
            j += 1
        s = s[:i] + s[j + 1:]
        rec.rule('X-gen')
    s2 = re.sub(r',?\s*root: &R', '', s)
    if s2 != s:
        rec.rule('X-gen'); s = s2
    s2 = s.replace('(&self', '(&mut self')
    if s2 != s:
        rec.rule('X-mut'); s = s2
    s = re.sub(r',\s*\)', ')', s)
    m = re.search(r'\)\s*->\s*(.+)$', s)
    if m:
        s = s[:m.start()] + ') -> (r: %s)' % m.group(1).strip()
    return s


def apply_common(b, rec):
    b = x_guard(b, rec)
    b = x_take(b, rec)
    b = x_f64(b, rec)
    b = x_hdr(b, rec)
    b = x_cell(b, rec)
    b = x_vt(b, rec)
    b = x_opt(b, rec)
    b = x_dbg(b, rec)
    b = re.sub(r'self\.mark_one\(root\)', 'self.mark_one()', b)
    return b


# ----------------------------------------------------------------------------- per-file drivers

CONTEXT_FNS = ['root_barrier', 'gray_remaining', 'do_collection', 'link', 'backward_barrier', 'backward_barrier_weak',
               'forward_barrier', 'forward_barrier_weak', 'trace', 'trace_weak', 'upgrade', 'resurrect', 'mark_one',
               'sweep_one', 'make_gray_again']


def extract_enum(src, name, rec):
    m = re.search(r'((?:#\[[^\]]*\]\s*)*)pub(?:\(crate\))? enum %s\s*\{' % name, src)
    if not m:
        raise LostAnchor('enum ' + name)
    i = src.index('{', m.end() - 1); j = match_close(src, i)
    body = src[i + 1:j]
    variants = [v.strip() for v in body.split(',') if v.strip()]
    for v in variants:
        if not re.match(r'^\w+$', v):
            raise Unsupported('enum %s: variant with payload or discriminant: %s' % (name, v))
    derives = re.findall(r'derive\(([^)]*)\)', m.group(1))
    dl = [d.strip() for d in ','.join(derives).split(',') if d.strip()]
    return variants, dl


def context_impl(src):
    """Text of `impl Context { ... }` (the inherent impl, not the trait impls)."""
    m = re.search(r'\nimpl Context \{', src)
    if not m:
        raise LostAnchor('impl Context')
    i = src.index('{', m.start()); j = match_close(src, i)
    return src[i + 1:j]


KNOWN_ACCESSORS = {'new', 'mutation_context', 'finalization_context', 'metrics', 'phase'}
GUARD_FNS = {'enter', 'switch', 'log_progress', 'span_for'}


def guard_helpers(src):
    """X-inline for `impl PhaseGuard`: a private method of the guard other than enter / switch / log_progress / span_for (e.g. an extracted
    'begin_sweep') is moved into `impl Context` with `self.cx.` -> `self.`, where inline_helpers then inlines it at its `cx.h(..)` call sites."""
    m = re.search(r"\nimpl<'a> PhaseGuard<'a>\s*\{", src)
    if not m:
        return ''
    i = src.index('{', m.end() - 1); j = match_close(src, i)
    blk = src[i + 1:j]
    out = ''
    for n in re.findall(r'\n    (?:#\[[^\]]*\]\s*)*(?:pub(?:\([a-z]+\))? )?fn (\w+)', blk):
        if n in GUARD_FNS:
            continue
        sig, body, st, en = find_fn(blk, n)
        out += '\n    ' + ' '.join(sig.split()) + ' {' + body.replace('self.cx.', 'self.') + '}\n'
    return out


def inline_helpers(impl, rec_notes):
    """X-inline: a private helper method of `impl Context` that the contracts do not speak about (e.g. produced by an 'extract method'
    refactoring) is inlined at its call sites: `self.h(a, b);` -> `{ let p = a; let q = b; BODY }`.  Only for helpers without `return`,
    called as statements; anything else is Unsupported.  Returns (impl text with helpers removed and calls inlined, [names])."""
    names = re.findall(r'\n    (?:#\[[^\]]*\]\s*)*(?:pub(?:\([a-z]+\))? )?(?:unsafe )?fn (\w+)', impl)
    unknown = [n for n in names if n not in CONTEXT_FNS and n not in KNOWN_ACCESSORS]
    done = []
    for h in unknown:
        sig, body, st, en = find_fn(impl, h)
        m = re.search(r'fn %s\s*\(([^)]*)\)\s*(->\s*[^{]+)?$' % h, ' '.join(sig.split()))
        if not m or re.search(r'\breturn\b', body):
            raise Unsupported('impl Context has a helper `%s` the contracts do not speak about and that cannot be inlined' % h)
        is_expr = bool(m.group(2))
        if is_expr and ';' in body.strip().rstrip(';'):
            raise Unsupported('helper `%s` returns a value and is not a single expression: cannot be inlined' % h)
        params = [p.strip() for p in m.group(1).split(',') if p.strip()]
        is_method = bool(params) and re.match(r'&(mut )?self$', params[0])
        pn = [p.split(':')[0].strip() for p in (params[1:] if is_method else params)]
        # remove the helper (and its attributes)
        a0 = st
        while True:
            pre = impl[:a0].rstrip()
            am = re.search(r'#\[[^\]]*\]$', pre)
            if not am:
                break
            a0 = am.start()
        impl = impl[:a0] + impl[en:]
        # a helper passed by name to Option::map: `.map(Self::h)` -> `.map(|x| Self::h(x))`
        impl = re.sub(r'\.map\(Self::%s\)' % h, '.map(|hx| Self::%s(hx))' % h, impl)
        callre = re.compile(r'\b(?:self\.|Self::|cx\.)%s\(' % h)
        while True:
            cm = callre.search(impl)
            if not cm:
                break
            i = cm.end() - 1
            j = match_close(impl, i, '(', ')')
            args = [x.strip() for x in re.split(r',(?![^()]*\))', impl[i + 1:j]) if x.strip()]
            if len(args) != len(pn):
                raise Unsupported('helper `%s`: call shape outside the supported subset' % h)
            lets = ' '.join('let %s = %s;' % (p, a) for p, a in zip(pn, args))
            flat = ' '.join(body.split())
            if is_expr:
                impl = impl[:cm.start()] + '({ ' + lets + ' ' + flat + ' })' + impl[j + 1:]
            else:
                if not impl[j + 1:].lstrip().startswith(';'):
                    raise Unsupported('helper `%s`: call shape outside the supported subset' % h)
                k = impl.index(';', j)
                impl = impl[:cm.start()] + '{ ' + lets + ' ' + flat + ' }' + impl[k + 1:]
        done.append(h)
    return impl, done


def extract_context(path, rec):
    """Returns dict key -> dict(sig, body, hoisted, guard_drop)."""
    raw = open(path).read()
    src = strip_comments(raw)
    out = {}
    INERT.clear(); INERT.update(find_inert(src))
    mp = os.path.join(os.path.dirname(path), 'metrics.rs')
    if os.path.exists(mp):
        INERT.update(find_inert(strip_comments(open(mp).read())))
    INERT.difference_update(CONTEXT_FNS); INERT.difference_update(['drop', 'enter', 'switch'])
    impl = context_impl(src) + guard_helpers(src)
    impl, inlined = inline_helpers(impl, rec)
    # An inlined helper is verified only where the contracted functions call it.  If anything ELSE calls it (a wrapper in this file, another
    # file), that call runs code no contract speaks about: new code must not hide behind the inlining rule (DESIGN 2.6).
    if inlined:
        spans = [(m.group(1), m.start()) for m in re.finditer(r'\bfn (\w+)', src)]
        def encl(pos):
            cur = '?'
            for n, st in spans:
                if st <= pos: cur = n
                else: break
            return cur
        ok_callers = set(CONTEXT_FNS) | set(inlined) | {'drop'}
        for h in inlined:
            outside = sorted({encl(m.start()) for m in re.finditer(r'(?:\.|Self::|Context::)%s\(' % h, src)} - ok_callers - {h})
            for f in sorted(os.listdir(os.path.dirname(path))):
                if f.endswith('.rs') and f != os.path.basename(path):
                    if re.search(r'\.%s\(' % h, strip_comments(open(os.path.join(os.path.dirname(path), f)).read())) and re.search(r'pub(?:\([a-z]+\))?\s+(?:unsafe\s+)?fn %s\b' % h, src):
                        outside.append(f)
            if outside:
                raise Unsupported('impl Context has a function `%s` the contracts do not speak about, and it is called from outside the verified functions (%s)' % (h, outside))
    for fn in CONTEXT_FNS:
        key = 'context.' + fn
        rec.begin(key, 'src/context.rs::impl Context::' + fn)
        sig, body, _, _ = find_fn(impl, fn, 'Context::' + fn)
        body = dedent(body, 4)
        for h in inlined:
            if ('let ' in body) and re.search(r'\{ (let \w+ = [^;]+; )+', body) and h:
                pass
        if inlined:
            rec.cur.setdefault('inlined_helpers', inlined)
        guard_drop = None
        if fn == 'mark_one':
            body, guard_drop = x_dropguard(body, rec)
        body, hoisted = x_nested(body, fn, rec)
        body = apply_common(body, rec)
        hs = []
        for (hn, arg, hb) in hoisted:
            hb = apply_common(dedent(hb, 8), rec)
            check_leftovers(key + '/' + hn, hb)
            hs.append((hn, arg, squeeze(hb)))
        check_leftovers(key, body.replace('/*@guard-forgotten@*/', '').replace('/*@guard-created@*/', ''))
        out[key] = {'sig': rewrite_sig(sig, rec), 'body': squeeze(body), 'hoisted': hs, 'guard_drop': guard_drop}
        rec.cur['text'] = out[key]['body']

    # ---- impl Drop for Context (X-dropall)
    key = 'context.drop'
    rec.begin(key, 'src/context.rs::impl Drop for Context::drop')
    _, i, j = find_block(src, r'\nimpl Drop for Context\s*\{', 'impl Drop for Context')
    _, dbody, _, _ = find_fn(src[i + 1:j], 'drop')
    # the local guard type: a struct with a `&Metrics` field and an `Option<GcPtr>` field (tuple or named fields, any names)
    m = re.search(r"struct (\w+)<'a>\s*(\(([^)]*)\)\s*;|\{([^}]*)\})", dbody)
    if not m:
        raise Unsupported('Drop for Context: no local guard struct found')
    G = m.group(1)
    if m.group(3) is not None:
        tys = [t.strip() for t in m.group(3).split(',') if t.strip()]
        names = [str(k) for k in range(len(tys))]
    else:
        parts = [x.strip() for x in m.group(4).split(',') if x.strip()]
        names = [x.split(':')[0].strip() for x in parts]; tys = [x.split(':', 1)[1].strip() for x in parts]
    mf = [n for n, t in zip(names, tys) if 'Metrics' in t]; hf = [n for n, t in zip(names, tys) if t.replace(' ', '') == 'Option<GcPtr>']
    if len(names) != 2 or len(mf) != 1 or len(hf) != 1:
        raise Unsupported('Drop for Context: guard struct `%s` changed shape' % G)
    MF, HF = mf[0], hf[0]
    _, gi, gj = find_block(dbody, r"impl<'a> Drop for %s<'a>\s*\{" % G, 'impl Drop for the guard struct')
    _, gbody, _, _ = find_fn(dbody[gi + 1:gj], 'drop')
    outer = dbody[:m.start()] + dbody[gj + 1:]
    outer = dedent(outer.replace(m.group(0), ''), 8)
    # construction in the outer function: `G(&cx.metrics, cx.all.get());`  or  `let v = G { m: &cx.metrics, h: cx.all.get() }; drop(v);`
    m2 = re.search(r'%s\(&cx\.metrics, cx\.all\.get\(\)\);' % G, outer)
    if not m2:
        m2 = re.search(r'let (\w+) = %s \{\s*%s: &cx\.metrics,\s*%s: cx\.all\.get\(\),?\s*\};\s*drop\(\1\);' % (G, MF, HF), outer)
    if not m2:
        raise Unsupported('Drop for Context: guard construction changed shape')
    outer = outer.replace(m2.group(0), 'let mut cursor = self.all;\n/*@DROPALL-LOOP@*/')
    # inner: take the head (if-let or let-else), optional alias of the metrics reference, the resume guard, the loop over its head
    g = gbody
    m3 = re.search(r'if let Some\((\w+)\) = self\.%s\.take\(\)\s*\{' % HF, g)
    if m3:
        k0 = g.index('{', m3.start()); k1 = match_close(g, k0)
        if g[k1 + 1:].strip():
            raise Unsupported('guard drop has statements after the resume wrapper')
        first, inner = m3.group(1), g[k0 + 1:k1]
    else:
        m3 = re.search(r'let Some\((\w+)\) = self\.%s\.take\(\) else \{\s*return;?\s*\};' % HF, g)
        if not m3 or g[:m3.start()].strip():
            raise Unsupported('guard drop wrapper changed shape')
        first, inner = m3.group(1), g[m3.end():]
    alias = None
    ma = re.search(r'let (\w+) = self\.%s;' % MF, inner)
    if ma:
        alias = ma.group(1); inner = inner.replace(ma.group(0), '', 1)
    mref = alias if alias else 'self.%s' % MF
    mr = re.search(r'let mut (\w+) = %s\(%s, Some\(%s\)\);' % (G, re.escape(mref), first), inner)
    if not mr:
        mr = re.search(r'let mut (\w+) = %s \{\s*(?:%s: %s|%s),\s*%s: Some\(%s\),?\s*\};' % (G, MF, re.escape(mref), MF if alias == MF else '(?!)', HF, first), inner)
    if not mr or inner[:mr.start()].strip():
        raise Unsupported('guard drop: resume guard construction changed shape')
    R = mr.group(1)
    loop_txt = inner[mr.end():]
    # `loop { let Some(mut p) = R.h.take() else { break; }; BODY }`  ==  `while let Some(mut p) = R.h.take() { BODY }`
    ml = re.search(r'loop\s*\{\s*let Some\((mut \w+|\w+)\) = %s\.%s\.take\(\) else \{\s*break;?\s*\};' % (R, HF), loop_txt)
    if ml:
        k0 = loop_txt.index('{', ml.start()); k1 = match_close(loop_txt, k0)
        loop_txt = loop_txt[:ml.start()] + 'while let Some(%s) = %s.%s.take() {' % (ml.group(1), R, HF) + loop_txt[ml.end():k1] + '}' + loop_txt[k1 + 1:]
    if not re.search(r'while let Some\((?:mut )?\w+\) = %s\.%s\.take\(\)' % (R, HF), loop_txt):
        raise Unsupported('guard drop: loop over the resume guard changed shape')
    loop_txt = loop_txt.replace('%s.%s' % (R, HF), 'cursor')
    loop_txt = re.sub(r'\b%s\.' % re.escape(mref), 'self.metrics.', loop_txt) if not alias else re.sub(r'\b%s\.' % alias, 'self.metrics.', loop_txt)
    loop_txt = dedent(loop_txt, 16)
    rec.rule('X-dropall')
    rec.drop('DropAll guard struct (resume after a panicking destructor): not modelled, destructor panics are outside C04/C11')
    body = outer.replace('/*@DROPALL-LOOP@*/', loop_txt.strip('\n'))
    body = apply_common(body, rec)
    check_leftovers(key, body)
    out[key] = {'sig': 'fn drop(&mut self)', 'body': squeeze(body), 'hoisted': [], 'guard_drop': None}
    rec.cur['text'] = out[key]['body']

    # ---- inventory facts used by the checks (2.6)
    inv = {}
    inv['phase_assignments'] = []
    for m in re.finditer(r'(\w+(?:\.\w+)*)\.phase\s*=[^=]', src):
        # enclosing fn
        pre = src[:m.start()]
        fns = re.findall(r'fn (\w+)', pre)
        inv['phase_assignments'].append(fns[-1] if fns else '?')
    inv['context_fns'] = re.findall(r'\n    (?:#\[[^\]]*\]\s*)*(?:pub(?:\(crate\))? )?(?:unsafe )?fn (\w+)', impl)
    m = re.search(r'pub\(crate\) struct Context\s*\{', src)
    i = src.index('{', m.start()); j = match_close(src, i)
    inv['context_fields'] = re.findall(r'\n\s*(?:#\[[^\]]*\]\s*)*(\w+):', src[i:j])
    return out, inv


COUNTERS = ('total_gcs', 'allocated_gcs', 'dropped_gcs', 'freed_gcs', 'marked_gcs', 'traced_gcs', 'remembered_gcs')
METRICS_FNS = ['mark_gc_allocated', 'mark_gc_dropped', 'mark_gc_freed', 'mark_gc_marked', 'mark_gc_traced', 'mark_gc_untraced',
               'mark_gc_remembered', 'total_gc_count', 'finish_cycle']


def extract_metrics(path, rec):
    raw = open(path).read()
    src = strip_comments(raw)
    _, i, j = find_block(src, r'\nimpl Metrics\s*\{', 'impl Metrics')
    impl = src[i + 1:j]
    out = {}
    for fn in METRICS_FNS:
        key = 'metrics.' + fn
        rec.begin(key, 'src/metrics.rs::impl Metrics::' + fn)
        try:
            sig, body, _, _ = find_fn(impl, fn, 'Metrics::' + fn)
        except LostAnchor:
            # a counter helper that no longer exists is simply absent from the generated file: if extracted code
            # still calls it the run is undecided (compile error -> exit 2); otherwise the callers' contracts decide
            rec.cur['absent'] = True
            continue
        body = dedent(body, 4)
        # X-alias: `let inner = &*self.0;` / `let c = &self.0.total_gcs;` - a shared reference to the metrics cell(s) under a local name
        for am in list(re.finditer(r'let (\w+) = &\*?(self\.0(?:\.\w+)?);[ \t]*\n?', body)):
            body = body.replace(am.group(0), '', 1)
            body = re.sub(r'\b%s\.' % am.group(1), am.group(2) + '.', body)
            rec.rule('X-alias')
        if fn == 'finish_cycle':
            # X-f64: statements of the float part are replaced by ONE shim call; the counter resets are kept
            stmts = [s.strip() for s in re.split(r';\s*\n', body) if s.strip()]
            kept, dropped = [], []
            for s in stmts:
                s1 = s.rstrip(';')
                m = re.match(r'self\.0\.(\w+)\.set\((.*)\)$', s1, re.S)
                if m and m.group(1) in COUNTERS:
                    kept.append('self.%s = %s;' % (m.group(1), m.group(2)))
                else:
                    dropped.append(' '.join(s1.split()))
            if not dropped:
                raise Unsupported('Metrics::finish_cycle: no float part found')
            for d in dropped:
                rec.drop('float statement (decided by Kani rows K.debt.*): ' + d)
            rec.rule('X-f64'); rec.rule('X-cell')
            body = 'self.finish_cycle_floats(reset_debt);\n' + '\n'.join(kept)
        else:
            def upd(m):
                fld, x, e = m.group(1), m.group(2), m.group(3).strip()
                mm = re.match(r'^%s ([+-]) (\w+)$' % x, e)
                if not mm or fld not in COUNTERS:
                    raise Unsupported('Metrics::%s: counter update outside the supported subset: %s' % (fn, m.group(0)))
                f = 'counter_add' if mm.group(1) == '+' else 'counter_sub'
                return 'self.%s = %s(self.%s, %s);' % (fld, f, fld, mm.group(2))
            def getset(m):
                fld, fld2, op, e = m.group(1), m.group(2), m.group(3), m.group(4)
                if fld != fld2 or fld not in COUNTERS or not re.match(r'^\w+$', e):
                    raise Unsupported('Metrics::%s: counter update outside the supported subset: %s' % (fn, m.group(0)))
                return 'self.%s = %s(self.%s, %s);' % (fld, 'counter_add' if op == '+' else 'counter_sub', fld, e)
            body, k0 = re.subn(r'self\.0\.(\w+)\.set\(self\.0\.(\w+)\.get\(\) ([+-]) (\w+)\);', getset, body)
            if k0:
                rec.rule('X-cell')
            body, k = re.subn(r'self\.0\.(\w+)\.update\(\|(\w+)\|([^)]*)\);', upd, body)
            body, k2 = re.subn(r'self\.0\.(\w+)\.get\(\)', r'self.\1', body)
            if k or k2:
                rec.rule('X-cell')
        check_leftovers(key, body)
        if re.search(r'self\.0\b', body):
            raise Unsupported('%s: leftover self.0' % key)
        out[key] = {'sig': rewrite_sig(sig, rec), 'body': squeeze(body), 'hoisted': [], 'guard_drop': None}
        rec.cur['text'] = out[key]['body']
    return out


SLOTS_FNS = ['new', 'add', 'inc', 'dec']


def extract_slots(path, rec):
    raw = open(path).read()
    src = strip_comments(raw)
    _, i, j = find_block(src, r"\nimpl<'gc> Slots<'gc>\s*\{", "impl Slots")
    impl = src[i + 1:j]
    out = {}
    for fn in SLOTS_FNS:
        key = 'slots.' + fn
        rec.begin(key, 'src/dynamic_roots.rs::impl Slots::' + fn)
        sig, body, _, _ = find_fn(impl, fn, 'Slots::' + fn)
        body = dedent(body, 4)
        # X-cell (plain field): mem::replace(&mut PATH, V) -> { let old = PATH; PATH = V; old }   (PATH a Copy field)
        while True:
            rm = re.search(r'(?:core::|std::)?mem::replace\(&mut ((?:\w+\.)*\w+),\s*', body)
            if not rm:
                break
            i0 = body.index('(', rm.start()); j0 = match_close(body, i0, '(', ')')
            body = body[:rm.start()] + '({ let mr_old = %s; %s = %s; mr_old })' % (rm.group(1), rm.group(1), body[rm.end():j0].strip()) + body[j0 + 1:]
            rec.rule('X-cell(mem::replace on a plain field)')
        sig = ' '.join(sig.split()).replace("Gc<'gc, ()>", 'GcRef')
        rec.rule("X-gen('gc dropped; Gc<'gc, ()> -> opaque GcRef)")
        s = sig
        m = re.search(r'\)\s*->\s*(.+)$', s)
        if m:
            s = s[:m.start()] + ') -> (r: %s)' % m.group(1).strip()
        out[key] = {'sig': s, 'body': squeeze(body), 'hoisted': [], 'guard_drop': None}
        rec.cur['text'] = out[key]['body']
    # the data declarations, verbatim modulo 'gc
    m = re.search(r"\nenum Slot<'gc>\s*\{", src)
    if not m:
        raise LostAnchor('enum Slot')
    i = src.index('{', m.start()); j = match_close(src, i)
    slot_decl = src[m.start():j + 1]
    m = re.search(r"\nstruct Slots<'gc>\s*\{", src)
    if not m:
        raise LostAnchor('struct Slots')
    i = src.index('{', m.start()); j = match_close(src, i)
    slots_decl = src[m.start():j + 1]
    m = re.search(r'const NULL_INDEX: Index = ([^;]+);', src)
    if not m:
        raise LostAnchor('NULL_INDEX')
    out['slots.decls'] = {'slot': slot_decl, 'slots': slots_decl, 'null_index': m.group(1).strip()}
    return out


if __name__ == '__main__':
    import sys, json
    rec = Record()
    fns, inv = extract_context(sys.argv[1] + '/src/context.rs', rec)
    fns.update(extract_metrics(sys.argv[1] + '/src/metrics.rs', rec))
    for k, v in fns.items():
        print('=' * 20, k)
        print(v['sig'], '{')
        print(v['body'])
        print('}')
        for h in v['hoisted']:
            print('  hoisted:', h)
        if v['guard_drop']:
            print('  guard_drop:', v['guard_drop'])
    print(json.dumps(inv, indent=1))
    for k, v in rec.functions.items():
        print(k, v['rules'], v['dropped'], v['dbg_obligations'])
