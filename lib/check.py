#!/usr/bin/env python3
"""bin/check <PROPERTY> [--tier quick|thorough]  (DESIGN.md section 8)

Steps: snapshot /repo's working tree -> inventory -> extract + Verus (Layer V + L) -> overlay + Kani (Layer K)
-> verdict per row -> known-findings filter -> evidence -> remove scratch.

Exit 0: every row serving the property discharged (or matched by a listed known finding).
Exit 1: a row that the table says must hold fails -> one `VIOLATION property=<ID> replay=<path>` line per failed row.
Exit 2: undecided (lost anchor, unsupported construct, tool failure, timeout, unlisted assumption) - never a VIOLATION line.
"""
import argparse, json, os, re, shutil, subprocess, sys, time, hashlib

HERE = os.path.dirname(os.path.abspath(__file__))
VERIF = os.path.abspath(os.path.join(HERE, '..'))
sys.path.insert(0, HERE)
sys.path.insert(0, os.path.join(VERIF, 'contracts'))
import extract, gen_verus, table
from extract import Unsupported, LostAnchor

REPO = os.environ.get('VERIF_REPO', '/repo')
SCRATCH_ROOT = os.environ.get('VERIF_SCRATCH', '/var/tmp')
VERUS_RLIMIT = os.environ.get('VERIF_VERUS_RLIMIT', '150')
NPROC = os.cpu_count() or 8


from common import Undecided, run_group


def log(*a):
    print(*a, file=sys.stderr, flush=True)


# ------------------------------------------------------------------------------------------------ snapshot
def snapshot(scratch):
    dst = os.path.join(scratch, 'repo')
    os.makedirs(dst, exist_ok=True)
    r = subprocess.run(['rsync', '-a', '--delete', '--exclude', '/target', '--exclude', '/.git', REPO + '/', dst + '/'], capture_output=True, text=True)
    if r.returncode != 0:
        raise Undecided('snapshot failed: ' + r.stderr)
    # Every source file of the snapshot gets the current time: cargo decides freshness by mtime, and a tree whose files carry OLD mtimes
    # (restored from an archive, copied with preserved times) must never be served from artefacts that a previous run built from different
    # text at the same path.  (Found in a development helper: a proc-macro crate built from a seeded change was reused for the unchanged tree.)
    now = time.time()
    for root, dirs, files in os.walk(dst):
        if '/target' in root:
            continue
        for f in files:
            if f.endswith(('.rs', '.toml', '.lock')):
                try:
                    os.utime(os.path.join(root, f), (now, now))
                except OSError:
                    pass
    return dst


def tree_hash(repo):
    h = hashlib.sha256()
    for root, dirs, files in os.walk(os.path.join(repo, 'src')):
        dirs.sort()
        for f in sorted(files):
            p = os.path.join(root, f)
            h.update(p[len(repo):].encode()); h.update(open(p, 'rb').read())
    return h.hexdigest()[:16]


# ------------------------------------------------------------------------------------------------ Verus
def lemma_rows(g):
    """one row per proof fn / broadcast lemma of the lemma layer: L.<module>.<fn>"""
    rows, cur_mod = {}, None
    for key, (a, b) in g.fnspan.items():
        if not key.startswith('file:'):
            continue
        cur_fn = None
        for ln in range(a, b + 1):
            line = g.lines[ln - 1]
            m = re.match(r'\s*pub mod (\w+)', line)
            if m:
                cur_mod = m.group(1)
            m = re.match(r'\s*pub (?:broadcast )?(?:proof|axiom) fn (\w+)', line)
            if m:
                cur_fn = m.group(1)
                rid = 'L.%s.%s' % (cur_mod, cur_fn)
                rows[rid] = dict(serves=table.lemma_serves(cur_mod, cur_fn), kind='verus-lemma', fn='%s::%s' % (cur_mod, cur_fn), text=line.strip())
            if cur_fn:
                g.rowmap.setdefault(ln, 'L.%s.%s' % (cur_mod, cur_fn))
    return rows


def run_verus(path, seed, extra=(), timeout=900):
    cmd = ['verus', path, '--rlimit', VERUS_RLIMIT, '--multiple-errors', '20', '--triggers-mode', 'silent',
           '--error-format=json', '--output-json', '--time-expanded', '--num-threads', str(min(NPROC, 16))]
    if seed:
        cmd += ['--smt-option', 'smt.random_seed=%d' % (seed % 100000)]
    cmd += list(extra)
    t0 = time.time()
    try:
        r = run_group(cmd, timeout, cwd=os.path.dirname(path))
    except subprocess.TimeoutExpired:
        raise Undecided('verus timed out after %ds' % timeout)
    wall = time.time() - t0
    diags = []
    for line in r.stderr.splitlines():
        line = line.strip()
        if line.startswith('{'):
            try:
                diags.append(json.loads(line))
            except Exception:
                pass
    try:
        summary = json.loads(r.stdout[r.stdout.index('{'):])
    except Exception:
        raise Undecided('verus produced no JSON summary; stderr tail: ' + r.stderr[-1500:])
    return cmd, summary, diags, wall, r.stderr


def attribute(g, diags):
    """map Verus diagnostics to rows. Returns dict row -> list of messages; raises Undecided on non-verification errors."""
    failed = {}
    for d in diags:
        if d.get('level') != 'error':
            continue
        msg = d.get('message', '')
        if msg.startswith('aborting due to'):
            continue
        spans = d.get('spans', [])
        lines = []
        for sp in spans:
            for ln in range(sp['line_start'], sp['line_end'] + 1):
                lines.append((ln, sp.get('is_primary', False), sp.get('label') or ''))
        vmsgs = ('postcondition not satisfied', 'precondition not satisfied', 'assertion failed', 'invariant not satisfied',
                 'loop invariant not satisfied', 'possible arithmetic', 'possible division', 'decreases not satisfied',
                 'could not prove termination', 'rlimit', 'recommendation not met', 'loop must have a decreases clause')
        if not any(v in msg for v in vmsgs):
            raise Undecided('verus reported a non-verification error (extraction outside the supported subset, or tool error): %s @ %s'
                            % (msg, [(s['line_start']) for s in spans][:3]))
        if 'rlimit' in msg or 'Resource limit' in msg:
            raise Undecided('verus hit the resource limit: ' + msg)
        rows = [g.rowmap.get(ln) for (ln, _, _) in lines if g.rowmap.get(ln)]
        clause = [r for r in rows if not r.endswith('.body')]
        # a failed *callee precondition* is an obligation of the calling body, not of the clause it is written in
        if 'precondition not satisfied' in msg:
            prim = [g.rowmap.get(ln) for (ln, p, _) in lines if p and g.rowmap.get(ln)]
            chosen = prim[:1] or rows[:1]
        else:
            chosen = clause or rows[:1]
        if not chosen:
            raise Undecided('verus error at unmapped lines %s: %s' % ([l for (l, _, _) in lines][:4], msg))
        for r in set(chosen):
            failed.setdefault(r, []).append(d.get('rendered') or msg)
    return failed


def verus_unit(name, g, rec, scratch, seed, with_lemmas):
    if with_lemmas:
        g.rows.update(lemma_rows(g))
    path = os.path.join(scratch, name + '.rs')
    open(path, 'w').write(g.text())
    cmd, summary, diags, wall, raw = run_verus(path, seed)
    failed = attribute(g, diags)
    retries = []
    if failed:
        # A proof found under ANY solver seed is a proof; a real violation fails under every seed.  So a row only counts as failed if it
        # fails under three different seeds (this removes solver-seed instability as a source of false alarms, soundly).
        for extra_seed in (seed + 7919, seed + 104729):
            _, s2, d2, w2, _ = run_verus(path, extra_seed)
            f2 = attribute(g, d2)
            retries.append(dict(seed=extra_seed, failed=sorted(f2)))
            wall += w2
            failed = {r: m for r, m in failed.items() if r in f2}
            if not failed:
                summary = s2
                break
    vr = summary.get('verification-results', {})
    if vr.get('encountered-vir-error'):
        raise Undecided('verus: VIR error (generated file does not compile): ' + raw[-1500:])
    if not failed and not retries and not vr.get('success', False) and vr.get('errors', 0) == 0:
        raise Undecided('verus did not succeed and reported no verification error: ' + raw[-1500:])
    if not failed and (vr.get('verified', 0) == 0):
        raise Undecided('verus verified nothing (obligation count is zero)')
    times = {}
    for m in summary.get('times-ms', {}).get('smt', {}).get('smt-run-module-times', []):
        for f in m.get('function-breakdown', []):
            times[f['function']] = dict(ms=f['time-micros'] // 1000, rlimit=f.get('rlimit'), ok=f.get('success'))
    # vacuity guard: the `ensures false` twin of every extracted function must be REJECTED
    vac = vacuity_twin(g, scratch, seed, name)
    if with_lemmas and os.environ.get('VERIF_TIER_EFFECTIVE') == 'thorough':
        vac['lemma_layer'] = lemma_vacuity_twins(g, scratch, seed, name)
    return dict(g=g, rec=rec, failed=failed, summary=vr, wall=wall, cmd=' '.join(cmd), times=times, vacuity=vac, seed_retries=retries,
                smt_ms=summary.get('times-ms', {}).get('smt', {}).get('total'))


def verus_layer(repo, scratch, seed, tier, pid):
    units = {}
    try:
        g, rec, inventory = gen_verus.generate(repo, table.V)
        units['collector'] = verus_unit('collector', g, rec, scratch, seed, True)
        units['collector']['inventory'] = inventory
        if pid in table.SLOTS_PROPS:
            import gen_slots
            g2, rec2 = gen_slots.generate(repo)
            units['slots'] = verus_unit('slots', g2, rec2, scratch, seed, True)
    except LostAnchor as e:
        raise Undecided('lost anchor: %s (a function the contracts speak about no longer exists under that name)' % e)
    except Unsupported as e:
        raise Undecided('extractor: %s' % e)
    # merge
    out = dict(units=units, failed={}, rows={}, inventory=units['collector']['inventory'])
    for u in units.values():
        out['failed'].update(u['failed']); out['rows'].update(u['g'].rows)
    out['cmd'] = '; '.join(u['cmd'] for u in units.values())
    return out


def vacuity_twin(g, scratch, seed, name='collector'):
    """For every extracted function emit a twin `<name>__vac` with the same requires and body and `ensures false`, next to the
    original (so callees keep their real contracts); every twin must be REJECTED (a contradictory requires would make it pass)."""
    lines = list(g.lines)
    inserts = []          # (after_line, [twin lines], name)
    for key, (a, b) in g.fnspan.items():
        if key.startswith('file:'):
            continue
        # split the span into individual fns (main fn + hoisted nested fns + unwind variants)
        starts = [ln for ln in range(a, b + 1) if re.match(r'    (?:#\[[^\]]*\]\s*)?fn \w+', lines[ln - 1])]
        for si, st in enumerate(starts):
            en = (starts[si + 1] - 1) if si + 1 < len(starts) else b
            # function ends at the last line that is exactly '    }' within [st, en]
            ends = [ln for ln in range(st, en + 1) if lines[ln - 1] == '    }']
            if not ends:
                continue
            en = ends[-1]
            blk = lines[st - 1:en]
            name = re.match(r'    (?:#\[[^\]]*\]\s*)?fn (\w+)', blk[0]).group(1)
            out, k = [], 0
            out.append(re.sub(r'fn %s\(' % name, 'fn %s__vac(' % name, blk[0]))
            k = 1
            while k < len(blk) and blk[k].strip() != 'ensures':
                out.append(blk[k]); k += 1
            if k == len(blk):
                continue
            out.append('        ensures false,')
            k += 1
            while blk[k].strip() != '{' and not blk[k].strip().startswith('decreases'):
                k += 1
            out += blk[k:]
            attrs = []
            if st >= 2 and lines[st - 2].strip().startswith('#['):
                attrs = [lines[st - 2]]
            inserts.append((en, attrs + out, name + '__vac'))
    inserts.sort(key=lambda x: -x[0])
    for (after, tw, name) in inserts:
        lines[after:after] = tw
    text = '\n'.join(lines) + '\n'
    path = os.path.join(scratch, name + '_vacuity.rs')
    open(path, 'w').write(text)
    cmd = ['verus', path, '--rlimit', '2', '--multiple-errors', '0', '--triggers-mode', 'silent', '--error-format=json', '--output-json', '--time-expanded', '--verify-root',
           '--verify-function', '*__vac', '--num-threads', str(min(NPROC, 16))]
    try:
        r = run_group(cmd, 600, cwd=scratch)
    except subprocess.TimeoutExpired:
        raise Undecided('vacuity twin timed out')
    try:
        full = json.loads(r.stdout[r.stdout.index('{'):])
    except Exception:
        raise Undecided('vacuity twin: no JSON summary: ' + r.stderr[-800:])
    seen = {}
    for m in full.get('times-ms', {}).get('smt', {}).get('smt-run-module-times', []):
        for f in m.get('function-breakdown', []):
            if f['function'].endswith('__vac'):
                seen[f['function'].split('::')[-1]] = f.get('success')
    names = [nm for (_, _, nm) in inserts]
    missing = [nm for nm in names if nm not in seen]
    accepted = [nm for nm in names if seen.get(nm)]
    if missing or accepted:
        raise Undecided('vacuity guard: `ensures false` twins: %d emitted, accepted: %s, not checked: %s' % (len(names), accepted, missing))
    return dict(twins=len(names), all_rejected=True)


def lemma_vacuity_twins(g, scratch, seed, name):
    """Thorough tier: every lemma / theorem of the lemma layer gets a twin with the same requires and proof body and `ensures false`; each
    must be REJECTED (a lemma whose hypotheses are contradictory would prove anything, and every theorem built on it would be vacuous)."""
    lines = list(g.lines)
    inserts = []
    for key, (a, b) in g.fnspan.items():
        if not key.startswith('file:'):
            continue
        ln = a
        while ln <= b:
            m = re.match(r'pub (broadcast )?proof fn (\w+)\s*(<[^>]*>)?\(', lines[ln - 1])
            if not m:
                ln += 1; continue
            st = ln
            # function end by brace matching from the first line that is exactly '{'
            ob = st
            while lines[ob - 1] != '{':
                ob += 1
            text = '\n'.join(lines[ob - 1:b])
            close = extract.match_close(text, 0)
            en = ob + text[:close].count('\n')
            blk = lines[st - 1:en]
            nm = m.group(2)
            out = [re.sub(r'pub (broadcast )?proof fn %s' % nm, 'pub proof fn %s__vac' % nm, blk[0])]
            k = 1
            # keep everything up to `ensures`, replace the ensures clauses (they end at the line that is exactly '{')
            hdr_has_ens = 'ensures' in blk[0]
            while k < len(blk) and not blk[k].lstrip().startswith('ensures') and blk[k] != '{':
                out.append(blk[k]); k += 1
            if k < len(blk) and blk[k].lstrip().startswith('ensures') and not hdr_has_ens:
                out.append('    ensures false,')
                k += 1
                while blk[k] != '{' and not blk[k].lstrip().startswith('decreases'):
                    k += 1
                out += blk[k:]
                inserts.append((en, out, nm + '__vac'))
            ln = en + 1
    inserts.sort(key=lambda x: -x[0])
    for (after, tw, nm) in inserts:
        lines[after:after] = tw
    path = os.path.join(scratch, name + '_lemma_vacuity.rs')
    open(path, 'w').write('\n'.join(lines) + '\n')
    cmd = ['verus', path, '--rlimit', '4', '--multiple-errors', '0', '--triggers-mode', 'silent', '--error-format=json', '--output-json', '--time-expanded',
           '--num-threads', str(min(NPROC, 16))]
    try:
        r = run_group(cmd, 1800, cwd=scratch)
    except subprocess.TimeoutExpired:
        raise Undecided('lemma vacuity twins timed out')
    try:
        full = json.loads(r.stdout[r.stdout.index('{'):])
    except Exception:
        raise Undecided('lemma vacuity twins: no JSON summary: ' + r.stderr[-1200:])
    if full.get('verification-results', {}).get('encountered-vir-error'):
        raise Undecided('lemma vacuity twins do not compile: ' + r.stderr[-1500:])
    seen = {}
    for m in full.get('times-ms', {}).get('smt', {}).get('smt-run-module-times', []):
        for f in m.get('function-breakdown', []):
            if f['function'].endswith('__vac'):
                seen[f['function'].split('::')[-1]] = f.get('success')
    names = [nm for (_, _, nm) in inserts]
    accepted = [nm for nm in names if seen.get(nm)]
    missing = [nm for nm in names if nm not in seen]
    if accepted or len(missing) > len(names) // 2:
        raise Undecided('lemma vacuity guard: `ensures false` twins accepted: %s; not checked: %d of %d' % (accepted, len(missing), len(names)))
    return dict(twins=len(names), rejected=len(names) - len(missing), not_checked=missing[:10])


# ------------------------------------------------------------------------------------------------ assumptions scan
ASSUME_PAT = re.compile(r'\bassume\(|\badmit\(|external_body|assume_specification|\baxiom fn\b|kani::assume|kani::stub')


def scan_assumptions(paths):
    hits = []
    for p in paths:
        for i, line in enumerate(open(p).read().split('\n'), 1):
            if ASSUME_PAT.search(line) and not line.strip().startswith('//'):
                hits.append('%s:%d: %s' % (os.path.relpath(p, VERIF), i, line.strip()[:140]))
    return hits


# ------------------------------------------------------------------------------------------------ known findings
def load_known():
    known = []
    p = os.path.join(VERIF, 'known_findings.txt')
    if os.path.exists(p):
        for line in open(p):
            line = line.strip()
            if line.startswith('known:'):
                kv = dict(re.findall(r'(\w+)=(\S+)', line))
                kv['text'] = re.sub(r'^(?:(?:property|row|site)=\S+\s+)+', '', line[len('known:'):].strip())
                known.append(kv)
    return known


def main():
    ap = argparse.ArgumentParser()
    ap.add_argument('prop')
    ap.add_argument('--tier', default=os.environ.get('VERIF_TIER', 'quick'), choices=['quick', 'thorough'])
    ap.add_argument('--keep', action='store_true')
    args = ap.parse_args()
    seed = int(os.environ.get('VERIF_SEED', '0') or 0)
    pid = args.prop
    os.environ['VERIF_TIER_EFFECTIVE'] = args.tier
    t0 = time.time()
    scratch = os.path.join(SCRATCH_ROOT, 'gcverif.%s.%d' % (pid, os.getpid()))
    os.makedirs(scratch, exist_ok=True)
    rc = 2
    try:
        import kani_run
        repo = snapshot(scratch)
        res = {}
        rows = {}
        failed = {}
        notes = []
        undecided = []          # a layer that cannot decide does not hide a violation found by another layer
        if table.uses_verus(pid):
            try:
                v = verus_layer(repo, scratch, seed, args.tier, pid)
                res['verus'] = v
                rows.update(v['rows'])
                failed.update(v['failed'])
            except Undecided as e:
                undecided.append('verus layer: %s' % e)
        krows = table.kani_rows(pid, args.tier)
        if krows:
            try:
                k = kani_run.run(snapshot(os.path.join(scratch, 'k')), scratch, krows, seed, args.tier)
                res['kani'] = k
                rows.update(k['rows'])
                failed.update(k['failed'])
            except Undecided as e:
                undecided.append('kani layer: %s' % e)
        irows, ifailed, iund = table.inventory_rows(pid, repo, res)
        undecided += list(iund)
        rows.update(irows); failed.update(ifailed)
        mine = {r: v for r, v in rows.items() if pid in v.get('serves', [])}
        if not mine:
            raise Undecided('no obligation serves %s (obligation count is zero): %s' % (pid, '; '.join(undecided)))
        myfailed = {r: failed[r] for r in failed if r in mine}
        # A lemma-layer row is a proof about the specification only: its text is fixed and it reads no function body, so its failure is never
        # evidence that the code breaks the property (it means the proof needs attention: solver instability, or a changed enum declaration).
        # It makes the check UNDECIDED; violations are reported by the rows over the code (V.*, K.*, I.*) only.
        for r in sorted(myfailed):
            if mine[r].get('kind') == 'verus-lemma':
                undecided.append('lemma layer: %s did not verify (a proof over the specification, independent of the code): %s' % (r, str(myfailed[r])[:300]))
        myfailed = {r: m for r, m in myfailed.items() if mine[r].get('kind') != 'verus-lemma'}
        known = [k for k in load_known() if k.get('property') == pid]
        violations, knownhits = [], []
        for r, msgs in sorted(myfailed.items()):
            hit = [k for k in known if k.get('row') == r and table.known_site_matches(k, r, msgs, res)]
            if hit:
                knownhits.append((r, hit[0]))
            else:
                violations.append((r, msgs))
        OUT = os.environ.get('VERIF_OUT_DIR', VERIF)      # (self-test runs redirect evidence / replays; registered commands never set this)
        os.makedirs(os.path.join(OUT, 'replays'), exist_ok=True)
        # triage (DESIGN 8): a failed Verus row asks its Kani twin (the same function, in place) for a concrete input
        want = {}
        for (r, msgs) in violations:
            tw = table.replay_row(r)
            if tw and tw in table.K and not (res.get('kani', {}).get('rows', {}).get(tw)):
                want[tw] = table.K[tw]
        if want:
            try:
                repo2 = snapshot(os.path.join(scratch, 'twin'))
                k2 = kani_run.run(repo2, scratch, want, seed, args.tier)
                res.setdefault('kani', dict(cex={}, rows={}, failed={}, per={}, n=0, n_ok=0, wall=0, cmd=''))
                res['kani']['cex'].update(k2['cex'])
                res['kani'].setdefault('twin_runs', {}).update({t: (t in k2['failed']) for t in want})
            except Undecided as e:
                log('twin run undecided: %s' % e)
        for (r, k) in knownhits:
            print('KNOWN-FINDING: property=%s %s' % (pid, k['text']))
        for (r, msgs) in violations:
            rp = os.path.join(OUT, 'replays', '%s-%s.json' % (pid, r))
            replay = dict(property=pid, row=r, backend=mine[r]['kind'], contract=mine[r].get('text'), function=mine[r].get('fn'),
                          verifier_output=msgs[:5], tree=tree_hash(repo))
            suffix = ''
            if mine[r]['kind'].startswith('kani') and res.get('kani', {}).get('cex', {}).get(r):
                replay['counterexample'] = res['kani']['cex'][r]
                replay['replay_cmd'] = 'bin/replay ' + rp
            else:
                twin = table.replay_row(r)
                replay['kani_twin'] = twin
                cex = None
                if twin and 'kani' in res and twin in res['kani'].get('cex', {}):
                    cex = res['kani']['cex'][twin]
                if cex:
                    replay['counterexample'] = cex
                    replay['counterexample_from'] = 'Kani twin row %s (the same function on the real code)' % twin
                    replay['replay_cmd'] = 'bin/replay ' + rp
                else:
                    suffix = ' no-failing-input-found'
            json.dump(replay, open(rp, 'w'), indent=1)
            print('VIOLATION property=%s replay=%s row=%s%s' % (pid, rp, r, suffix))
        if violations:
            rc = 1
            for u in undecided:
                log('NOTE (undecided part, property=%s): %s' % (pid, u[:600]))
            write_evidence(pid, args.tier, seed, mine, myfailed, knownhits, violations, res, time.time() - t0)
        elif undecided:
            raise Undecided('; '.join(undecided))
        else:
            write_evidence(pid, args.tier, seed, mine, myfailed, knownhits, violations, res, time.time() - t0)
            rc = 0
    except Undecided as e:
        log('UNDECIDED property=%s: %s' % (pid, e))
        rc = 2
    finally:
        if not args.keep:
            shutil.rmtree(scratch, ignore_errors=True)
    sys.exit(rc)


def write_evidence(pid, tier, seed, mine, myfailed, knownhits, violations, res, wall):
    known_rows = set(r for (r, _) in knownhits)
    # rows matched by a listed known finding are reported separately: they are neither obligations expected to hold nor discharged
    proved = {r: v for r, v in mine.items() if v.get('complete', True) is True and r not in known_rows}
    bounded = {r: v for r, v in mine.items() if v.get('complete', True) is not True and r not in known_rows}
    ok_proved = [r for r in proved if r not in myfailed]
    ok_bounded = [r for r in bounded if r not in myfailed]
    samples = []
    for r in sorted(mine)[:6]:
        samples.append(dict(row=r, backend=mine[r]['kind'], function=mine[r].get('fn'), contract=(mine[r].get('text') or '')[:300]))
    cov = dict(
        obligations=len(proved), discharged=len(ok_proved),
        bounded_rows=[dict(row=r, bound=bounded[r]['complete'], passed=(r not in myfailed)) for r in sorted(bounded)],
        checker_cmd='; '.join(x for x in [res.get('verus', {}).get('cmd'), res.get('kani', {}).get('cmd')] if x),
        trusted_base=table.trusted_base(pid, res),
        samples=samples,
        rows=[dict(row=r, backend=mine[r]['kind'], passed=(r not in myfailed), serves=mine[r]['serves']) for r in sorted(mine)],
        known_findings=[dict(row=r, finding=k['text']) for (r, k) in knownhits],
    )
    if 'verus' in res:
        cov['verus'] = {}
        for un, v in res['verus']['units'].items():
            cov['verus'][un] = dict(verified=v['summary'].get('verified'), errors=v['summary'].get('errors'), wall_s=round(v['wall'], 1), smt_ms=v.get('smt_ms'),
                            vacuity_guard=v['vacuity'], seed_retries=v.get('seed_retries'),
                            slowest=sorted(((f, t['ms']) for f, t in v['times'].items()), key=lambda x: -x[1])[:5],
                            functions_under_contract=sorted(k for k in v['rec'].functions if not v['rec'].functions[k].get('absent')),
                            absent_functions=sorted(k for k in v['rec'].functions if v['rec'].functions[k].get('absent')),
                            extraction={k: dict(source=f['source'], rules=f['rules'], dropped=f['dropped'], debug_asserts_as_obligations=f['dbg_obligations'])
                                        for k, f in v['rec'].functions.items()})
    if 'kani' in res:
        k = res['kani']
        cov['kani'] = dict(harnesses=k['n'], passed=k['n_ok'], wall_s=round(k['wall'], 1), per_harness=k['per'], covers=k.get('covers'))
    lvl = table.level(pid)
    if lvl != 'proof':
        import claims
        cov['explanation'] = ('Rows listed under coverage.rows were discharged by the verifiers on this run (obligations/discharged are counted from their '
                              'outputs); the claim is below "proof" because: ' + (claims.CHECKS.get(pid, {}).get('text', '')))
    ev = dict(property_id=pid, tier=tier, seed=seed, level=lvl, coverage=cov,
              assumptions=table.assumptions(pid), wall_s=round(wall, 1), violations=len(violations))
    OUT = os.environ.get('VERIF_OUT_DIR', VERIF)
    os.makedirs(os.path.join(OUT, 'evidence'), exist_ok=True)
    json.dump(ev, open(os.path.join(OUT, 'evidence', pid + '.json'), 'w'), indent=1)


if __name__ == '__main__':
    main()
