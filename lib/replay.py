#!/usr/bin/env python3
"""bin/replay <replay.json>: replay a recorded violation against the CURRENT /repo working tree.

Kani rows with a counterexample: the harness is re-run NATIVELY (no model checker) on the real code with the recorded concrete values
(`cargo kani playback`): the scratch copy of /repo is overlaid as for a check, Kani's generated playback unit test is appended to a copy of
the harness file, and the test must panic at the failed assertion.  Rows without a failing input (Verus rows, inventory rows): the file
names the failed obligation and carries the verifier's output; the obligation is re-checked with `bin/check`.
exit 1 = the violation reproduces on the current tree; exit 0 = it does not; exit 2 = could not be replayed."""
import json, os, re, shutil, subprocess, sys
HERE = os.path.dirname(os.path.abspath(__file__))
VERIF = os.path.abspath(os.path.join(HERE, '..'))
sys.path.insert(0, HERE)
import kani_run
from common import Undecided

REPO = os.environ.get('VERIF_REPO', '/repo')


def main():
    rp = json.load(open(sys.argv[1]))
    print('property=%s row=%s backend=%s' % (rp['property'], rp['row'], rp['backend']))
    print('contract: %s' % (rp.get('contract') or '')[:400])
    cex = rp.get('counterexample')
    if not cex or 'playback_test' not in cex:
        print('no failing input was recorded for this row; verifier output at the time of the violation:')
        for m in rp.get('verifier_output', [])[:3]:
            print('  | ' + m.replace('\n', '\n  | ')[:1500])
        print('re-checking the obligation on the current tree: bin/check %s' % rp['property'])
        r = subprocess.run([os.path.join(VERIF, 'bin/check'), rp['property']], capture_output=True, text=True,
                           env=dict(os.environ, VERIF_OUT_DIR=os.environ.get('VERIF_OUT_DIR', '/var/tmp/gcreplay.out')))
        again = [l for l in r.stdout.splitlines() if 'row=%s' % rp['row'] in l]
        print('\n'.join(again) or 'the row passes on the current tree')
        sys.exit(1 if again else 0)
    scratch = os.path.join(os.environ.get('VERIF_SCRATCH', '/var/tmp'), 'gcreplay.%d' % os.getpid())
    try:
        repo = os.path.join(scratch, 'repo'); os.makedirs(repo)
        subprocess.run(['rsync', '-a', '--exclude', '/target', '--exclude', '/.git', REPO + '/', repo + '/'], check=True)
        kdir = os.path.join(scratch, 'kani'); shutil.copytree(os.path.join(VERIF, 'kani'), kdir)
        mod = cex['harness'].split('::')[0]                      # e.g. context::verif_kani::k_step_...
        test = cex['playback_test']
        name = re.search(r'fn (kani_concrete_playback_\w+)', test).group(1)
        with open(os.path.join(kdir, mod + '_verif.rs'), 'a') as fh:
            fh.write('\n#[cfg(test)]\nmod verif_replay {\n    use super::*;\n    use std::vec::Vec;\n    use std::vec;\n' + test + '\n}\n')
        kani_run.overlay(repo, kdir)
        env = dict(os.environ, CARGO_NET_OFFLINE='true', CARGO_TARGET_DIR=os.path.join(VERIF, '.cache', 'kani-playback-target'))
        cmd = ['cargo', 'kani', 'playback', '-Z', 'concrete-playback', '--', name]
        p = subprocess.run(cmd, cwd=repo, env=env, capture_output=True, text=True, timeout=1800)
        out = p.stdout + p.stderr
        tail = '\n'.join(l for l in out.splitlines() if re.search(r'^test |running \d+ test|panicked|assertion|test result', l))
        print('$ ' + ' '.join(cmd)); print(tail)
        if re.search(r'test result: FAILED|panicked at', out):
            print('REPRODUCED: the recorded input makes the harness assertion fail on the real code (native execution)')
            sys.exit(1)
        if 'test result: ok' in out:
            print('not reproduced on the current tree')
            sys.exit(0)
        sys.exit(2)
    finally:
        shutil.rmtree(scratch, ignore_errors=True)


if __name__ == '__main__':
    main()
