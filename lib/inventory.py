"""Obligation inventory (DESIGN.md 2.6): structural facts recomputed from the source on every run, so that new code cannot
hide from the contracts.  A mismatch is 'undecided' (exit 2) unless the row is an explicit property clause (C20: no statics)."""
import os, re
import extract


def _src(repo):
    out = {}
    d = os.path.join(repo, 'src')
    for f in sorted(os.listdir(d)):
        if f.endswith('.rs'):
            out[f] = extract.strip_comments(open(os.path.join(d, f)).read())
    return out


# call sites of the functions that can change collector state: file -> allowed enclosing fns
EXPECTED_CALLS = {
    'drop_in_place': {'context.rs': {'drop', 'sweep_one'}, 'gc_ptr.rs': {'drop_in_place', 'VTABLE'}, 'slice.rs': {'drop'}},
    'dealloc': {'context.rs': {'drop', 'sweep_one'}, 'gc_ptr.rs': {'dealloc', 'VTABLE'}, 'gc.rs': {'drop'}},
}


def api_surface(repo):
    """safe `pub fn`s whose body uses `unsafe`, and the target types of `unsafe impl Collect`, per file (comments stripped)"""
    out = {'pub_fns_with_unsafe': set(), 'collect_impl_heads': set(), 'pub_fns': set()}
    API_FILES = ('arena.rs', 'barrier.rs', 'context.rs', 'dynamic_roots.rs', 'gc.rs', 'gc_weak.rs', 'lock.rs', 'slice.rs', 'zst_cache.rs', 'metrics.rs')
    d = os.path.join(repo, 'src')
    for f in sorted(os.listdir(d)):
        if not f.endswith('.rs'):
            continue
        s = extract.strip_comments(open(os.path.join(d, f)).read())
        for m in re.finditer(r'\bpub (?:const )?(?:unsafe )?fn (\w+)', s):
            if f in API_FILES:
                out['pub_fns'].add('%s::%s' % (f, m.group(1)))
        for m in re.finditer(r'\bpub fn (\w+)', s):
            try:
                j = s.index('{', m.end()); k = extract.match_close(s, j)
            except Exception:
                continue
            if ';' in s[m.start():j]:
                continue
            if re.search(r'\bunsafe\b', s[j:k]):
                out['pub_fns_with_unsafe'].add('%s::%s' % (f, m.group(1)))
        for m in re.finditer(r"unsafe impl<[^{]*?>\s*(?:\w+::)*Collect<'gc>\s*for\s*([^{]+?)\s*(?:where[^{]*)?\{", s):
            t = ' '.join(m.group(1).split())
            h = re.match(r'(?:\w+::)*(\w+)', t)
            # tuples, arrays, slices, references, trait objects and macro variables are categories that exist already
            if h and not t.startswith(('$', '(', '[', '&', 'dyn ')):
                out['collect_impl_heads'].add(h.group(1))
    return {k: sorted(v) for k, v in out.items()}


def rows(pid, repo, res):
    from common import Undecided
    src = _src(repo)
    rows, failed, und = {}, {}, []
    # I.no_statics (C20): the only way one arena's code could name another arena's memory
    hits, unknown = [], []
    MUT = r'Cell|Atomic|Mutex|RwLock|Once|Lazy|RefCell|UnsafeCell|Rc<|Arc<|Box<|Vec<|Metrics|Context|Gc'
    PLAIN = r"^(&'static\s+)?(&\s*)?(str|bool|char|[iu](8|16|32|64|128|size)|f(32|64)|GcVtable|Layout|\[[^\]]*\]|\(\))$"
    for f, s in src.items():
        for m in re.finditer(r'thread_local!\s*[\({]', s):
            hits.append('%s: %s' % (f, m.group(0).strip()))
        for m in re.finditer(r'(?m)^\s*(?:pub(?:\([a-z]+\))?\s+)?static\s+(mut\s+)?(\w+)\s*:\s*(.+?)\s*(?:=[^=>]|;\s*$)', s):
            ty = ' '.join(m.group(3).split())
            if m.group(1) or re.search(MUT, ty):
                hits.append('%s: static %s%s: %s' % (f, m.group(1) or '', m.group(2), ty))
            elif not re.match(PLAIN, ty):
                unknown.append('%s: static %s: %s' % (f, m.group(2), ty))
    rows['I.no_statics'] = dict(serves=['C20'], kind='inventory', fn='src/*.rs', text='no `static mut`, no `thread_local!` and no `static` with interior mutability or owning collector state in src/ (all collector state is per arena); immutable plain-data statics are fine')
    if hits:
        failed['I.no_statics'] = ['shared mutable state found: %s' % hits]
    elif unknown:
        und.append(({'C20'}, 'inventory: `static` items of a type this check cannot classify as immutable plain data: %s' % unknown))
    # I.phase_assignments (C08): every phase change goes through PhaseGuard::{enter, switch}
    inv = (res.get('verus') or {}).get('inventory')
    if inv is not None:
        rows['I.phase_assignments'] = dict(serves=['C08'], kind='inventory', fn='src/context.rs', text='`.phase =` occurs only inside PhaseGuard::enter / PhaseGuard::switch')
        bad = [f for f in inv['phase_assignments'] if f not in ('enter', 'switch')]
        if bad:
            und.append('inventory: Context.phase is assigned outside PhaseGuard::{enter, switch} (in %s): the X-guard rule no longer covers every phase change' % bad)
        # every fn of impl Context has a row or is a known pure accessor
        known = set(extract.CONTEXT_FNS) | {'new', 'mutation_context', 'finalization_context', 'metrics', 'phase'}
        extra = [f for f in inv['context_fns'] if f not in known]
        if extra:
            und.append('inventory: impl Context has functions the contracts do not speak about: %s' % extra)
        fields = set(inv['context_fields'])
        if fields != {'metrics', 'phase', 'phase_span', 'all', 'sweep', 'sweep_prev', 'root_needs_trace', 'gray', 'gray_again'}:
            und.append('inventory: struct Context has a different field set than the shim: %s' % sorted(fields))
    # I.reclaim_sites (C03, C04): drop_in_place / dealloc are called only from the sweep, the context drop and the builder drops
    ctx = src.get('context.rs', '')
    rows['I.reclaim_sites'] = dict(serves=['C03', 'C04'], kind='inventory', fn='src/*.rs',
                                   text='GcPtr::drop_in_place / GcPtr::dealloc are called only from Context::sweep_one, Drop for Context (DropAll), and the builder Drop impls (own, never-linked block)')
    cfn = [(m.group(1), m.start()) for m in re.finditer(r'\bfn (\w+)', ctx)]
    def c_enclosing(pos):
        cur = '?'
        for n, st in cfn:
            if st <= pos: cur = n
            else: break
        return cur
    def c_callers(name):
        return {c_enclosing(m.start()) for m in re.finditer(r'(?:\.|Self::|Context::)%s\(' % name, ctx)} - {name}
    def c_roots(f):
        """the functions of context.rs from which f is reachable and that have no caller inside context.rs themselves (f included if so)"""
        seen, todo, roots = {f}, [f], set()
        while todo:
            g = todo.pop()
            cs = c_callers(g)
            if g in ('sweep_one', 'drop') or not cs:
                roots.add(g); continue
            for c in cs:
                if c not in seen:
                    seen.add(c); todo.append(c)
        return roots
    bad = []
    for f, s in src.items():
        for m in re.finditer(r'\.(drop_in_place|dealloc)\(\)', s):
            pre = s[:m.start()]
            fns = re.findall(r'fn (\w+)', pre)
            encl = fns[-1] if fns else '?'
            if f == 'context.rs':
                # a private helper extracted from the sweep / the arena drop is fine: what matters is from where it can be reached
                rs = c_roots(encl)
                if not rs <= {'sweep_one', 'drop'}:
                    bad.append((f, encl, m.group(1), 'reachable from %s' % sorted(rs - {'sweep_one', 'drop'})))
            elif (f, encl, m.group(1)) not in {('gc.rs', 'drop', 'dealloc')}:
                bad.append((f, encl, m.group(1)))
    if bad:
        failed['I.reclaim_sites'] = ['reclamation call sites outside the sweep / arena drop / builder drop: %s' % bad]
    # I.collection_entry (C03): do_collection is called only from &mut self / self methods of Arena / MarkedArena
    ar = src.get('arena.rs', '')
    rows['I.collection_entry'] = dict(serves=['C03', 'C08'], kind='inventory', fn='src/arena.rs',
                                      text='Context::do_collection is called only from Arena::{collect_debt, mark_debt, finish_marking, cycle_debt, finish_cycle} (&mut self) and MarkedArena::start_sweeping (self)')
    afn = [(m.group(1), m.start(), m.group(2).split(',')[0].strip()) for m in re.finditer(r'\bfn (\w+)[^{;(]*\(([^)]*)\)', ar)]
    def a_enclosing(pos):
        cur = ('?', '?')
        for n, st, recv in afn:
            if st <= pos: cur = (n, recv)
            else: break
        return cur
    def a_callers(name):
        return {a_enclosing(m.start()) for m in re.finditer(r'(?:\.|Self::)%s\(' % name, ar)} - {x for x in [(name, r) for (_, _, r) in afn]}
    ENTRY = {'collect_debt': '&mut self', 'mark_debt': '&mut self', 'finish_marking': '&mut self', 'cycle_debt': '&mut self', 'finish_cycle': '&mut self', 'start_sweeping': 'self'}
    bad = []
    for f, s in src.items():
        for m in re.finditer(r'\.do_collection\(', s):
            if f != 'arena.rs':
                bad.append((f, 'do_collection called outside arena.rs'))
                continue
            # walk up through private helpers of arena.rs to the public methods the call is reachable from
            seen, todo = set(), [a_enclosing(m.start())]
            while todo:
                (n, recv) = todo.pop()
                if (n, recv) in seen:
                    continue
                seen.add((n, recv))
                if n in ENTRY:
                    if recv != ENTRY[n]:
                        bad.append((f, n, recv))
                    continue
                cs = a_callers(n)
                if not cs:
                    bad.append((f, n, recv))
                todo += list(cs)
    if bad:
        failed['I.collection_entry'] = ['collection work reachable from %s' % sorted(set(bad))]
    # I.collection_steps (C03): the steps that destruct / release (and the marking step) run only under the driver.  Call graph of context.rs by
    # name: every chain of callers of sweep_one / mark_one inside context.rs must end in do_collection (private helpers in between are fine).
    rows['I.collection_steps'] = dict(serves=['C03'], kind='inventory', fn='src/context.rs',
                                      text='Context::sweep_one and Context::mark_one are reachable, inside src/context.rs, only from Context::do_collection (directly or through private helpers); no other file calls them')
    fnspans = [(m.group(1), m.start()) for m in re.finditer(r'\bfn (\w+)', ctx)]
    def enclosing(pos):
        cur = '?'
        for n, st in fnspans:
            if st <= pos:
                cur = n
            else:
                break
        return cur
    def callers_of(name):
        return {enclosing(m.start()) for m in re.finditer(r'(?:\.|Self::|Context::)%s\(' % name, ctx)} - {name}
    bad = []
    for step in ('sweep_one', 'mark_one'):
        seen, todo = set(), [step]
        while todo:
            f = todo.pop()
            for c in callers_of(f):
                if c == 'do_collection' or c in seen:
                    continue
                seen.add(c); todo.append(c)
        roots = [c for c in seen if not callers_of(c)]
        bad += ['%s is reachable from %s' % (step, r) for r in sorted(roots)]
        for f, s_ in src.items():
            if f != 'context.rs' and re.search(r'\.%s\(' % step, s_):
                bad.append('%s is called from %s' % (step, f))
    if bad:
        failed['I.collection_steps'] = ['collection steps outside the driver: %s' % bad]
    # I.header_writes (C01, C04, C05): the collector's per-object state (colour, live, needs_trace, link) is written only by the functions under
    # contract: in context.rs by the contracted functions (helpers reachable only from them are inlined by the extractor, which checks that),
    # outside it only by the builder (needs_trace once at allocation, live once at completion).  Any other writer is code no contract speaks about.
    rows['I.header_writes'] = dict(serves=['C01', 'C04', 'C05'], kind='inventory', fn='src/*.rs',
                                   text='GcHeader::set_color / set_live / set_needs_trace / set_next are called only from the contracted functions of src/context.rs (and private helpers reachable only from them) and from the builder in src/gc.rs (needs_trace at allocation, live at completion)')
    contracted = set(extract.CONTEXT_FNS) | {'drop'}
    stray = []
    for f, s_ in src.items():
        if f == 'gc_ptr.rs':
            continue
        for m in re.finditer(r'\.(set_color|set_live|set_needs_trace|set_next)\(', s_):
            fns = re.findall(r'\bfn (\w+)', s_[:m.start()])
            encl = fns[-1] if fns else '?'
            if f == 'context.rs':
                seen, todo, ok = {encl}, [encl], True
                while todo:
                    g = todo.pop()
                    if g in contracted:
                        continue
                    cs = c_callers(g)
                    if not cs:
                        ok = False
                    for c in cs:
                        if c not in seen:
                            seen.add(c); todo.append(c)
                if not ok:
                    stray.append((f, encl, m.group(1)))
            elif (f, m.group(1)) not in {('gc.rs', 'set_needs_trace'), ('gc.rs', 'set_live')} or (m.group(1) == 'set_live' and encl != 'assume_init'):
                stray.append((f, encl, m.group(1)))
    if stray:
        und.append(({'C01', 'C02', 'C04', 'C05', 'C06', 'C07', 'C11', 'C14'}, 'inventory: header state is written by code the contracts do not speak about: %s' % sorted(set(stray))))
    # I.api_surface: the finite families of Kani rows cover the public API that EXISTS; a new safe public function whose body uses `unsafe`, or
    # a Collect impl for a new type, is code no row instantiates.  Compared with the surface recorded for the tree the rows were written for.
    import json
    basefile = os.path.join(os.path.dirname(os.path.abspath(__file__)), '..', 'contracts', 'api_baseline.json')
    base = json.load(open(basefile))
    cur = api_surface(repo)
    new_api = [x for x in cur['pub_fns_with_unsafe'] if x not in base['pub_fns_with_unsafe']] + \
              ['new pub fn %s' % x for x in cur['pub_fns'] if x not in base['pub_fns']] + \
              ['Collect for %s' % x for x in cur['collect_impl_heads'] if x not in base['collect_impl_heads']]
    rows['I.api_surface'] = dict(serves=['C01', 'C06', 'C16', 'C19'], kind='inventory', fn='src/*.rs',
                                 text='every `pub fn` of the API files, every safe `pub fn` whose body uses `unsafe`, and every type with a provided `unsafe impl Collect` is one the rows were written for (contracts/api_baseline.json); removals are fine: the properties quantify over the public API, and a new entry point is code no row instantiates')
    if new_api:
        # which properties speak about the file the new entry point lives in (a new method of lock.rs says nothing about pacing)
        REL = {'lock.rs': {'C01', 'C06'}, 'barrier.rs': {'C01', 'C06'}, 'gc.rs': {'C01', 'C06', 'C07', 'C17', 'C18', 'C19'},
               'gc_weak.rs': {'C01', 'C05', 'C07', 'C19'}, 'arena.rs': {'C01', 'C03', 'C07', 'C08', 'C09', 'C11', 'C20'},
               'dynamic_roots.rs': {'C01', 'C14', 'C19'}, 'slice.rs': {'C11', 'C17', 'C18', 'C19'}, 'zst_cache.rs': {'C19'},
               'context.rs': {'C01', 'C03', 'C05', 'C06', 'C07', 'C10'}, 'metrics.rs': {'C09', 'C10', 'C20'}}
        who = set()
        for x in new_api:
            if x.startswith('Collect for'):
                who |= {'C16', 'C01'}
            else:
                f = x.replace('new pub fn ', '').split('::')[0]
                who |= REL.get(f, {'C01'})
        und.append((who, 'inventory: new public surface that no row instantiates (a new pub fn, a safe pub fn using `unsafe`, or a Collect impl for a new type): %s' % new_api))
    # I.zst_no_conjuring (C19): every safe pub fn of ZstCache that returns a Gc<'gc, T> for a caller-chosen T is given a T by the caller
    z = src.get('zst_cache.rs', '')
    rows['I.zst_no_conjuring'] = dict(serves=['C19'], kind='inventory', fn='src/zst_cache.rs',
                                      text="every non-`unsafe` `pub fn` of ZstCache whose return type mentions Gc<'gc, T> for its own type parameter T takes a `T` argument (a T was supplied by the caller)")
    bad = []
    for m in re.finditer(r'pub (unsafe )?fn (\w+)\s*<', z):
        unsafe_, name = m.group(1), m.group(2)
        i0 = m.end() - 1
        # generic parameter list with nested <>, then the parameter list, then the return type up to the body
        depth, j = 0, i0
        while j < len(z):
            if z[j] == '<': depth += 1
            elif z[j] == '>' and z[j - 1] != '-':
                depth -= 1
                if depth == 0: break
            j += 1
        gens = z[i0 + 1:j]
        k0 = z.find('(', j)
        if k0 < 0: continue
        k1 = extract.match_close(z, k0, '(', ')')
        params = z[k0 + 1:k1]
        b0 = z.find('{', k1)
        rm = re.match(r'\s*->\s*([^{]+?)\s*(?:where\b[^{]*)?$', z[k1 + 1:b0]) if b0 > 0 else None
        if not rm: continue
        ret = rm.group(1)
        tps = [g.split(':')[0].strip() for g in re.split(r',(?![^<]*>)', gens) if g.strip() and not g.strip().startswith("'") and not g.strip().startswith('const')]
        for tp in tps:
            if re.search(r"Gc<'gc,\s*%s\b" % tp, ret) and not unsafe_ and not re.search(r':\s*%s\b' % tp, params):
                if re.search(r'Fn(?:Once|Mut)?\s*\([^)]*\)\s*->\s*%s\b' % tp, params + ' ' + gens + ' ' + z[k1 + 1:b0]):
                    und.append(({'C19'}, 'inventory: ZstCache::%s takes a closure producing %s instead of a %s: whether it is always called cannot be decided here' % (name, tp, tp)))
                else:
                    bad.append(name)
    if bad:
        failed['I.zst_no_conjuring'] = ['safe functions returning a Gc<T> without being given a T: %s' % bad]
    # keep the messages that concern this property (None = every property)
    msgs = []
    for u in und:
        if isinstance(u, tuple):
            if pid in u[0]:
                msgs.append(u[1])
        else:
            msgs.append(u)
    return rows, failed, msgs
