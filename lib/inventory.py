"""Obligation inventory (DESIGN.md 2.6): structural facts recomputed from the source on every run, so that new code cannot
hide from the contracts.  A mismatch is 'undecided' (exit 2) unless the row is an explicit property clause (C20: no statics)."""
import os, re
import extract


def _src(repo):
    out = {}
    d = os.path.join(repo, 'src')
    for f in sorted(os.listdir(d)):
        if f.endswith('.rs'):
            out[f] = extract.strip_comments(open(os.path.join(d, f)).read())
    return out


# call sites of the functions that can change collector state: file -> allowed enclosing fns
EXPECTED_CALLS = {
    'drop_in_place': {'context.rs': {'drop', 'sweep_one'}, 'gc_ptr.rs': {'drop_in_place', 'VTABLE'}, 'slice.rs': {'drop'}},
    'dealloc': {'context.rs': {'drop', 'sweep_one'}, 'gc_ptr.rs': {'dealloc', 'VTABLE'}, 'gc.rs': {'drop'}},
}


def rows(pid, repo, res):
    from common import Undecided
    src = _src(repo)
    rows, failed = {}, {}
    # I.no_statics (C20): the only way one arena's code could name another arena's memory
    hits, unknown = [], []
    MUT = r'Cell|Atomic|Mutex|RwLock|Once|Lazy|RefCell|UnsafeCell|Rc<|Arc<|Box<|Vec<|Metrics|Context|Gc'
    PLAIN = r"^(&'static\s+)?(&\s*)?(str|bool|char|[iu](8|16|32|64|128|size)|f(32|64)|GcVtable|Layout|\[[^\]]*\]|\(\))$"
    for f, s in src.items():
        for m in re.finditer(r'thread_local!\s*[\({]', s):
            hits.append('%s: %s' % (f, m.group(0).strip()))
        for m in re.finditer(r'(?m)^\s*(?:pub(?:\([a-z]+\))?\s+)?static\s+(mut\s+)?(\w+)\s*:\s*(.+?)\s*(?:=[^=>]|;\s*$)', s):
            ty = ' '.join(m.group(3).split())
            if m.group(1) or re.search(MUT, ty):
                hits.append('%s: static %s%s: %s' % (f, m.group(1) or '', m.group(2), ty))
            elif not re.match(PLAIN, ty):
                unknown.append('%s: static %s: %s' % (f, m.group(2), ty))
    rows['I.no_statics'] = dict(serves=['C20'], kind='inventory', fn='src/*.rs', text='no `static mut`, no `thread_local!` and no `static` with interior mutability or owning collector state in src/ (all collector state is per arena); immutable plain-data statics are fine')
    if hits:
        failed['I.no_statics'] = ['shared mutable state found: %s' % hits]
    elif unknown:
        raise Undecided('inventory: `static` items of a type this check cannot classify as immutable plain data: %s' % unknown)
    # I.phase_assignments (C08): every phase change goes through PhaseGuard::{enter, switch}
    inv = (res.get('verus') or {}).get('inventory')
    if inv is not None:
        rows['I.phase_assignments'] = dict(serves=['C08'], kind='inventory', fn='src/context.rs', text='`.phase =` occurs only inside PhaseGuard::enter / PhaseGuard::switch')
        bad = [f for f in inv['phase_assignments'] if f not in ('enter', 'switch')]
        if bad:
            raise Undecided('inventory: Context.phase is assigned outside PhaseGuard::{enter, switch} (in %s): the X-guard rule no longer covers every phase change' % bad)
        # every fn of impl Context has a row or is a known pure accessor
        known = set(extract.CONTEXT_FNS) | {'new', 'mutation_context', 'finalization_context', 'metrics', 'phase'}
        extra = [f for f in inv['context_fns'] if f not in known]
        if extra:
            raise Undecided('inventory: impl Context has functions the contracts do not speak about: %s' % extra)
        fields = set(inv['context_fields'])
        if fields != {'metrics', 'phase', 'phase_span', 'all', 'sweep', 'sweep_prev', 'root_needs_trace', 'gray', 'gray_again'}:
            raise Undecided('inventory: struct Context has a different field set than the shim: %s' % sorted(fields))
    # I.reclaim_sites (C03, C04): drop_in_place / dealloc are called only from the sweep, the context drop and the builder drops
    ctx = src.get('context.rs', '')
    rows['I.reclaim_sites'] = dict(serves=['C03', 'C04'], kind='inventory', fn='src/*.rs',
                                   text='GcPtr::drop_in_place / GcPtr::dealloc are called only from Context::sweep_one, Drop for Context (DropAll), and the builder Drop impls (own, never-linked block)')
    cfn = [(m.group(1), m.start()) for m in re.finditer(r'\bfn (\w+)', ctx)]
    def c_enclosing(pos):
        cur = '?'
        for n, st in cfn:
            if st <= pos: cur = n
            else: break
        return cur
    def c_callers(name):
        return {c_enclosing(m.start()) for m in re.finditer(r'(?:\.|Self::|Context::)%s\(' % name, ctx)} - {name}
    def c_roots(f):
        """the functions of context.rs from which f is reachable and that have no caller inside context.rs themselves (f included if so)"""
        seen, todo, roots = {f}, [f], set()
        while todo:
            g = todo.pop()
            cs = c_callers(g)
            if g in ('sweep_one', 'drop') or not cs:
                roots.add(g); continue
            for c in cs:
                if c not in seen:
                    seen.add(c); todo.append(c)
        return roots
    bad = []
    for f, s in src.items():
        for m in re.finditer(r'\.(drop_in_place|dealloc)\(\)', s):
            pre = s[:m.start()]
            fns = re.findall(r'fn (\w+)', pre)
            encl = fns[-1] if fns else '?'
            if f == 'context.rs':
                # a private helper extracted from the sweep / the arena drop is fine: what matters is from where it can be reached
                rs = c_roots(encl)
                if not rs <= {'sweep_one', 'drop'}:
                    bad.append((f, encl, m.group(1), 'reachable from %s' % sorted(rs - {'sweep_one', 'drop'})))
            elif (f, encl, m.group(1)) not in {('gc.rs', 'drop', 'dealloc')}:
                bad.append((f, encl, m.group(1)))
    if bad:
        failed['I.reclaim_sites'] = ['reclamation call sites outside the sweep / arena drop / builder drop: %s' % bad]
    # I.collection_entry (C03): do_collection is called only from &mut self / self methods of Arena / MarkedArena
    ar = src.get('arena.rs', '')
    rows['I.collection_entry'] = dict(serves=['C03', 'C08'], kind='inventory', fn='src/arena.rs',
                                      text='Context::do_collection is called only from Arena::{collect_debt, mark_debt, finish_marking, cycle_debt, finish_cycle} (&mut self) and MarkedArena::start_sweeping (self)')
    afn = [(m.group(1), m.start(), m.group(2).split(',')[0].strip()) for m in re.finditer(r'\bfn (\w+)[^{;(]*\(([^)]*)\)', ar)]
    def a_enclosing(pos):
        cur = ('?', '?')
        for n, st, recv in afn:
            if st <= pos: cur = (n, recv)
            else: break
        return cur
    def a_callers(name):
        return {a_enclosing(m.start()) for m in re.finditer(r'(?:\.|Self::)%s\(' % name, ar)} - {x for x in [(name, r) for (_, _, r) in afn]}
    ENTRY = {'collect_debt': '&mut self', 'mark_debt': '&mut self', 'finish_marking': '&mut self', 'cycle_debt': '&mut self', 'finish_cycle': '&mut self', 'start_sweeping': 'self'}
    bad = []
    for f, s in src.items():
        for m in re.finditer(r'\.do_collection\(', s):
            if f != 'arena.rs':
                bad.append((f, 'do_collection called outside arena.rs'))
                continue
            # walk up through private helpers of arena.rs to the public methods the call is reachable from
            seen, todo = set(), [a_enclosing(m.start())]
            while todo:
                (n, recv) = todo.pop()
                if (n, recv) in seen:
                    continue
                seen.add((n, recv))
                if n in ENTRY:
                    if recv != ENTRY[n]:
                        bad.append((f, n, recv))
                    continue
                cs = a_callers(n)
                if not cs:
                    bad.append((f, n, recv))
                todo += list(cs)
    if bad:
        failed['I.collection_entry'] = ['collection work reachable from %s' % sorted(set(bad))]
    # I.collection_steps (C03): the steps that destruct / release (and the marking step) run only under the driver.  Call graph of context.rs by
    # name: every chain of callers of sweep_one / mark_one inside context.rs must end in do_collection (private helpers in between are fine).
    rows['I.collection_steps'] = dict(serves=['C03'], kind='inventory', fn='src/context.rs',
                                      text='Context::sweep_one and Context::mark_one are reachable, inside src/context.rs, only from Context::do_collection (directly or through private helpers); no other file calls them')
    fnspans = [(m.group(1), m.start()) for m in re.finditer(r'\bfn (\w+)', ctx)]
    def enclosing(pos):
        cur = '?'
        for n, st in fnspans:
            if st <= pos:
                cur = n
            else:
                break
        return cur
    def callers_of(name):
        return {enclosing(m.start()) for m in re.finditer(r'(?:\.|Self::|Context::)%s\(' % name, ctx)} - {name}
    bad = []
    for step in ('sweep_one', 'mark_one'):
        seen, todo = set(), [step]
        while todo:
            f = todo.pop()
            for c in callers_of(f):
                if c == 'do_collection' or c in seen:
                    continue
                seen.add(c); todo.append(c)
        roots = [c for c in seen if not callers_of(c)]
        bad += ['%s is reachable from %s' % (step, r) for r in sorted(roots)]
        for f, s_ in src.items():
            if f != 'context.rs' and re.search(r'\.%s\(' % step, s_):
                bad.append('%s is called from %s' % (step, f))
    if bad:
        failed['I.collection_steps'] = ['collection steps outside the driver: %s' % bad]
    # I.zst_no_conjuring (C19): every safe pub fn of ZstCache that returns a Gc<'gc, T> for a caller-chosen T is given a T by the caller
    z = src.get('zst_cache.rs', '')
    rows['I.zst_no_conjuring'] = dict(serves=['C19'], kind='inventory', fn='src/zst_cache.rs',
                                      text="every non-`unsafe` `pub fn` of ZstCache whose return type mentions Gc<'gc, T> for its own type parameter T takes a `T` argument (a T was supplied by the caller)")
    bad = []
    for m in re.finditer(r'pub (unsafe )?fn (\w+)\s*<([^>]*)>\s*\(([^)]*)\)\s*->\s*([^{]+)\{', z):
        unsafe_, name, gens, params, ret = m.groups()
        tps = [g.split(':')[0].strip() for g in gens.split(',') if g.strip() and not g.strip().startswith("'") and not g.strip().startswith('const')]
        for tp in tps:
            if re.search(r"Gc<'gc,\s*%s\b" % tp, ret) and not unsafe_ and not re.search(r':\s*%s\b' % tp, params):
                bad.append(name)
    if bad:
        failed['I.zst_no_conjuring'] = ['safe functions returning a Gc<T> without being given a T: %s' % bad]
    return rows, failed
