// ---- slots_shim.rs (hand-written, fixed): spec layer for dynamic_roots::Slots (C14).  The struct / enum declarations and the four
// function bodies are cut VERBATIM from /repo/src/dynamic_roots.rs on every run (only `'gc` is dropped and `Gc<'gc, ()>` becomes GcRef).
use vstd::prelude::*;
verus! {

/// an erased Gc pointer (identity only)
#[derive(Copy, Clone, PartialEq, Eq, Structural)]
pub struct GcRef { pub id: usize }

pub type Index = usize;

pub mod sl {
use vstd::prelude::*;
use super::GcRef;
use super::decl::{Slot, Slots, NULL_INDEX};

pub open spec fn nxt(free: Seq<int>, i: int) -> usize { if i + 1 < free.len() { free[i + 1] as usize } else { NULL_INDEX } }

/// representation invariant; `free` is the free list as a ghost sequence (head first)
pub open spec fn wf(s: Slots, free: Seq<int>) -> bool {
    &&& s.slots@.len() < usize::MAX
    &&& free.no_duplicates()
    &&& forall|i: int| 0 <= i < free.len() ==> 0 <= #[trigger] free[i] < s.slots@.len()
    &&& forall|i: int| 0 <= i < free.len() ==> (#[trigger] s.slots@[free[i]]) == (Slot::Vacant { next_free: nxt(free, i) })
    &&& s.next_free == (if free.len() > 0 { free[0] as usize } else { NULL_INDEX })
    // every vacant slot is on the free list (so every other slot is Occupied)
    &&& forall|j: int| 0 <= j < s.slots@.len() && (#[trigger] s.slots@[j]) is Vacant ==> free.contains(j)
}
/// what a live handle for slot `idx` relies on
pub open spec fn holds(s: Slots, idx: int, p: GcRef) -> bool {
    0 <= idx < s.slots@.len() && s.slots@[idx] is Occupied && s.slots@[idx]->root == p
}
pub open spec fn others_same(a: Slots, b: Slots, idx: int) -> bool {
    forall|j: int| 0 <= j < a.slots@.len() && j != idx ==> j < b.slots@.len() && (#[trigger] b.slots@[j]) == a.slots@[j]
}

pub open spec fn free_after_add(s: Slots, free: Seq<int>) -> Seq<int> { if s.next_free != NULL_INDEX { free.drop_first() } else { free } }
pub open spec fn free_after_dec(s: Slots, free: Seq<int>, idx: int) -> Seq<int> {
    if s.slots@[idx]->ref_count == 0 { seq![idx] + free } else { free }
}

pub broadcast proof fn b_wf_add(a: Slots, fa: Seq<int>, b: Slots, fb: Seq<int>)
    ensures #![trigger wf(a, fa), wf(b, fb)]
        wf(a, fa) && a.next_free != NULL_INDEX && fb == fa.drop_first() && b.slots@.len() == a.slots@.len()
            && b.slots@[a.next_free as int] is Occupied && others_same(a, b, a.next_free as int)
            && b.next_free == a.slots@[a.next_free as int]->next_free ==> wf(b, fb)
{
    if wf(a, fa) && a.next_free != NULL_INDEX && fb == fa.drop_first() && b.slots@.len() == a.slots@.len()
        && b.slots@[a.next_free as int] is Occupied && others_same(a, b, a.next_free as int)
        && b.next_free == a.slots@[a.next_free as int]->next_free {
        let h = a.next_free as int;
        assert(fa.len() > 0 && fa[0] == h);
        assert forall|i: int| 0 <= i < fb.len() implies fb[i] == fa[i + 1] && fb[i] != h by { assert(fa[i + 1] != fa[0]); }
        assert(fb.no_duplicates());
        assert forall|i: int| 0 <= i < fb.len() implies (#[trigger] b.slots@[fb[i]]) == (Slot::Vacant { next_free: nxt(fb, i) }) by {
            assert(a.slots@[fa[i + 1]] == (Slot::Vacant { next_free: nxt(fa, i + 1) }));
        }
        assert(a.slots@[fa[0]] == (Slot::Vacant { next_free: nxt(fa, 0) }));
        assert forall|j: int| 0 <= j < b.slots@.len() && (#[trigger] b.slots@[j]) is Vacant implies fb.contains(j) by {
            assert(j != h); assert(a.slots@[j] is Vacant); assert(fa.contains(j));
            let i = choose|i: int| 0 <= i < fa.len() && fa[i] == j; assert(i > 0); assert(fb[i - 1] == j);
        }
    }
}
pub broadcast proof fn b_wf_push(a: Slots, fa: Seq<int>, b: Slots)
    ensures #![trigger wf(a, fa), wf(b, fa)]
        wf(a, fa) && a.next_free == NULL_INDEX && b.next_free == a.next_free && b.slots@.len() == a.slots@.len() + 1 && b.slots@.len() < usize::MAX
            && b.slots@[a.slots@.len() as int] is Occupied && others_same(a, b, a.slots@.len() as int) ==> wf(b, fa)
{
    if wf(a, fa) && a.next_free == NULL_INDEX && b.next_free == a.next_free && b.slots@.len() == a.slots@.len() + 1 && b.slots@.len() < usize::MAX
        && b.slots@[a.slots@.len() as int] is Occupied && others_same(a, b, a.slots@.len() as int) {
        assert(fa.len() == 0);
        assert forall|j: int| 0 <= j < b.slots@.len() && (#[trigger] b.slots@[j]) is Vacant implies fa.contains(j) by {
            assert(j < a.slots@.len()); assert(a.slots@[j] is Vacant); assert(fa.contains(j));
        }
    }
}
pub broadcast proof fn b_wf_same_links(a: Slots, fa: Seq<int>, b: Slots, idx: int)
    ensures #![trigger wf(a, fa), wf(b, fa), others_same(a, b, idx)]
        wf(a, fa) && b.next_free == a.next_free && b.slots@.len() == a.slots@.len() && 0 <= idx < a.slots@.len()
            && a.slots@[idx] is Occupied && b.slots@[idx] is Occupied && others_same(a, b, idx) ==> wf(b, fa)
{
    if wf(a, fa) && b.next_free == a.next_free && b.slots@.len() == a.slots@.len() && 0 <= idx < a.slots@.len()
        && a.slots@[idx] is Occupied && b.slots@[idx] is Occupied && others_same(a, b, idx) {
        assert forall|i: int| 0 <= i < fa.len() implies (#[trigger] b.slots@[fa[i]]) == (Slot::Vacant { next_free: nxt(fa, i) }) by {
            assert(a.slots@[fa[i]] == (Slot::Vacant { next_free: nxt(fa, i) })); assert(fa[i] != idx);
        }
        assert forall|j: int| 0 <= j < b.slots@.len() && (#[trigger] b.slots@[j]) is Vacant implies fa.contains(j) by { assert(j != idx); assert(a.slots@[j] is Vacant); }
    }
}
pub broadcast proof fn b_wf_vacate(a: Slots, fa: Seq<int>, b: Slots, fb: Seq<int>, idx: int)
    ensures #![trigger wf(a, fa), wf(b, fb), others_same(a, b, idx)]
        wf(a, fa) && 0 <= idx < a.slots@.len() && a.slots@[idx] is Occupied && fb == seq![idx] + fa && b.slots@.len() == a.slots@.len()
            && b.slots@[idx] == (Slot::Vacant { next_free: a.next_free }) && b.next_free == idx as usize && others_same(a, b, idx) ==> wf(b, fb)
{
    if wf(a, fa) && 0 <= idx < a.slots@.len() && a.slots@[idx] is Occupied && fb == seq![idx] + fa && b.slots@.len() == a.slots@.len()
        && b.slots@[idx] == (Slot::Vacant { next_free: a.next_free }) && b.next_free == idx as usize && others_same(a, b, idx) {
        assert(!fa.contains(idx)) by { if fa.contains(idx) { let i = choose|i: int| 0 <= i < fa.len() && fa[i] == idx; assert(a.slots@[fa[i]] is Vacant); } }
        assert forall|i: int| 1 <= i < fb.len() implies fb[i] == fa[i - 1] by {}
        assert(fb[0] == idx);
        assert(fb.no_duplicates()) by {
            assert forall|i: int, j: int| 0 <= i < fb.len() && 0 <= j < fb.len() && i != j implies fb[i] != fb[j] by {
                if i == 0 { assert(fa.contains(fa[j - 1])); } else if j == 0 { assert(fa.contains(fa[i - 1])); } else { assert(fa[i - 1] != fa[j - 1]); }
            }
        }
        assert forall|i: int| 0 <= i < fb.len() implies (#[trigger] b.slots@[fb[i]]) == (Slot::Vacant { next_free: nxt(fb, i) }) by {
            if i > 0 { assert(a.slots@[fa[i - 1]] == (Slot::Vacant { next_free: nxt(fa, i - 1) })); assert(fa[i - 1] != idx) by { assert(fa.contains(fa[i - 1])); } }
        }
        assert forall|j: int| 0 <= j < b.slots@.len() && (#[trigger] b.slots@[j]) is Vacant implies fb.contains(j) by {
            if j == idx { assert(fb[0] == j); } else { assert(a.slots@[j] is Vacant); let i = choose|i: int| 0 <= i < fa.len() && fa[i] == j; assert(fb[i + 1] == j); }
        }
    }
}
// ---- single-term-trigger forms: the field-level description of what each function does (proved by symbolic execution of the verbatim
// body) implies the representation invariant of the result.  One trigger term that covers every variable => stable under solver seeds.
pub open spec fn add_post(a: Slots, b: Slots, p: GcRef, r: int) -> bool {
    &&& b.slots@[r] == (Slot::Occupied { root: p, ref_count: 0 }) && others_same(a, b, r)
    &&& if a.next_free != NULL_INDEX { r == a.next_free as int && b.slots@.len() == a.slots@.len() && b.next_free == a.slots@[r]->next_free }
        else { r == a.slots@.len() && b.slots@.len() == a.slots@.len() + 1 && b.next_free == a.next_free }
}
pub broadcast proof fn b_add_post(a: Slots, fa: Seq<int>, b: Slots, p: GcRef, r: int)
    ensures #![trigger add_post(a, b, p, r), wf(a, fa)]
        wf(a, fa) && a.slots@.len() < usize::MAX - 1 && add_post(a, b, p, r) ==> wf(b, free_after_add(a, fa))
{
    if wf(a, fa) && a.slots@.len() < usize::MAX - 1 && add_post(a, b, p, r) {
        if a.next_free != NULL_INDEX { assert(fa.len() > 0 && fa[0] == r); assert(a.slots@[fa[0]] is Vacant); b_wf_add(a, fa, b, fa.drop_first()); }
        else { b_wf_push(a, fa, b); }
    }
}
pub open spec fn inc_post(a: Slots, b: Slots, idx: int) -> bool {
    &&& b.slots@.len() == a.slots@.len() && b.next_free == a.next_free && others_same(a, b, idx)
    &&& b.slots@[idx] == (Slot::Occupied { root: a.slots@[idx]->root, ref_count: (a.slots@[idx]->ref_count + 1) as usize })
}
pub broadcast proof fn b_inc_post(a: Slots, fa: Seq<int>, b: Slots, idx: int)
    ensures #![trigger inc_post(a, b, idx), wf(a, fa)]
        wf(a, fa) && 0 <= idx < a.slots@.len() && a.slots@[idx] is Occupied && inc_post(a, b, idx) ==> wf(b, fa)
{
    if wf(a, fa) && 0 <= idx < a.slots@.len() && a.slots@[idx] is Occupied && inc_post(a, b, idx) { b_wf_same_links(a, fa, b, idx); }
}
pub open spec fn dec_post(a: Slots, b: Slots, idx: int) -> bool {
    &&& b.slots@.len() == a.slots@.len() && others_same(a, b, idx)
    &&& if a.slots@[idx]->ref_count == 0 { b.slots@[idx] == (Slot::Vacant { next_free: a.next_free }) && b.next_free == idx as usize }
        else { b.next_free == a.next_free && b.slots@[idx] == (Slot::Occupied { root: a.slots@[idx]->root, ref_count: (a.slots@[idx]->ref_count - 1) as usize }) }
}
pub broadcast proof fn b_dec_post(a: Slots, fa: Seq<int>, b: Slots, idx: int)
    ensures #![trigger dec_post(a, b, idx), wf(a, fa)]
        wf(a, fa) && 0 <= idx < a.slots@.len() && a.slots@[idx] is Occupied && dec_post(a, b, idx) ==> wf(b, free_after_dec(a, fa, idx))
{
    if wf(a, fa) && 0 <= idx < a.slots@.len() && a.slots@[idx] is Occupied && dec_post(a, b, idx) {
        if a.slots@[idx]->ref_count == 0 { b_wf_vacate(a, fa, b, seq![idx] + fa, idx); } else { b_wf_same_links(a, fa, b, idx); }
    }
}
pub broadcast group group_slots { b_add_post, b_inc_post, b_dec_post }
}

} // verus!
