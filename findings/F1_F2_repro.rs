//! Native reproductions (safe public API only) of the two defects the checks found on the pinned tree.
//! Run with `bin/repro` (copies this file into tests/ of a scratch copy of /repo and runs it).
//! On the pinned tree (a0d0d66) both tests FAIL; on the repaired tree both PASS.
use gc_arena::{arena::CollectionPhase, lock::RefLock, metrics::Pacing, Arena, Gc, Rootable};

/// F1 (C10, C06): a write barrier on a marked object whose type needs no tracing underflows `traced_gcs`
/// (debug: panic "attempt to subtract with overflow"; release: the debt collapses).
#[test]
fn f1_barrier_on_non_tracing_object() {
    let mut arena = Arena::<Rootable![Gc<'_, RefLock<i32>>]>::new(|mc| Gc::new(mc, RefLock::new(1)));
    let _ = arena.finish_marking();
    assert_eq!(arena.collection_phase(), CollectionPhase::Marked);
    arena.metrics().adjust_debt(1000.0);
    let before = arena.metrics().allocation_debt();
    arena.mutate(|mc, root| {
        *root.borrow_mut(mc) = 2; // Gc::write -> backward barrier on a Black, non-tracing object
    });
    let after = arena.metrics().allocation_debt();
    assert!(after >= before, "a write barrier lowered the debt: {before} -> {after}");
}

/// F2 (C09): with all work factors zero, collect_debt / cycle_debt called with positive debt must not return before the
/// collector is Sleeping again; when the last sweep step empties the arena they return one step short, in Sweeping.
#[test]
fn f2_stop_the_world_returns_in_sweeping() {
    for use_cycle_debt in [false, true] {
        let mut arena = Arena::<Rootable![()]>::new(|_| ());
        arena.metrics().set_pacing(Pacing { min_sleep: 10, ..Pacing::STOP_THE_WORLD });
        arena.finish_cycle();
        for _ in 0..30 {
            arena.mutate(|mc, _| {
                let _ = Gc::new(mc, 0u8);
            });
        }
        assert!(arena.metrics().allocation_debt() > 0.0);
        if use_cycle_debt { arena.cycle_debt() } else { arena.collect_debt() }
        assert_eq!(arena.collection_phase(), CollectionPhase::Sleeping, "stop-the-world call returned before the cycle finished");
    }
}
