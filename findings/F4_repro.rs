//! F4 (C19): on the pinned tree `ZstCache::alloc_zst::<T>()` is a safe public function that returns a `Gc<T>` although the caller never
//! constructed a `T`.  This test COMPILES AND PASSES only on the repaired tree (where the call needs `unsafe`, so the safe program below
//! can no longer be written: the `unsafe` block is the caller's promise to own a T).  On the pinned tree the same body without `unsafe`
//! compiles and hands out a token that was never constructed.
use gc_arena::{zst_cache::ZstCache, Gc};

mod guard {
    pub struct Token(());
    impl Token { pub fn is_real(&self) -> bool { true } }
}

#[test]
fn f4_alloc_zst_needs_unsafe() {
    gc_arena::arena::rootless_mutate(|mc| {
        let cache = ZstCache::<8>::new(mc);
        // repaired tree: this is an unsafe fn (warning-free only inside `unsafe`); pinned tree: a safe fn (the block is then "unused unsafe")
        #[deny(unused_unsafe)]
        let g: Option<Gc<'_, guard::Token>> = unsafe { cache.alloc_zst::<guard::Token>() };
        assert!(g.is_some());
    });
}
